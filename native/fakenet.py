"""A fake network for the bounded run-time checks of multi-target behaviour (C07, C08, C09, C19): socket.socket /
getaddrinfo are replaced so that each host name maps to a scripted peer.  Nothing is dialled."""
import io
import socket
import struct
import sys
import threading
import contextlib

from ssh_audit.writebuf import WriteBuf
from ssh_audit.ssh2_kex import SSH2_Kex
from ssh_audit.ssh2_kexparty import SSH2_KexParty
from ssh_audit.outputbuffer import OutputBuffer

_real_socket, _real_gai = socket.socket, socket.getaddrinfo


def packet(payload, bad_block=False):
    pad = -(len(payload) + 5) % 8
    if pad < 4:
        pad += 8
    if bad_block:
        pad += 1
    plen = len(payload) + pad + 1
    return struct.pack('>IB', plen, pad) + payload + b'\x00' * pad


def kexinit(kex, key, enc, mac, comp=('none',)):
    out = OutputBuffer()
    party = SSH2_KexParty(list(enc), list(mac), list(comp), [''])
    k = SSH2_Kex(out, b'\x11' * 16, list(kex), list(key), party, party, False, 0)
    w = WriteBuf()
    w.write_byte(20)
    k.write(w)
    return w.write_flush()


class Peer:
    """behaviour of one host: what each accepted connection sends, or how it fails"""

    def __init__(self, kind='healthy', banner=b'SSH-2.0-OpenSSH_9.9\r\n', kex=None, first_only=True):
        self.kind, self.banner, self.kex = kind, banner, kex
        self.connections = 0
        self.lock = threading.Lock()
        self.log = []

    def script(self, n):
        """bytes chunks (or exceptions) delivered on the n-th connection (0-based)"""
        k = self.kind
        if k == 'healthy':
            if n == 0:
                return [self.banner, packet(self.kex)]
            return [self.banner]                 # probes: banner, then the peer closes
        if k == 'silent':
            return [socket.timeout('timed out')]
        if k == 'early-close':
            return []
        if k == 'close-after-banner':
            return [self.banner]
        if k == 'bad-block-size':
            return [self.banner, packet(self.kex, bad_block=True)]
        if k == 'truncated-kexinit':
            p = packet(self.kex)
            return [self.banner, p[:len(p) // 2]]
        if k == 'short-kexinit-payload':
            return [self.banner, packet(self.kex[:30])]
        if k == 'garbage':
            return [self.banner, bytes(range(256)) * 4]
        if k == 'wrong-type':
            return [self.banner, packet(b'\x15' + self.kex[1:])]
        if k == 'not-ssh':
            return [b'HTTP/1.1 400 Bad Request\r\n\r\n']
        raise ValueError(k)


class FakeSocket:
    def __init__(self, net, family):
        self.net, self.family = net, family
        self.chunks = None
        self.peer = None
        self.closed = False
        self.sent = []
        net.register(self)

    def settimeout(self, t):
        pass

    def setblocking(self, b):
        pass

    def setsockopt(self, *a):
        pass

    def connect(self, addr):
        peer = self.net.by_ip.get(addr[0])
        self.net.note('connect', addr)
        if peer is None:
            raise ConnectionRefusedError(111, 'Connection refused')
        if peer.kind == 'refused':
            with peer.lock:
                peer.connections += 1
            raise ConnectionRefusedError(111, 'Connection refused')
        with peer.lock:
            n = peer.connections
            peer.connections += 1
        self.peer = peer
        self.chunks = list(peer.script(n))

    def connect_ex(self, addr):
        try:
            self.connect(addr)
            return 0
        except OSError as e:
            return e.errno or 111

    def recv(self, n, flags=0):
        if self.chunks is None:
            raise OSError(57, 'Socket is not connected')
        if not self.chunks:
            return b''
        c = self.chunks.pop(0)
        if isinstance(c, Exception):
            raise c
        if len(c) > n:
            self.chunks.insert(0, c[n:])
            c = c[:n]
        return c

    def send(self, data):
        self.sent.append(bytes(data))
        if self.peer is not None:
            self.peer.log.append(bytes(data))
        return len(data)

    sendall = send

    def shutdown(self, how):
        pass

    def close(self):
        self.closed = True

    def fileno(self):
        return 1000 + id(self) % 1000

    def getpeername(self):
        return ('0.0.0.0', 0)


class FakeNet:
    def __init__(self, hosts):
        """hosts: name -> Peer, or the string 'unresolvable'"""
        self.hosts = hosts
        self.by_ip = {}
        self.ip_of = {}
        for i, (h, p) in enumerate(hosts.items()):
            if p != 'unresolvable':
                ip = '10.9.%d.%d' % (i // 250, i % 250 + 1)
                self.by_ip[ip] = p
                self.ip_of[h] = ip
        self.events = []
        self.sockets = []
        self.lock = threading.Lock()

    def note(self, *ev):
        with self.lock:
            self.events.append(ev)

    def register(self, s):
        with self.lock:
            self.sockets.append(s)

    def socket(self, family=socket.AF_INET, type=socket.SOCK_STREAM, proto=0, fileno=None):
        return FakeSocket(self, family)

    def getaddrinfo(self, host, port, family=0, type=0, proto=0, flags=0):
        self.note('resolve', host, port)
        if host not in self.ip_of:
            raise socket.gaierror(-2, 'Name or service not known')
        return [(socket.AF_INET, socket.SOCK_STREAM, 6, '', (self.ip_of[host], port))]

    def __enter__(self):
        socket.socket, socket.getaddrinfo = self.socket, self.getaddrinfo
        return self

    def __exit__(self, *a):
        socket.socket, socket.getaddrinfo = _real_socket, _real_gai


def run_main(argv, net):
    """run the real main() (as the ssh-audit.py wrapper does) -> (exit status, stdout text)"""
    import ssh_audit.ssh_audit as sa
    from ssh_audit import exitcodes
    import traceback
    # every call stands for a fresh process: no per-thread rating tables left over from an earlier invocation
    from ssh_audit.ssh2_kexdb import SSH2_KexDB
    from ssh_audit.ssh1_kexdb import SSH1_KexDB
    SSH2_KexDB.DB_PER_THREAD.clear()
    SSH1_KexDB.DB_PER_THREAD.clear()
    buf = io.StringIO()
    old = sys.argv
    sys.argv = ['ssh-audit.py'] + list(argv)
    status = None
    try:
        with net, contextlib.redirect_stdout(buf), contextlib.redirect_stderr(io.StringIO()):
            try:
                status = sa.main()
            except SystemExit as e:
                status = e.code
            except Exception:
                status = exitcodes.UNKNOWN_ERROR
                print(traceback.format_exc())
    finally:
        sys.argv = old
    return status, buf.getvalue()
