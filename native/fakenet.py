"""A fake network for the bounded run-time checks of multi-target behaviour (C07, C08, C09, C19): socket.socket /
getaddrinfo are replaced so that each host name maps to a scripted peer.  Nothing is dialled."""
import io
import socket
import struct
import sys
import threading
import contextlib

from ssh_audit.writebuf import WriteBuf
from ssh_audit.ssh2_kex import SSH2_Kex
from ssh_audit.ssh2_kexparty import SSH2_KexParty
from ssh_audit.outputbuffer import OutputBuffer

_real_socket, _real_gai = socket.socket, socket.getaddrinfo
PENDING = object()          # script item: the connection stays open and silent


def packet(payload, bad_block=False):
    pad = -(len(payload) + 5) % 8
    if pad < 4:
        pad += 8
    if bad_block:
        pad += 1
    plen = len(payload) + pad + 1
    return struct.pack('>IB', plen, pad) + payload + b'\x00' * pad


def kexinit(kex, key, enc, mac, comp=('none',)):
    out = OutputBuffer()
    party = SSH2_KexParty(list(enc), list(mac), list(comp), [''])
    k = SSH2_Kex(out, b'\x11' * 16, list(kex), list(key), party, party, False, 0)
    w = WriteBuf()
    w.write_byte(20)
    k.write(w)
    return w.write_flush()


class Peer:
    """behaviour of one host: what each accepted connection sends, or how it fails"""

    def __init__(self, kind='healthy', banner=b'SSH-2.0-OpenSSH_9.9\r\n', kex=None, first_only=True):
        self.kind, self.banner, self.kex = kind, banner, kex
        self.connections = 0
        self.lock = threading.Lock()
        self.log = []

    def script(self, n):
        """bytes chunks (or exceptions) delivered on the n-th connection (0-based)"""
        k = self.kind
        if k == 'healthy':
            if n == 0:
                return [self.banner, packet(self.kex)]
            return [self.banner]                 # probes: banner, then the peer closes
        if k == 'silent':
            return [socket.timeout('timed out')]
        if k == 'early-close':
            return []
        if k == 'close-after-banner':
            return [self.banner]
        if k == 'bad-block-size':
            return [self.banner, packet(self.kex, bad_block=True)]
        if k == 'truncated-kexinit':
            p = packet(self.kex)
            return [self.banner, p[:len(p) // 2]]
        if k == 'short-kexinit-payload':
            return [self.banner, packet(self.kex[:30])]
        if k == 'garbage':
            return [self.banner, bytes(range(256)) * 4]
        if k == 'wrong-type':
            return [self.banner, packet(b'\x15' + self.kex[1:])]
        if k == 'not-ssh':
            return [b'HTTP/1.1 400 Bad Request\r\n\r\n']
        raise ValueError(k)


class FakeSocket:
    def __init__(self, net, family):
        self.net, self.family = net, family
        self.chunks = None
        self.peer = None
        self.closed = False
        self.sent = []
        net.register(self)

    def settimeout(self, t):
        pass

    def setblocking(self, b):
        pass

    def setsockopt(self, *a):
        pass

    def connect(self, addr):
        peer = self.net.by_ip.get(addr[0])
        self.net.note('connect', addr)
        if peer is None:
            raise ConnectionRefusedError(111, 'Connection refused')
        if peer.kind == 'refused':
            with peer.lock:
                peer.connections += 1
            raise ConnectionRefusedError(111, 'Connection refused')
        with peer.lock:
            n = peer.connections
            peer.connections += 1
        self.peer = peer
        self.chunks = list(peer.script(n))

    def connect_ex(self, addr):
        try:
            self.connect(addr)
            return 0
        except OSError as e:
            return e.errno or 111

    def recv(self, n, flags=0):
        ACTIVITY[0] += 1
        if self.chunks is None:
            raise OSError(57, 'Socket is not connected')
        if not self.chunks:
            return b''
        c = self.chunks.pop(0)
        if isinstance(c, Exception):
            raise c
        if len(c) > n:
            self.chunks.insert(0, c[n:])
            c = c[:n]
        return c

    def send(self, data):
        ACTIVITY[0] += 1
        self.sent.append(bytes(data))
        if self.peer is not None:
            self.peer.log.append(bytes(data))
        return len(data)

    sendall = send

    def shutdown(self, how):
        pass

    def close(self):
        ACTIVITY[0] += 1
        self.closed = True

    def fileno(self):
        return 1000 + id(self) % 1000

    def getpeername(self):
        return ('0.0.0.0', 0)

    def getsockname(self):
        return ('0.0.0.0', 0)

    def getsockopt(self, *a):
        return 0

    def gettimeout(self):
        return getattr(self, 'timeout', None)

    def __enter__(self):
        return self

    def __exit__(self, *a):
        self.close()


class FakeNet:
    def __init__(self, hosts):
        """hosts: name -> Peer, or the string 'unresolvable'"""
        self.hosts = hosts
        self.by_ip = {}
        self.ip_of = {}
        for i, (h, p) in enumerate(hosts.items()):
            if p != 'unresolvable':
                ip = '10.9.%d.%d' % (i // 250, i % 250 + 1)
                self.by_ip[ip] = p
                self.ip_of[h] = ip
        self.events = []
        self.sockets = []
        self.lock = threading.Lock()

    def note(self, *ev):
        ACTIVITY[0] += 1
        with self.lock:
            self.events.append(ev)

    def register(self, s):
        with self.lock:
            self.sockets.append(s)

    def socket(self, family=socket.AF_INET, type=socket.SOCK_STREAM, proto=0, fileno=None):
        return FakeSocket(self, family)

    def getaddrinfo(self, host, port, family=0, type=0, proto=0, flags=0):
        self.note('resolve', host, port)
        if host not in self.ip_of:
            raise socket.gaierror(-2, 'Name or service not known')
        extra = getattr(self, 'extra_addresses', {}).get(host, [])
        # (a name may resolve to several addresses: the additional ones lead to the same scripted peer)
        return [(socket.AF_INET, socket.SOCK_STREAM, 6, '', (ip, port)) for ip in [self.ip_of[host]] + list(extra)]

    def select(self, rlist, wlist, xlist, timeout=None):
        """every fake socket is readable at once (its script decides what recv returns), except one whose script says PENDING: the peer accepted the
        connection and says nothing (a tarpit); when nothing is readable the call takes a little time, like a real select() with a timeout"""
        self.selects = getattr(self, 'selects', 0) + 1
        ACTIVITY[0] += 1
        if self.selects > getattr(self, 'select_budget', 3000):
            raise SystemExit(99)          # a hang: the audit keeps polling connections that will never answer
        ready = [s for s in rlist if isinstance(s, FakeSocket) and not (s.chunks and s.chunks[0] is PENDING)]
        if not ready and timeout:
            import time
            time.sleep(min(timeout, 0.02))
        return ready, [], []

    def __enter__(self):
        import select as _select
        self._real_select = _select.select
        socket.socket, socket.getaddrinfo = self.socket, self.getaddrinfo
        _select.select = self.select
        return self

    def __exit__(self, *a):
        import select as _select
        socket.socket, socket.getaddrinfo = _real_socket, _real_gai
        _select.select = self._real_select


TICK_CPU_S = 20           # CPU seconds of the audit process without a single call into the scripted network = looping, not waiting
AFTER_HANG_TICK_CPU_S = 5
HANGS = [0]
ACTIVITY = [0]            # bumped by every socket / select / resolver call


class Hang(BaseException):
    pass


def run_main(argv, net):
    """run the real main() (as the ssh-audit.py wrapper does) -> (exit status, stdout text)"""
    import ssh_audit.ssh_audit as sa
    from ssh_audit import exitcodes
    import traceback
    # every call stands for a fresh process: no per-thread rating tables left over from an earlier invocation
    from ssh_audit.ssh2_kexdb import SSH2_KexDB
    from ssh_audit.ssh1_kexdb import SSH1_KexDB
    SSH2_KexDB.DB_PER_THREAD.clear()
    SSH1_KexDB.DB_PER_THREAD.clear()
    buf = io.StringIO()
    old = sys.argv
    sys.argv = ['ssh-audit.py'] + list(argv)
    status = None
    # watchdog: the scripted network answers at once and never blocks, so an audit that burns TICK_CPU_S seconds of CPU time (a profiling
    # timer: machine load does not count) without a single call into the network is not waiting for the peer, it is looping; it is stopped
    # and reported with the status 'hang' (no oracle accepts that status).  Loops that do call the network run into the read/select budgets.
    import signal, threading
    watch = threading.current_thread() is threading.main_thread() and hasattr(signal, 'setitimer')
    if watch:
        tick = TICK_CPU_S if not HANGS[0] else AFTER_HANG_TICK_CPU_S
        seen = [ACTIVITY[0]]
        def _on_tick(signum, frame):
            if ACTIVITY[0] == seen[0]:
                raise Hang('audit used %d s of CPU time without touching the network: it is looping' % tick)
            seen[0] = ACTIVITY[0]
        old_handler = signal.signal(signal.SIGPROF, _on_tick)
        signal.setitimer(signal.ITIMER_PROF, tick, tick)
    try:
        with net, contextlib.redirect_stdout(buf), contextlib.redirect_stderr(io.StringIO()):
            try:
                status = sa.main()
            except SystemExit as e:
                status = e.code
            except Hang as e:
                status = 'hang'
                HANGS[0] += 1
                print(str(e))
            except Exception:
                status = exitcodes.UNKNOWN_ERROR
                print(traceback.format_exc())
    finally:
        if watch:
            signal.setitimer(signal.ITIMER_PROF, 0)
            signal.signal(signal.SIGPROF, old_handler)
        sys.argv = old
    return status, buf.getvalue()


# ---------------------------------------------------------------------------------------------------- a reactive SSH server
def ssh_string(b):
    return struct.pack('>I', len(b)) + b


def mpint(n):
    if n == 0:
        return ssh_string(b'')
    l = n.bit_length() // 8 + 1
    return ssh_string(n.to_bytes(l, 'big'))


def rsa_blob(bits, e=65537):
    n = (1 << (bits - 1)) | (0x5a5a5a5a << 8) | 1            # an odd number of exactly `bits` bits
    return ssh_string(b'ssh-rsa') + mpint(e) + mpint(n)


def ed25519_blob():
    return ssh_string(b'ssh-ed25519') + ssh_string(bytes(range(32)))


def ecdsa_blob(curve=b'nistp256', qlen=65):
    return ssh_string(b'ecdsa-sha2-' + curve) + ssh_string(curve) + ssh_string(b'\x04' + b'\x11' * (qlen - 1))


def cert_blob(kind, key_bits, ca_blob):
    """OpenSSH certificate (PROTOCOL.certkeys): type, nonce, public key fields, serial, type=2 (host), key id, principals,
    valid after/before, critical options, extensions, reserved, signature key, signature"""
    if kind == 'rsa':
        head = ssh_string(b'ssh-rsa-cert-v01@openssh.com') + ssh_string(b'N' * 32) + mpint(65537) + mpint((1 << (key_bits - 1)) | 1)
    else:
        head = ssh_string(b'ssh-ed25519-cert-v01@openssh.com') + ssh_string(b'N' * 32) + ssh_string(bytes(range(32)))
    body = struct.pack('>Q', 7) + struct.pack('>I', 2) + ssh_string(b'key-id') + ssh_string(ssh_string(b'host.example')) + \
        struct.pack('>Q', 0) + struct.pack('>Q', 0xffffffffffffffff) + ssh_string(b'') + ssh_string(b'') + ssh_string(b'') + \
        ssh_string(ca_blob) + ssh_string(b'sig')
    return head + body


class Server(Peer):
    """reacts to what the client sends: KEXINIT, then KEXDH_INIT -> KEXDH_REPLY(host key), GEX_REQUEST -> GEX_GROUP(p) -> GEX_REPLY"""

    def __init__(self, kex, key, enc, mac, hostkeys=None, moduli=None, select='roundup', banner=b'SSH-2.0-OpenSSH_9.9\r\n', faults=None):
        Peer.__init__(self, 'server', banner=banner, kex=kexinit(kex, key, enc, mac))
        self.hostkeys = hostkeys or {}            # host key type -> blob
        self.moduli = sorted(moduli or [])
        self.select = select
        self.faults = faults or {}                # (connection number, stage) -> fault
        self.requests = []                        # (connection, message type, detail)
        self.conn_log = []                        # per connection: dict(msgs=[...], closed=bool)

    def choose_modulus(self, mn, pref, mx):
        """server-side selection styles of the property's quantifier"""
        ok = [m for m in self.moduli if mn <= m <= mx]
        if self.select == 'strict':               # smallest modulus inside [min, max] that is >= preferred, else the largest below it
            up = [m for m in ok if m >= pref]
            return up[0] if up else (ok[-1] if ok else None)
        if self.select == 'roundup':              # smallest >= preferred, ignoring max; else the largest available
            up = [m for m in self.moduli if m >= max(pref, mn)]
            return up[0] if up else None
        if self.select == 'openssh-fallback':     # like strict, but falls back to 2048 when nothing fits
            up = [m for m in ok if m >= pref]
            return up[0] if up else (ok[-1] if ok else 2048)
        raise ValueError(self.select)


class ServerSocket(FakeSocket):
    def connect(self, addr):
        peer = self.net.by_ip.get(addr[0])
        self.net.note('connect', addr)
        if not isinstance(peer, Server):
            return FakeSocket.connect(self, addr)
        with peer.lock:
            self.n = peer.connections
            peer.connections += 1
            peer.conn_log.append({'msgs': [], 'closed': False})
        self.peer = peer
        d = getattr(peer, 'delays', {}).get(self.n)
        if d:
            import time
            time.sleep(d)                 # a slow accept: lets another target's scan finish meanwhile (forced interleaving)
        self.inbuf = b''
        self.got_banner = False
        self.hostkey_type = None
        self.chunks = [peer.banner, packet(peer.kex)]
        f = peer.faults.get((self.n, 'kexinit'))
        if f is not None:
            self.chunks = [peer.banner] + fault_chunks(packet(peer.kex), f)
        ta = getattr(peer, 'throttle_after', None)
        if ta is not None and self.n >= ta:
            # connections beyond the ta-th are throttled: no identification string, only this answer (None: closed at once)
            self.chunks = [getattr(peer, 'throttle_answer', b'Exceeded MaxStartups\r\n')]
        f = peer.faults.get((self.n, 'banner'))
        if f is not None:
            rest = self.chunks[1:] if f[0] in ('prebanner', 'segment', 'dup') else []
            self.chunks = fault_chunks(peer.banner, f) + rest

    def close(self):
        FakeSocket.close(self)
        if isinstance(self.peer, Server) and hasattr(self, 'n'):
            self.peer.conn_log[self.n]['closed'] = True

    def send(self, data):
        ACTIVITY[0] += 1
        if not isinstance(self.peer, Server):
            return FakeSocket.send(self, data)
        self.inbuf += bytes(data)
        self.peer.conn_log[self.n]['sent'] = self.peer.conn_log[self.n].get('sent', 0) + len(data)
        if not self.got_banner:
            i = self.inbuf.find(b'\n')
            if i < 0:
                return len(data)
            self.inbuf = self.inbuf[i + 1:]
            self.got_banner = True
        while len(self.inbuf) >= 5:
            plen, pad = struct.unpack('>IB', self.inbuf[:5])
            if len(self.inbuf) < 4 + plen:
                break
            payload = self.inbuf[5:4 + plen - pad]
            self.inbuf = self.inbuf[4 + plen:]
            self.handle(payload)
        return len(data)

    sendall = send

    def reply(self, stage, pkt):
        f = self.peer.faults.get((self.n, stage))
        for _ in range(getattr(self.peer, 'debug_before', {}).get(stage, 0)):
            self.chunks.append(packet(b'\x04\x00' + ssh_string(b'debug message') + ssh_string(b'')))      # SSH_MSG_DEBUG: legal at any time
        if f is None:
            self.chunks.append(pkt)
        else:
            self.chunks.extend(fault_chunks(pkt, f))

    def handle(self, payload):
        srv = self.peer
        t = payload[0]
        srv.conn_log[self.n]['msgs'].append(t)
        if t == 20:
            # the client's KEXINIT: remember the single host-key type it asks for
            off = 17
            lists = []
            for _ in range(10):
                n = struct.unpack('>I', payload[off:off + 4])[0]
                lists.append(payload[off + 4:off + 4 + n].decode().split(','))
                off += 4 + n
            self.hostkey_type = lists[1][0]
            self.kex_alg = lists[0][0]
        elif t == 30 and not getattr(self, 'gex', False):       # KEXDH_INIT / ECDH_INIT
            if not init_ok(getattr(self, 'kex_alg', ''), payload):
                srv.requests.append((self.n, 'malformed kexdh_init', payload[:8].hex()))
                self.chunks.append(None)       # protocol error: a real server disconnects
                return
            srv.requests.append((self.n, 'kexdh_init', self.hostkey_type))
            blob = srv.hostkeys.get(self.hostkey_type)
            if blob is None:
                self.chunks.append(None)       # close
                return
            self.reply('kexdh_reply', packet(b'\x1f' + ssh_string(blob) + ssh_string(b'F' * 32) + ssh_string(b'sig')))
        elif t == 34:                          # GEX_REQUEST
            mn, pref, mx = struct.unpack('>III', payload[1:13])
            m = srv.choose_modulus(mn, pref, mx)
            srv.requests.append((self.n, 'gex_request', (mn, pref, mx), m))
            self.gex = True
            if m is None:
                self.chunks.append(None)
                return
            p = (1 << (m - 1)) | 0xf123456789abcdef
            self.reply('gex_group', packet(b'\x1f' + mpint(p) + mpint(2)))
        elif t == 32:                          # GEX_INIT
            if not init_ok('diffie-hellman-group-exchange', payload):
                srv.requests.append((self.n, 'malformed gex_init', payload[:8].hex()))
                self.chunks.append(None)
                return
            srv.requests.append((self.n, 'gex_init', self.hostkey_type))
            blob = srv.hostkeys.get(self.hostkey_type) or ed25519_blob()
            self.reply('gex_reply', packet(b'\x21' + ssh_string(blob) + mpint(12345) + ssh_string(b'sig')))

        elif t not in (1, 2, 3, 4):            # (disconnect / ignore / unimplemented / debug are legal at any time)
            srv.requests.append((self.n, 'unexpected message', t))
            self.chunks.append(None)           # protocol error: a real server disconnects

    def recv(self, n, flags=0):
        ACTIVITY[0] += 1
        self.net.recv_calls = getattr(self.net, 'recv_calls', 0) + 1
        if self.net.recv_calls > getattr(self.net, 'recv_budget', 200000):
            raise SystemExit(99)          # a hang: the audit keeps reading although the peer has nothing more to say
        if self.chunks and self.chunks[0] is None:
            self.chunks = []
            return b''
        return FakeSocket.recv(self, n, flags)


POINT_LEN = {'curve25519-sha256': 32, 'curve25519-sha256@libssh.org': 32, 'ecdh-sha2-nistp256': 65, 'ecdh-sha2-nistp384': 97, 'ecdh-sha2-nistp521': 133}


def init_ok(kex_alg, payload):
    """is this a well-formed KEXDH_INIT / ECDH_INIT / GEX_INIT for the negotiated method: the message number, then exactly one
    length-prefixed value -- a public point of the curve's size, or a positive mpint in minimal form"""
    if len(payload) < 5:
        return False
    n = struct.unpack('>I', payload[1:5])[0]
    if len(payload) != 5 + n or n == 0:
        return False
    v = payload[5:]
    if kex_alg in POINT_LEN:
        return n == POINT_LEN[kex_alg] and (n == 32 or v[0] == 4)
    if v[0] & 0x80:
        return False                       # negative
    if v[0] == 0 and (n == 1 or not v[1] & 0x80):
        return False                       # not minimal (or zero)
    return int.from_bytes(v, 'big') > 1


def unframe(pkt):
    plen, pad = struct.unpack('>IB', pkt[:5])
    return pkt[5:4 + plen - pad]


def fields(data, off):
    """length-prefixed fields of data[off:] -> [(start of length field, length, start of data)] (stops at the first that does not fit)"""
    out = []
    while off + 4 <= len(data):
        n = struct.unpack('>I', data[off:off + 4])[0]
        if off + 4 + n > len(data):
            break
        out.append((off, n, off + 4))
        off += 4 + n
    return out


def mutate_len(data, hdr, path, mode):
    """set the length field of the path[0]-th field of data (after a header of hdr bytes) -- recursively for nested blobs --
    to 0 / len-1 / len+1 / huge, leaving the bytes that follow as they are"""
    fl = fields(data, hdr)
    if path[0] >= len(fl):
        return data
    off, n, d0 = fl[path[0]]
    if len(path) > 1:
        inner = mutate_len(data[d0:d0 + n], 0, path[1:], mode)
        return data[:off] + struct.pack('>I', len(inner)) + inner + data[d0 + n:]
    new = {'zero': 0, 'minus1': max(n - 1, 0), 'plus1': n + 1, 'huge': 0xfffffff0}[mode]
    return data[:off] + struct.pack('>I', new) + data[d0:]


def fault_chunks(pkt, f):
    kind = f[0]
    if kind == 'truncate':
        return [pkt[:f[1]]]
    if kind == 'garbage':
        return [bytes((i * 37 + 11) % 256 for i in range(f[1]))]
    if kind == 'ptrunc':
        # a correctly framed packet whose payload is cut short (the framing layer accepts it; the message parser must not)
        return [packet(unframe(pkt)[:f[1]])]
    if kind == 'close':
        return [None]
    if kind == 'stall':
        return [socket.timeout('timed out')]
    if kind == 'setlen':
        pl = unframe(pkt)
        return [packet(mutate_len(pl, 17 if pl[:1] == b'\x14' else 1, f[1], f[2]))]
    if kind == 'wrongtype':
        return [pkt[:5] + bytes([f[1]]) + pkt[6:]]
    if kind == 'debug-first':
        return [packet(b'\x04\x00' + ssh_string(b'dbg') + ssh_string(b''))] * f[1] + [pkt]
    if kind == 'debug-only':
        return [packet(b'\x04\x00' + ssh_string(b'dbg') + ssh_string(b''))] * f[1]
    if kind == 'dup':
        return [pkt, pkt]
    if kind == 'segment':
        return [pkt[i:i + f[1]] for i in range(0, len(pkt), f[1])]
    if kind == 'prebanner':
        return [b''.join(l + b'\r\n' for l in f[1]) + pkt]
    if kind == 'bytes':
        return [f[1]]
    raise ValueError(kind)


def _server_socket(self, family=socket.AF_INET, type=socket.SOCK_STREAM, proto=0, fileno=None):
    return ServerSocket(self, family)


FakeNet.socket = _server_socket
