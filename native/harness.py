"""Native harness for the bounded run-time contract checks: builds peers, runs the REAL output()/build_struct code of the
repository under CPython and parses what it prints.  (Imported inside fresh /venv/bin/python processes.)"""
import io
import json
import re
import contextlib

from ssh_audit import exitcodes
from ssh_audit.auditconf import AuditConf
from ssh_audit.banner import Banner
from ssh_audit.outputbuffer import OutputBuffer
from ssh_audit.ssh2_kex import SSH2_Kex
from ssh_audit.ssh2_kexparty import SSH2_KexParty
from ssh_audit.ssh2_kexdb import SSH2_KexDB
from ssh_audit.ssh1_kexdb import SSH1_KexDB
from ssh_audit.ssh1_publickeymessage import SSH1_PublicKeyMessage
import ssh_audit.ssh_audit as sa

ANSI = re.compile(r'\x1b\[[0-9;]*m')


def fresh_tables():
    """every run starts from the master tables (what a fresh process sees)"""
    SSH2_KexDB.thread_exit()
    SSH1_KexDB.thread_exit()


def make_kex(kex, key, enc, mac, cli_enc=None, cli_mac=None, comp=('none', 'zlib@openssh.com'), out=None):
    out = out or OutputBuffer()
    cli = SSH2_KexParty(list(cli_enc if cli_enc is not None else enc), list(cli_mac if cli_mac is not None else mac), list(comp), [''])
    srv = SSH2_KexParty(list(enc), list(mac), list(comp), [''])
    return SSH2_Kex(out, b'\x00' * 16, list(kex), list(key), cli, srv, False, 0)


def make_pkm(cmask=0x48, amask=0x2c):
    return SSH1_PublicKeyMessage(b'\x01' * 8, (768, 0x10001, 0xc0ffee), (1024, 0x10001, 0xdeadbeef1234567), 2, cmask, amask)


def run_output(kex=None, pkm=None, banner='SSH-2.0-OpenSSH_8.9', client_host=None, json_out=False, batch=False, verbose=False,
               level='info', colors=False, host='localhost', port=22, json_indent=False, print_target=False, fresh=True):
    """-> (status, text) ; text is what the OutputBuffer holds after output() (the JSON document when json_out)"""
    if fresh:
        fresh_tables()
    out = OutputBuffer()
    out.batch, out.verbose, out.use_colors = batch, verbose, colors
    out.level = level
    aconf = AuditConf(host, port)
    aconf.json = json_out
    aconf.json_print_indent = json_indent
    aconf.batch, aconf.verbose, aconf.level, aconf.colors = batch, verbose, level, colors
    if json_out:
        out.json = True
        out.use_colors = False
    b = Banner.parse(banner) if isinstance(banner, str) else banner
    with contextlib.redirect_stdout(io.StringIO()):
        status = sa.output(out, aconf, b, [], client_host=client_host, kex=kex, pkm=pkm, print_target=print_target)
    return status, out.get_buffer()


LINE = re.compile(r'^\((kex|key|enc|mac|aut)\) (\S+)(?: \(([^)]*)\))?\s*(?:-- \[(fail|warn|info)\] (.*))?$')
CONT = re.compile(r'^\s+`- \[(fail|warn|info)\] (.*)$')


def text_findings(text):
    """[(category, name, level, note)] of the algorithm sections of a (plain, non-verbose or verbose) text report"""
    out = []
    cur = None
    for raw in text.split('\n'):
        line = ANSI.sub('', raw).rstrip()
        m = LINE.match(line)
        if m:
            cat, name, size, lvl, note = m.groups()
            cur = (cat, name)
            if lvl is not None:
                out.append((cat, name, lvl, note))
            else:
                out.append((cat, name, None, ''))
            continue
        m = CONT.match(line)
        if m and cur is not None:
            out.append((cur[0], cur[1], m.group(1), m.group(2)))
    return out


def text_names(text, cat):
    seen = []
    for c, n, lvl, note in text_findings(text):
        if c == cat and (not seen or seen[-1][0] != n or lvl is None or True):
            seen.append((n, lvl, note))
    # one entry per first line (continuation lines repeat the name only in verbose mode)
    names = []
    prev = None
    for raw in text.split('\n'):
        line = ANSI.sub('', raw).rstrip()
        m = LINE.match(line)
        if m and m.group(1) == cat:
            names.append(m.group(2))
    return names


def rec_lines(text):
    out = []
    for raw in text.split('\n'):
        line = ANSI.sub('', raw).rstrip()
        m = re.match(r'^\(rec\) ([-+!])(\S+?)\s*-- (kex|key|enc|mac) algorithm to (remove|append|change)', line)
        if m:
            out.append((m.group(1), m.group(2), m.group(3)))
    return out


def master(cat, name):
    e = SSH2_KexDB.MASTER_DB[cat].get(name)
    return e
