#!/usr/bin/env python3
"""Evaluate a harmless refactoring (harmless/<id>/{patch.diff, equiv.py, meta.json}): confirm in a scratch worktree that the tests pass and the
equivalence digest is unchanged, then run the property's quick check on the refactored tree (scratch copy of /verif, PYVC_REPO).
A VIOLATION line is a false alarm; UNDECIDED (exit 2) means a contract no longer binds to the refactored code."""
import json, os, subprocess, sys, tempfile, shutil, time


def sh(cmd, cwd=None, timeout=1800, env=None):
    try:
        p = subprocess.run(cmd, shell=True, cwd=cwd, capture_output=True, text=True, timeout=timeout, env=env)
        return p.returncode, p.stdout + p.stderr
    except subprocess.TimeoutExpired as e:
        return 124, 'TIMEOUT'


def main():
    d = os.path.abspath(sys.argv[1])
    extra = [a.split('=')[1] for a in sys.argv if a.startswith('--check=')]
    meta = json.load(open(os.path.join(d, 'meta.json')))
    pid = meta['property']
    verif = os.path.dirname(os.path.dirname(os.path.abspath(__file__)))
    wt = tempfile.mkdtemp(prefix='refwt_'); os.rmdir(wt)
    vcopy = tempfile.mkdtemp(prefix='refverif_')
    res = {}
    try:
        sh('git -C /repo worktree add -q --detach %s HEAD' % wt)
        env = dict(os.environ, PYTHONPATH=os.path.join(wt, 'src'))
        rc0, o0 = sh('/venv/bin/python %s' % os.path.join(d, 'equiv.py'), cwd=wt, env=env)
        rc, out = sh('git apply %s' % os.path.join(d, 'patch.diff'), cwd=wt)
        res['applies'] = (rc == 0)
        rc1, o1 = sh('/venv/bin/python %s' % os.path.join(d, 'equiv.py'), cwd=wt, env=env)
        res['equivalent'] = (rc0 == 0 and rc1 == 0 and o0.strip().splitlines()[-1:] == o1.strip().splitlines()[-1:])
        rc, out = sh('/venv/bin/python -m pytest -q -p no:cacheprovider -x', cwd=wt, env=env)
        res['tests_pass_with'] = (rc == 0)
        res['checks'] = {}
        for p in [pid] + extra:
            sh('rsync -a --exclude .git --exclude seeded --exclude harmless %s/ %s/' % (verif, vcopy))
            t0 = time.time()
            rc, out = sh('./check %s --tier quick' % p, cwd=vcopy, env=dict(os.environ, PYVC_REPO=wt))
            vl = [l for l in out.splitlines() if l.startswith('VIOLATION')]
            res['checks'][p] = {'check_exit': rc, 'wall_s': round(time.time() - t0, 1), 'violation_lines': sorted(set(vl))[:5],
                                'undecided_lines': [l[:220] for l in out.splitlines() if l.startswith('UNDECIDED')][:5],
                                'stale_lines': [l[:220] for l in out.splitlines() if l.startswith('STALE-CONTRACT')][:5],
                                'summary_line': out.strip().splitlines()[-1][:200] if out.strip() else ''}
        res['false_alarm'] = any(r['check_exit'] == 1 for r in res['checks'].values())
        res['undecided'] = any(r['check_exit'] == 2 for r in res['checks'].values())
        res['stale'] = any(r['stale_lines'] for r in res['checks'].values())
    finally:
        sh('git -C /repo worktree remove --force %s' % wt)
        shutil.rmtree(wt, ignore_errors=True)
        shutil.rmtree(vcopy, ignore_errors=True)
    meta['evaluation'] = res
    json.dump(meta, open(os.path.join(d, 'meta.json'), 'w'), indent=1)
    print(os.path.basename(d), json.dumps({k: v for k, v in res.items() if k != 'checks'}), {p: (r['check_exit'], r['summary_line'][:110]) for p, r in res['checks'].items()})


if __name__ == '__main__':
    main()
