#!/usr/bin/env python3
"""one paragraph of numbers for DESIGN.md from mutants/battery*.json"""
import glob, json, os
root = os.path.join(os.path.dirname(os.path.dirname(os.path.abspath(__file__))), 'mutants')
tot = tests = live = killed = 0
by = {}
eq = out = und = 0
for f in sorted(glob.glob(os.path.join(root, 'battery*.json'))):
    for r in json.load(open(f)):
        tot += 1
        if r['tests_pass'] is False:
            tests += 1
            continue
        live += 1
        if r['killed_by']:
            killed += 1
            by[r['killed_by']] = by.get(r['killed_by'], 0) + 1
        else:
            t = (r.get('triage') or '')
            if r.get('undecided'):
                und += 1
            if t.startswith(('equivalent', 'dead code', 'consistent')):
                eq += 1
            else:
                out += 1
print('%d mutants in %d batches: %d are killed by the repository\'s own tests; of the %d that pass them, %d are reported as a VIOLATION by at least one quick check '
      '(%s) and %d survive (%d equivalent on every input the tool can meet, %d in code no listed property speaks about; %d of the survivors ended UNDECIDED in a prover, none was refuted).'
      % (tot, len(glob.glob(os.path.join(root, 'battery*.json'))), tests, live, killed, ', '.join('%s %d' % kv for kv in sorted(by.items())), live - killed, eq, out, und))
