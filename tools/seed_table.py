#!/usr/bin/env python3
"""print the seeded-change table of DESIGN.md from seeded/*/meta.json"""
import glob, json, os
rows = []
for d in sorted(glob.glob(os.path.join(os.path.dirname(os.path.dirname(os.path.abspath(__file__))), 'seeded', '*', ''))):
    m = json.load(open(d + 'meta.json'))
    ev = m.get('evaluation') or {}
    name = os.path.basename(d[:-1])
    confirmed = ev.get('demo_passes_without') and ev.get('demo_fails_with') and ev.get('tests_pass_with')
    by = []
    for p, r in (ev.get('checks') or {}).items():
        if r['detected']:
            obl = sorted(set(l.split('replay=')[1].split()[0].split('/')[-1].rsplit('.json', 1)[0].rsplit('_', 1)[0] if 'bounded' not in l else 'bounded:' + l.split('bounded_')[1].split('.')[0] for l in r['violation_lines']))
            by.append('%s: %s' % (p, ', '.join(obl[:3])))
    what = m['summary'].split('. ')[0][:150]
    status = ('**caught**' + (' (by proof only: its demo no longer fails on the current tree)' if m.get('no_longer_manifests') else '')) if ev.get('detected') \
        else ('not reproducible on the current tree' if m.get('no_longer_manifests') else 'MISSED')
    if ev.get('tests_pass_with') is False:
        status += ' (the repository\'s own tests also fail on it)'
    rows.append('| %s | %s | %s | %s |' % (name, what.replace('|', '/'), status, '; '.join(by).replace('|', '/') or '-'))
print('| change | what it does | result | failed obligation(s) |')
print('|---|---|---|---|')
print('\n'.join(rows))
