#!/usr/bin/env python3
"""Mutant battery: one-point syntactic mutants of the functions the properties are anchored in; a mutant that the repository's own tests
do not kill is given to the quick checks (on a scratch copy of the tree, PYVC_REPO), most relevant first; a mutant that every check
accepts is listed as a survivor for triage (equivalent mutant, code outside every property, or a gap in the checks).

  mutants.py generate <outdir> [--limit N] [--seed S]     write <outdir>/mNNNN/{file.py, meta.json}
  mutants.py run <outdir> [--jobs J]                      evaluate every mutant not yet evaluated; results into each meta.json
  mutants.py report <outdir>                              summary table
"""
import ast, copy, json, os, random, shutil, subprocess, sys, tempfile, time

SRC = '/repo/src/ssh_audit'
# file -> (functions to mutate (None: all), checks to try in order)
FAST = ['C01', 'C03', 'C04', 'C15', 'C13', 'C05', 'C06', 'C07', 'C08', 'C18', 'C16', 'C11', 'C10', 'C14', 'C17', 'C09']
TARGETS = {
    'ssh_audit.py': (['output_algorithm', 'output_algorithms', 'output', 'build_struct', 'post_process_findings', 'get_algorithm_recommendations', 'output_recommendations',
                      'output_fingerprints', 'output_compatibility', 'output_info', 'output_security', 'evaluate_policy', 'audit', 'target_worker_thread', 'make_policy', 'algorithm_lookup', 'main', 'process_commandline'],
                     ['C01', 'C03', 'C04', 'C15', 'C13', 'C08', 'C07', 'C18', 'C11', 'C14', 'C05', 'C06', 'C16', 'C17', 'C09', 'C02', 'C19']),
    'policy.py': (None, ['C06', 'C05', 'C07', 'C17', 'C15']),
    'algorithms.py': (['get_recommendations', 'get_ssh_timeframe', 'maxlen'], ['C13', 'C14', 'C04', 'C01', 'C15']),
    'algorithm.py': (None, ['C03', 'C13', 'C14', 'C15', 'C01']),
    'software.py': (['compare_version', '_version_tuple', 'between_versions', 'parse', '_fix_patch', '_fix_date', '_extract_os_version'], ['C14', 'C16', 'C13', 'C09']),
    'banner.py': (None, ['C16', 'C01', 'C09']),
    'utils.py': (None, ['C16', 'C18', 'C01', 'C10']),
    'timeframe.py': (None, ['C14']),
    'readbuf.py': (None, ['C10', 'C01', 'C09', 'C05']),
    'writebuf.py': (None, ['C10', 'C11', 'C12']),
    'ssh2_kex.py': (None, ['C10', 'C01', 'C11', 'C07']),
    'ssh1_publickeymessage.py': (None, ['C01', 'C10', 'C09']),
    'ssh1_crc32.py': (None, ['C10']),
    'ssh_socket.py': (['get_banner', 'read_packet', 'send_packet', 'ensure_read', 'connect', '_resolve', 'recv', 'send', 'close', 'is_connected', 'send_kexinit'], ['C10', 'C16', 'C18', 'C09', 'C08', 'C19']),
    'kexdh.py': (['recv_reply', '__parse_reply', '__parse_ca_key', '__get_bytes', '__adjust_key_size', 'get_hostkey_size', 'get_ca_size', 'get_dh_modulus_size', 'send_init_gex', 'send_init', 'set_params'], ['C11', 'C09', 'C12']),
    'hostkeytest.py': (None, ['C11', 'C19', 'C03', 'C17', 'C09']),
    'gextest.py': (['run', '_send_init', 'reconnect'], ['C19', 'C09', 'C12']),
    'dheat.py': (['dh_rate_test', '_dh_rate_test'], ['C19', 'C09']),
    'ssh2_kexdb.py': (['get_db', 'thread_exit'], ['C07', 'C17', 'C03', 'C04', 'C02']),
    'outputbuffer.py': (None, ['C15', 'C01', 'C08']),
    'auditconf.py': (None, ['C18', 'C15']),
}
OPS = set()
STRS = []
CMP = {ast.Lt: ast.LtE, ast.LtE: ast.Lt, ast.Gt: ast.GtE, ast.GtE: ast.Gt, ast.Eq: ast.NotEq, ast.NotEq: ast.Eq, ast.In: ast.NotIn, ast.NotIn: ast.In, ast.Is: ast.IsNot, ast.IsNot: ast.Is}


def sites(fn):
    """(kind, node, description) mutation sites inside one function"""
    out = []
    for n in ast.walk(fn):
        if isinstance(n, ast.Compare) and len(n.ops) == 1 and type(n.ops[0]) in CMP:
            out.append(('cmp', n))
        elif isinstance(n, ast.BoolOp):
            out.append(('bool', n))
        elif isinstance(n, ast.Constant) and isinstance(n.value, int) and not isinstance(n.value, bool) and abs(n.value) < 70000:
            out.append(('const+1', n)); out.append(('const-1', n))
        elif isinstance(n, ast.UnaryOp) and isinstance(n.op, ast.Not):
            out.append(('not', n))
        elif isinstance(n, (ast.Break, ast.Continue)):
            out.append(('brk', n))
        elif isinstance(n, ast.If) and not n.orelse:
            out.append(('if-true', n)); out.append(('if-false', n))
        elif isinstance(n, (ast.Expr, ast.AugAssign)) and not (isinstance(n, ast.Expr) and isinstance(n.value, ast.Constant)):
            out.append(('del-stmt', n))
        elif isinstance(n, ast.Return) and n.value is not None and isinstance(n.value, ast.Name):
            out.append(('ret-none', n))
        elif isinstance(n, ast.BinOp) and isinstance(n.op, (ast.Add, ast.Sub)) and not isinstance(n.left, ast.Constant):
            out.append(('arith', n))
        elif isinstance(n, ast.Subscript) and isinstance(n.slice, ast.Constant) and isinstance(n.slice.value, int) and 0 <= n.slice.value < 4:
            out.append(('index', n))
        elif isinstance(n, (ast.List, ast.Tuple, ast.Set)) and isinstance(getattr(n, 'ctx', ast.Load()), ast.Load) and len(n.elts) >= 2 and all(isinstance(e, ast.Constant) for e in n.elts):
            out.append(('list-drop-last', n)); out.append(('list-drop-first', n))
        elif isinstance(n, ast.Call) and len(n.args) >= 2 and not n.keywords and all(isinstance(a, ast.Name) for a in n.args[:2]) and n.args[0].id != n.args[1].id:
            out.append(('arg-swap', n))
    if 'gen2' in OPS:
        strs = sorted(set(c.value for c in ast.walk(fn) if isinstance(c, ast.Constant) and isinstance(c.value, str) and 0 < len(c.value) < 24 and ' ' not in c.value))
        for n in ast.walk(fn):
            if isinstance(n, ast.Compare) and len(n.comparators) == 1 and isinstance(n.comparators[0], ast.Constant) and isinstance(n.comparators[0].value, str) and len(strs) >= 2:
                out.append(('str-other', n))
        out = [(k, n) for k, n in out if k in ('list-drop-last', 'list-drop-first', 'arg-swap', 'str-other', 'ret-none', 'brk')]
    return out


def apply(kind, n):
    if kind == 'cmp':
        n.ops = [CMP[type(n.ops[0])]()]
    elif kind == 'bool':
        n.op = ast.Or() if isinstance(n.op, ast.And) else ast.And()
    elif kind == 'const+1':
        n.value = n.value + 1
    elif kind == 'const-1':
        n.value = n.value - 1
    elif kind == 'not':
        n.op = ast.UAdd() if False else n.op
        return 'replace-with-operand'
    elif kind == 'brk':
        return 'swap-break-continue'
    elif kind == 'if-true':
        n.test = ast.Constant(True)
    elif kind == 'if-false':
        n.test = ast.Constant(False)
    elif kind == 'del-stmt':
        return 'delete'
    elif kind == 'ret-none':
        n.value = ast.Constant(None)
    elif kind == 'arith':
        n.op = ast.Sub() if isinstance(n.op, ast.Add) else ast.Add()
    elif kind == 'index':
        n.slice = ast.Constant(n.slice.value + 1)
    elif kind == 'list-drop-last':
        n.elts = n.elts[:-1]
    elif kind == 'list-drop-first':
        n.elts = n.elts[1:]
    elif kind == 'arg-swap':
        n.args[0], n.args[1] = n.args[1], n.args[0]
    elif kind == 'str-other':
        cur = n.comparators[0].value
        others = [x for x in STRS if x != cur]
        if others:
            n.comparators[0] = ast.Constant(others[len(cur) % len(others)])
    return None


class Rewriter(ast.NodeTransformer):
    def __init__(self, target, mode):
        self.target, self.mode = target, mode

    def generic_visit(self, node):
        node = super().generic_visit(node)
        return node

    def visit(self, node):
        if node is self.target:
            if self.mode == 'replace-with-operand':
                return node.operand
            if self.mode == 'swap-break-continue':
                return ast.copy_location(ast.Continue() if isinstance(node, ast.Break) else ast.Break(), node)
            if self.mode == 'delete':
                return ast.copy_location(ast.Pass(), node)
        return super().visit(node)


def generate(outdir, limit, seed):
    rnd = random.Random(seed)
    cand = []
    only = os.environ.get('MUT_FILES')
    for fname, (funcs, checks) in TARGETS.items():
        if only and fname not in only.split(','):
            continue
        text = open(os.path.join(SRC, fname)).read()
        tree = ast.parse(text)
        fns = [n for n in ast.walk(tree) if isinstance(n, ast.FunctionDef) and (funcs is None or n.name in funcs or n.name.lstrip('_') in [f.lstrip('_') for f in funcs])]
        for fn in fns:
            for si, (kind, node) in enumerate(sites(fn)):
                cand.append((fname, fn.name, fn.lineno, si, kind))
    rnd.shuffle(cand)
    # spread over files: at most limit, round-robin by file
    byfile = {}
    for c in cand:
        byfile.setdefault(c[0], []).append(c)
    chosen = []
    while len(chosen) < limit and any(byfile.values()):
        for f in list(byfile):
            if byfile[f] and len(chosen) < limit:
                chosen.append(byfile[f].pop())
    os.makedirs(outdir, exist_ok=True)
    k = 0
    for fname, fnname, lineno, si, kind in chosen:
        text = open(os.path.join(SRC, fname)).read()
        tree = ast.parse(text)
        fn = [n for n in ast.walk(tree) if isinstance(n, ast.FunctionDef) and n.name == fnname and n.lineno == lineno][0]
        kind2, node = sites(fn)[si]
        STRS[:] = sorted(set(c.value for c in ast.walk(fn) if isinstance(c, ast.Constant) and isinstance(c.value, str) and 0 < len(c.value) < 24 and ' ' not in c.value))
        before = ast.unparse(node)[:120]
        line = getattr(node, 'lineno', lineno)
        mode = apply(kind2, node)
        if mode:
            tree = Rewriter(node, mode).visit(tree)
        ast.fix_missing_locations(tree)
        try:
            new = ast.unparse(tree)
            compile(new, fname, 'exec')
        except Exception:
            continue
        if new == ast.unparse(ast.parse(text)):
            continue
        d = os.path.join(outdir, 'm%04d' % k)
        os.makedirs(d, exist_ok=True)
        open(os.path.join(d, fname), 'w').write(new)
        json.dump({'file': fname, 'function': fnname, 'line': line, 'operator': kind2, 'original': before}, open(os.path.join(d, 'meta.json'), 'w'), indent=1)
        k += 1
    print('generated', k, 'mutants in', outdir)


def sh(cmd, cwd=None, env=None, timeout=2400):
    import signal
    p = subprocess.Popen(cmd, shell=True, cwd=cwd, env=env, stdout=subprocess.PIPE, stderr=subprocess.STDOUT, text=True, start_new_session=True)
    try:
        out, _ = p.communicate(timeout=timeout)
        return p.returncode, out
    except subprocess.TimeoutExpired:
        return 124, 'TIMEOUT'
    finally:
        try:
            os.killpg(p.pid, signal.SIGKILL)      # the whole group: a mutant may loop forever in a grandchild
        except OSError:
            pass


def run_one(d):
    meta = json.load(open(os.path.join(d, 'meta.json')))
    if 'result' in meta:
        return
    verif = os.path.dirname(os.path.dirname(os.path.abspath(__file__)))
    tree = tempfile.mkdtemp(prefix='mut_')
    vcopy = tempfile.mkdtemp(prefix='mutverif_')
    res = {}
    try:
        sh('rsync -a --exclude .git /repo/ %s/' % tree)
        shutil.copy(os.path.join(d, meta['file']), os.path.join(tree, 'src', 'ssh_audit', meta['file']))
        rc, out = sh('/venv/bin/python -m pytest -q -p no:cacheprovider -x', cwd=tree, timeout=600, env=dict(os.environ, PYTHONPATH=os.path.join(tree, 'src')))
        if rc != 0:
            res = {'killed_by': 'tests'}
        else:
            sh('rsync -a --exclude .git --exclude seeded --exclude harmless --exclude mutants %s/ %s/' % (verif, vcopy))
            checks = TARGETS[meta['file']][1]
            res = {'killed_by': None, 'tried': [], 'undecided': []}
            for c in checks:
                t0 = time.time()
                rc, out = sh('./check %s --tier quick' % c, cwd=vcopy, env=dict(os.environ, PYVC_REPO=tree))
                res['tried'].append([c, rc, round(time.time() - t0)])
                if rc == 1:
                    vl = [l for l in out.splitlines() if l.startswith('VIOLATION')]
                    res['killed_by'] = c
                    res['violation'] = vl[0][:200] if vl else ''
                    break
                if rc == 2:
                    res['undecided'].append(c)
                if rc == 3:
                    res['crash'] = c
    finally:
        shutil.rmtree(tree, ignore_errors=True)
        shutil.rmtree(vcopy, ignore_errors=True)
    meta['result'] = res
    json.dump(meta, open(os.path.join(d, 'meta.json'), 'w'), indent=1)
    print(os.path.basename(d), meta['file'], meta['function'], meta['operator'], '->', res.get('killed_by') or ('UNDECIDED ' + ','.join(res.get('undecided', [])) if res.get('undecided') else 'SURVIVED'))
    sys.stdout.flush()


def run(outdir, jobs):
    import concurrent.futures
    ds = sorted(os.path.join(outdir, x) for x in os.listdir(outdir) if x.startswith('m'))
    with concurrent.futures.ThreadPoolExecutor(max_workers=jobs) as ex:
        list(ex.map(run_one, ds))


def report(outdir):
    rows = []
    for x in sorted(os.listdir(outdir)):
        p = os.path.join(outdir, x, 'meta.json')
        if os.path.exists(p):
            rows.append((x, json.load(open(p))))
    done = [(x, m) for x, m in rows if 'result' in m]
    by = {}
    for x, m in done:
        r = m['result']
        k = r['killed_by'] or ('undecided' if r.get('undecided') else 'survived')
        by[k] = by.get(k, 0) + 1
    print('mutants', len(rows), 'evaluated', len(done), by)
    for x, m in done:
        r = m['result']
        if not r['killed_by']:
            print('%s %s %s:%s line %s %s  [%s]  %s' % ('UNDEC' if r.get('undecided') else 'SURV ', x, m['file'], m['function'], m['line'], m['operator'], m['original'][:70].replace('\n', ' '), ','.join(r.get('undecided', []))))


if __name__ == '__main__':
    cmd, outdir = sys.argv[1], sys.argv[2]
    if cmd == 'generate':
        lim = int(sys.argv[sys.argv.index('--limit') + 1]) if '--limit' in sys.argv else 200
        seed = int(sys.argv[sys.argv.index('--seed') + 1]) if '--seed' in sys.argv else 1
        if '--gen2' in sys.argv:
            OPS.add('gen2')
        generate(outdir, lim, seed)
    elif cmd == 'run':
        jobs = int(sys.argv[sys.argv.index('--jobs') + 1]) if '--jobs' in sys.argv else 4
        run(outdir, jobs)
    elif cmd == 'report':
        report(outdir)


def export(outdir, dest, triage_path=None):
    """write one JSON file with every mutant (as a unified diff against the ast-normalised source), its result and the triage note"""
    import difflib
    triage = json.load(open(triage_path)) if triage_path and os.path.exists(triage_path) else {}
    rows = []
    for x in sorted(os.listdir(outdir)):
        p = os.path.join(outdir, x, 'meta.json')
        if not os.path.exists(p):
            continue
        m = json.load(open(p))
        if 'result' not in m:
            continue
        a = ast.unparse(ast.parse(open(os.path.join(SRC, m['file'])).read())).splitlines()
        b = open(os.path.join(outdir, x, m['file'])).read().splitlines()
        diff = [l for l in difflib.unified_diff(a, b, lineterm='', n=1) if not l.startswith(('---', '+++'))]
        r = m['result']
        if r.get('killed_by') != 'tests' and 'tests_pass' not in r:
            tree = tempfile.mkdtemp(prefix='mutt_')
            try:
                sh('rsync -a --exclude .git /repo/ %s/' % tree)
                shutil.copy(os.path.join(outdir, x, m['file']), os.path.join(tree, 'src', 'ssh_audit', m['file']))
                rc, out = sh('/venv/bin/python -m pytest -q -p no:cacheprovider -x', cwd=tree, timeout=600, env=dict(os.environ, PYTHONPATH=os.path.join(tree, 'src')))
                r['tests_pass'] = (rc == 0)
            finally:
                shutil.rmtree(tree, ignore_errors=True)
            json.dump(m, open(p, 'w'), indent=1)
        key = '%s:%s:%s:%s' % (m['file'], m['function'], m['operator'], m['original'][:60])
        rows.append({'id': x, 'file': m['file'], 'function': m['function'], 'operator': m['operator'], 'diff': diff[:12],
                     'killed_by': r.get('killed_by'), 'tests_pass': (False if r.get('killed_by') == 'tests' else r.get('tests_pass')),
                     'undecided': r.get('undecided', []), 'checks_tried': [t[0] for t in r.get('tried', [])], 'triage': triage.get(x) or triage.get(key)})
    json.dump(rows, open(dest, 'w'), indent=1)
    n = len(rows)
    t = sum(1 for r in rows if r['tests_pass'] is False)
    live = [r for r in rows if r['tests_pass'] is not False]
    k = sum(1 for r in live if r['killed_by'] not in (None, 'tests'))
    print('mutants %d; killed by the repository tests %d; pass the tests %d, of which killed by a check %d, survived %d' % (n, t, len(live), k, len(live) - k))
    by = {}
    for r in live:
        if r['killed_by']:
            by[r['killed_by']] = by.get(r['killed_by'], 0) + 1
    print(sorted(by.items()))


if __name__ == '__main__' and sys.argv[1] == 'export':
    export(sys.argv[2], sys.argv[3], sys.argv[4] if len(sys.argv) > 4 else None)
