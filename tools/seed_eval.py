#!/usr/bin/env python3
"""Evaluate a seeded breaking change: confirm it (tests pass with it, demo fails with it / passes without it) in a scratch
worktree, then apply it to /repo, run the property's quick check, and undo it.  usage: seed_eval.py <seeded dir> [--timeout s]"""
import json, os, subprocess, sys, tempfile, shutil, time

def sh(cmd, cwd=None, timeout=900, env=None):
    p = subprocess.run(cmd, shell=True, cwd=cwd, capture_output=True, text=True, timeout=timeout, env=env)
    return p.returncode, p.stdout + p.stderr

def main():
    d = os.path.abspath(sys.argv[1])
    meta = json.load(open(os.path.join(d, 'meta.json')))
    pid = meta['property']
    patch = os.path.join(d, 'patch.diff')
    demo = os.path.join(d, 'demo.py')
    wt = tempfile.mkdtemp(prefix='seedwt_')
    os.rmdir(wt)
    res = {}
    try:
        rc, out = sh('git -C /repo worktree add -q %s HEAD' % wt)
        env = dict(os.environ, PYTHONPATH=os.path.join(wt, 'src'))
        rc0, o0 = sh('/venv/bin/python %s' % demo, cwd=wt, env=env)
        res['demo_passes_without'] = (rc0 == 0)
        rc, out = sh('git apply %s' % patch, cwd=wt)
        res['applies'] = (rc == 0)
        rc1, o1 = sh('/venv/bin/python %s' % demo, cwd=wt, env=env)
        res['demo_fails_with'] = (rc1 != 0)
        rc, out = sh('/venv/bin/python -m pytest -q -p no:cacheprovider -x', cwd=wt)
        res['tests_pass_with'] = (rc == 0)
        res['tests_tail'] = out.strip().splitlines()[-1] if out.strip() else ''
    finally:
        sh('git -C /repo worktree remove --force %s' % wt)
        shutil.rmtree(wt, ignore_errors=True)
    # run the check against /repo with the change applied
    rc, out = sh('git -C /repo status --porcelain')
    if out.strip():
        print('REFUSING: /repo has uncommitted changes'); sys.exit(2)
    try:
        rc, out = sh('git -C /repo apply %s' % patch)
        t0 = time.time()
        rc, out = sh('./check %s --tier quick' % pid, cwd='/verif', timeout=int(os.environ.get('SEED_TIMEOUT', '1500')))
        res['check_exit'] = rc
        res['check_wall_s'] = round(time.time() - t0, 1)
        res['violation_lines'] = [l for l in out.splitlines() if l.startswith('VIOLATION')][:6]
        res['undecided_lines'] = [l[:200] for l in out.splitlines() if l.startswith('UNDECIDED')][:6]
        res['detected'] = (rc == 1 and bool(res['violation_lines']))
        res['summary_line'] = out.strip().splitlines()[-1] if out.strip() else ''
    finally:
        sh('git -C /repo checkout -- .')
    meta['evaluation'] = res
    json.dump(meta, open(os.path.join(d, 'meta.json'), 'w'), indent=1)
    print(json.dumps(res, indent=1))

if __name__ == '__main__':
    main()
