#!/usr/bin/env python3
"""Evaluate a seeded breaking change.

  seed_eval.py <seeded dir> [--inplace]

1. confirm the change in a scratch worktree of /repo: the demo passes without it, the patch applies, the demo fails with
   it, the repository's test suite still passes with it;
2. run the property's quick check on the changed tree and record whether it reports a violation.
   default: the check runs from a scratch copy of /verif against the scratch worktree (PYVC_REPO), so several evaluations
   can run in parallel and /verif/evidence is not overwritten with results from a broken tree;
   --inplace: `git -C /repo apply`, ./check in /verif, `git -C /repo checkout -- .` (refuses if /repo is dirty).
The result is written into <seeded dir>/meta.json under "evaluation"."""
import json, os, subprocess, sys, tempfile, shutil, time


def sh(cmd, cwd=None, timeout=900, env=None):
    try:
        p = subprocess.run(cmd, shell=True, cwd=cwd, capture_output=True, text=True, timeout=timeout, env=env)
        return p.returncode, p.stdout + p.stderr
    except subprocess.TimeoutExpired as e:
        return 124, 'TIMEOUT ' + str(e)


def main():
    d = os.path.abspath(sys.argv[1])
    inplace = '--inplace' in sys.argv
    pids = [a.split('=')[1] for a in sys.argv if a.startswith('--check=')]
    meta = json.load(open(os.path.join(d, 'meta.json')))
    pid = meta['property']
    patch = os.path.join(d, 'patch.diff')
    demo = os.path.join(d, 'demo.py')
    wt = tempfile.mkdtemp(prefix='seedwt_')
    os.rmdir(wt)
    vcopy = tempfile.mkdtemp(prefix='seedverif_')
    res = {}
    verif = os.path.dirname(os.path.dirname(os.path.abspath(__file__)))
    try:
        rc, out = sh('git -C /repo worktree add -q --detach %s HEAD' % wt)
        env = dict(os.environ, PYTHONPATH=os.path.join(wt, 'src'))
        rc0, o0 = sh('/venv/bin/python %s' % demo, cwd=wt, env=env)
        res['demo_passes_without'] = (rc0 == 0)
        rc, out = sh('git apply %s' % patch, cwd=wt)
        if rc != 0:
            # a later fix: commit may have moved or touched a context line: retry with some fuzz
            rc, out = sh('patch -p1 -F3 -s --no-backup-if-mismatch < %s' % patch, cwd=wt)
        res['applies'] = (rc == 0)
        rc1, o1 = sh('/venv/bin/python %s' % demo, cwd=wt, env=env)
        res['demo_fails_with'] = (rc1 != 0)
        rc, out = sh('/venv/bin/python -m pytest -q -p no:cacheprovider -x', cwd=wt, env=env)
        res['tests_pass_with'] = (rc == 0)
        res['tests_tail'] = out.strip().splitlines()[-1] if out.strip() else ''
        res['checks'] = {}
        for p in ([pid] + pids):
            r = {}
            t0 = time.time()
            if inplace:
                rc, out = sh('git -C /repo status --porcelain')
                if out.strip():
                    print('REFUSING: /repo has uncommitted changes'); sys.exit(2)
                try:
                    sh('git -C /repo apply %s' % patch)
                    rc, out = sh('./check %s --tier quick' % p, cwd=verif, timeout=int(os.environ.get('SEED_TIMEOUT', '1800')))
                finally:
                    sh('git -C /repo checkout -- .')
            else:
                sh('rsync -a --exclude .git --exclude seeded %s/ %s/' % (verif, vcopy))
                rc, out = sh('./check %s --tier quick' % p, cwd=vcopy, timeout=int(os.environ.get('SEED_TIMEOUT', '1800')),
                             env=dict(os.environ, PYVC_REPO=wt))
            r['check_exit'] = rc
            r['check_wall_s'] = round(time.time() - t0, 1)
            vl = [l for l in out.splitlines() if l.startswith('VIOLATION')]
            r['violation_count'] = len(vl)
            r['violation_lines'] = sorted(set(vl))[:6]
            r['undecided_lines'] = [l[:200] for l in out.splitlines() if l.startswith('UNDECIDED')][:6]
            r['detected'] = (rc == 1 and bool(vl))
            r['summary_line'] = out.strip().splitlines()[-1][:300] if out.strip() else ''
            res['checks'][p] = r
        res['detected'] = any(r['detected'] for r in res['checks'].values())
        res['detected_by'] = [p for p, r in res['checks'].items() if r['detected']]
        res['mode'] = 'inplace' if inplace else 'scratch worktree + scratch copy of /verif (PYVC_REPO)'
    finally:
        sh('git -C /repo worktree remove --force %s' % wt)
        shutil.rmtree(wt, ignore_errors=True)
        shutil.rmtree(vcopy, ignore_errors=True)
    meta['evaluation'] = res
    json.dump(meta, open(os.path.join(d, 'meta.json'), 'w'), indent=1)
    print(os.path.basename(d), json.dumps({k: v for k, v in res.items() if k != 'checks'}), {p: (r['check_exit'], r['summary_line']) for p, r in res['checks'].items()})


if __name__ == '__main__':
    main()
