"""C02 -- exit status reflects the worst finding; incomplete audits never look clean."""
import os
import sys
from pyvc.driver import main, native_bounded, VERIF
from contracts import c02_status, c02_native


def custom_native(ip, runner):
    code = c02_native.NATIVE % {'native': os.path.join(VERIF, 'native')}
    return [native_bounded(runner, 'status-end-to-end', 'a key-exchange-init message cut short gives no algorithm report and status 1 (text and JSON); a complete one a report whose status is 0 only without warnings/failures; a multi-target run exits with the highest-ranked target status in every order',
                           code, '2 peers x every 5th payload prefix (all of the last 12) x {text, JSON} against the fake server; all ordered pairs and triples of {good, warn, fail, refused} targets x {text, JSON}, one worker thread',
                           'ssh_audit:main (end to end, fake network)')]


def build(chk, ip, runner):
    chk.design_ref = 'DESIGN.md section 5 C02'
    chk.assumptions = ['OutputBuffer printing methods and the non-algorithm report sections only print (frame stubs)', 'socket layer, probes and message parsers abstract: any result, may raise', 'compression list fixed to a concrete two-element list in the output() unit (irrelevant to the status)']
    chk.not_decided = ['the ssh-audit.py wrapper (module-level code) and main()\'s fold are covered by the bounded stand-in only', 'whether a [fail] tag is *printed* for every failure note (empty note texts print no tag; C17 G1 shows the table has none)']
    chk.units = c02_status.units()
    chk.customs = [custom_native]
    chk.stubs = c02_status.stubs()
    chk.lemmas = ['fold_is_worst', 'rep_s_len']
    ip.models['json.dumps'] = c02_status.m_json_dumps
    runner.call_site_overrides = {'ssh_audit:output_algorithm': c02_status.oa_contract()}


if __name__ == '__main__':
    sys.exit(main('C02', build, sys.argv[1:]))
