"""C02 -- exit status reflects the worst finding; incomplete audits never look clean."""
import sys
from pyvc.driver import main
from contracts import c02_status


def build(chk, ip, runner):
    chk.design_ref = 'DESIGN.md section 5 C02'
    chk.assumptions = ['OutputBuffer printing methods and the non-algorithm report sections only print (frame stubs)', 'socket layer, probes and message parsers abstract: any result, may raise', 'compression list fixed to a concrete two-element list in the output() unit (irrelevant to the status)']
    chk.not_decided = ['main() / ssh-audit.py wrapper propagation of the status', 'whether a [fail] tag is *printed* for every failure note (empty note texts print no tag; C17 G1 shows the table has none)']
    chk.units = c02_status.units()
    chk.stubs = c02_status.stubs()
    chk.lemmas = ['fold_is_worst', 'rep_s_len']
    ip.models['json.dumps'] = c02_status.m_json_dumps
    runner.call_site_overrides = {'ssh_audit:output_algorithm': c02_status.oa_contract()}


if __name__ == '__main__':
    sys.exit(main('C02', build, sys.argv[1:]))
