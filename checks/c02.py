"""C02 -- exit status reflects the worst finding; incomplete audits never look clean."""
import sys
from pyvc.driver import main
from contracts import c02_status


def build(chk, ip, runner):
    chk.design_ref = 'DESIGN.md section 5 C02'
    chk.units = c02_status.units()
    chk.stubs = c02_status.stubs()
    chk.lemmas = []


if __name__ == '__main__':
    sys.exit(main('C02', build, sys.argv[1:]))
