"""C18 -- the tool connects to, and reports on, exactly the target that was named."""
import os
import sys
from pyvc.driver import main, native_bounded, VERIF
from contracts import c18_target


def custom_native(ip, runner):
    return [native_bounded(runner, 'process_commandline', '(aconf.host, aconf.port) and the target list equal the documented reading of the spelling; ports outside 1..65535 rejected',
                           c18_target.NATIVE, 'hostnames/IPv4/IPv6 literals x ports {1,22,2222,65535} x spellings {plain, host:port, [v6], [v6]:port, -p} on the command line; 10 targets files (LF and CRLF, blank and whitespace-only lines, -p default)',
                           'ssh_audit:process_commandline')]


def custom_resolve(ip, runner):
    return [native_bounded(runner, 'SSH_Socket._resolve', 'only addresses of the requested families are yielded, in the requested family order (stable within a family), stream sockets only',
                           c18_target.NATIVE_RESOLVE, '5 family preferences x 7 synthetic resolver answers (v4-first, v6-first, interleaved, with a datagram entry, single family, empty); IPv4 and IPv6 literals x 5 preferences against a resolver that rejects a literal of the other family',
                           'SSH_Socket._resolve')]


def custom_main(ip, runner):
    code = c18_target.NATIVE_MAIN % {'native': os.path.join(VERIF, 'native')}
    return [native_bounded(runner, 'targets-file-ports', 'every line of a targets file is contacted on its own port or else the -p default (22 without -p), and its report is labelled host, host:port or [v6]:port accordingly',
                           code, '6 lines (hostname, host:port, IPv4, bare IPv6, [v6]:port) x {no -p, -p 2222} x {1, 3} threads through the real main() over the fake network (connect events and target labels)',
                           'ssh_audit:main (targets file, fake network)')]


def custom_crosscheck(ip, runner):
    n, err = c18_target.crosscheck_regex()
    if err:
        return [{'undecided': ('regex-model-crosscheck', 'the assumed regex outcome disagrees with CPython: ' + err)}]
    return [{'samples': [{'crosscheck': 'bracket regex model vs CPython re', 'strings': n, 'disagreements': 0}]}]


def build(chk, ip, runner):
    chk.design_ref = 'DESIGN.md section 5 C18'
    ip.models['object.__setattr__'] = c18_target.m_object_setattr
    chk.units = c18_target.units()
    chk.customs = [custom_native, custom_crosscheck, custom_resolve, custom_main]
    chk.level = 'other'
    chk.explanation = ('parse_host_and_port proved against the documented reading of each spelling (six structured input shapes, '
                       'unbounded host and port strings); port validation proved; argparse-driven command-line and targets-file '
                       'handling only by a bounded run-time contract check')
    chk.assumptions = ["re.match capture model for r'^\\[([^\\]]+)\\](?::(\\d+))?$' (unambiguous: group 1 cannot contain ']')",
                       'argparse, socket.getaddrinfo are external (resolver answers arbitrary)']
    chk.not_decided = ['address-family filtering and ordering in SSH_Socket._resolve is only bounded (generator function: outside the modelled subset)',
                       'the label printed for the target (covered under C01/C15 rendering, not here)']


if __name__ == '__main__':
    sys.exit(main('C18', build, sys.argv[1:]))
