"""C07 -- each target's result is independent of the other targets in the run."""
import os
import sys
from pyvc.driver import main, native_bounded, VERIF
from contracts import multi_native, c07_worker


def custom_native(ip, runner):
    code = multi_native.C07 % {'native': os.path.join(VERIF, 'native')}
    return [native_bounded(runner, 'target-independence', 'in a multi-target run each target\'s report / JSON entry / policy verdict is identical to its single-target result, whatever the other target is, in either order, with 1 or more worker threads',
                           code, 'all 25 ordered pairs of 5 archetypes (one per channel through which a scan edits shared rating state) x {1, 2} threads x {text, JSON}; 3 policy target lists x {1, 3} threads; fake network',
                           'ssh_audit:target_worker_thread')]


def build(chk, ip, runner):
    chk.design_ref = 'DESIGN.md section 5 C07'
    chk.units = c07_worker.units()
    chk.stubs = c07_worker.stubs()
    chk.customs = [custom_native]
    chk.level = 'other'
    chk.explanation = 'bounded run-time contract check of the real main() over a fake network; interleavings are whatever the thread pool produces, not enumerated'


if __name__ == '__main__':
    sys.exit(main('C07', build, sys.argv[1:]))
