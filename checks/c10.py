"""C10 -- wire encoding and decoding are exact inverses and packets are well-framed."""
import sys
from pyvc.driver import main
from contracts import c10_codec


def custom_native(ip, runner):
    from pyvc.driver import native_bounded
    return [native_bounded(runner, 'codec-roundtrips', 'mpint encodings equal RFC 4251 section 5 / SSH-1 encodings and decode back; KEXINIT and SSH-1 public-key messages round-trip field by field and re-encode to the same bytes',
                           c10_codec.NATIVE_ROUNDTRIP, '~1900 integers of both signs (dense around 0 and +-2^k, k up to 8192, boundary word patterns, 300 random up to 600 bits); 30 KEXINITs with ten pairwise different name-lists; name-lists with empty names; packets of 1..20000 bytes through send_packet -> independent RFC 4253 reader -> read_packet over a byte pipe delivering 1 / 7 / 512 / 2048 / 4095-byte segments; SSH-1 packets with non-zero padding and good/bad CRC; 3 SSH-1 messages',
                           'WriteBuf._create_mpint'),
            native_bounded(runner, 'ssh1-crc32', 'table entry i == bitwise CRC of byte i (all 256); calc(v) == bitwise reflected CRC-32 (poly 0xEDB88320, init 0, no final xor)',
                           c10_codec.NATIVE_CRC, 'all 256 table entries; all 1-byte inputs, 1024 2-byte inputs, 200 random inputs up to 199 bytes',
                           'SSH1_CRC32.calc')]


def build(chk, ip, runner):
    import os
    ip.repo.add_module('rt_codec', os.path.join(os.path.dirname(os.path.dirname(os.path.abspath(__file__))), 'contracts', 'compose', 'rt_codec.py'))
    chk.design_ref = 'DESIGN.md section 5 C10'
    chk.lemmas = list(c10_codec.LEMMAS)
    chk.units = c10_codec.units()
    chk.stubs = c10_codec.stubs()
    chk.customs = [custom_native]


if __name__ == '__main__':
    sys.exit(main('C10', build, sys.argv[1:]))
