"""C10 -- wire encoding and decoding are exact inverses and packets are well-framed."""
import sys
from pyvc.driver import main
from contracts import c10_codec


def build(chk, ip, runner):
    import os
    ip.repo.add_module('rt_codec', os.path.join(os.path.dirname(os.path.dirname(os.path.abspath(__file__))), 'contracts', 'compose', 'rt_codec.py'))
    chk.design_ref = 'DESIGN.md section 5 C10'
    chk.lemmas = list(c10_codec.LEMMAS)
    chk.units = c10_codec.units()
    chk.stubs = c10_codec.stubs()


if __name__ == '__main__':
    sys.exit(main('C10', build, sys.argv[1:]))
