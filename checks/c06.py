"""C06 -- policy verdicts follow the documented matching rules."""
import os
import sys
from pyvc.driver import main, native_bounded, VERIF
from contracts import policy_native, c06_policy


def custom_native(ip, runner):
    code = policy_native.C06 % {'native': os.path.join(VERIF, 'native')}
    return [native_bounded(runner, 'policy-evaluate', 'passed iff every specified field is satisfied per the documented rules (exact / subset with mandatory strict marker / larger keys / optional host keys / CA type before size); passed iff no errors; one error per violated field naming it; monotone under shrinking lists (subset) and growing keys (larger)',
                           code, 'all policy lists up to length 2 (plus two of length 3) x all peer lists up to length 3 over a 3-name universe x both subset settings for kex, ciphers+MACs and host keys with 4 optional lists; 5x5 boundary sizes x larger flag x 4 CA type pairs x 5 CA size pairs; banner/compression/no-kex; 3000 random monotonicity probes',
                           'Policy.evaluate (run-time, enumerated universe)')]


def build(chk, ip, runner):
    chk.design_ref = 'DESIGN.md section 5 C06'
    chk.units = c06_policy.units()
    chk.stubs = c06_policy.stubs()
    chk.lemmas = ['all_in_at']
    chk.customs = [custom_native]
    chk.level = 'other'
    chk.explanation = 'bounded run-time contract check of the real Policy.evaluate against the documented rules, enumerating the small universe of the property\'s quantifier'


if __name__ == '__main__':
    sys.exit(main('C06', build, sys.argv[1:]))
