"""C13 -- recommendations are consistent with the ratings shown."""
import os
import sys
from pyvc.driver import main, native_bounded, VERIF
from contracts import c13_recs, c13_levels


def custom_native(ip, runner):
    code = c13_recs.NATIVE % {'native': os.path.join(VERIF, 'native')}
    return [native_bounded(runner, 'recommendations', 'removal/change == advertised algorithms rated fail/warn in the same report that the identified version knows; additions are clean, not advertised, not cert/sk/pseudo, available in the version; nothing both ways; no additions for unrecognised software',
                           code, '3 peers (modern, legacy with gss-*, unknown names) x banners of OpenSSH/Dropbear/libssh at every first-appeared version in the database and its neighbours, TinySSH, an unrecognised product',
                           'Algorithms.get_recommendations (run-time, enumerated versions)')]


def build(chk, ip, runner):
    chk.design_ref = 'DESIGN.md section 5 C13'
    chk.units = c13_levels.units() + c13_levels.rec_units()
    chk.customs = [custom_native]
    chk.level = 'other'
    chk.explanation = 'bounded run-time contract check of the real recommendation pass against the ratings parsed from the same report'


if __name__ == '__main__':
    sys.exit(main('C13', build, sys.argv[1:]))
