"""C04 -- Terrapin (CVE-2023-48795) exposure is flagged exactly per the published rule."""
import os
import sys
from pyvc.driver import main, native_bounded, VERIF
from contracts import c04_terrapin


def custom_native(ip, runner):
    code = c04_terrapin.NATIVE % {'native': os.path.join(VERIF, 'native')}
    return [native_bounded(runner, 'post_process_findings', 'the Terrapin warning is carried by exactly the ciphers/MACs the published rule names; advisory note and addition-suppression exact',
                           code, 'role {server, client} x marker {own, other, none} x ChaCha {none, db name, unknown name} x CBC {none, 4 db shapes, unknown name} x ETM {none, 2 db sets, unknown name}: 432 peers rendered through output()',
                           'ssh_audit:post_process_findings (run-time, enumerated)')]


def build(chk, ip, runner):
    chk.design_ref = 'DESIGN.md section 5 C04'
    chk.units = c04_terrapin.helper_units() + c04_terrapin.add_warning_units() + c04_terrapin.body_unit_list({'chacha': 2, 'cbc': 3, 'etm': 4})
    chk.stubs = c04_terrapin.body_stubs()
    chk.customs = [custom_native]
    chk.level = 'other'
    chk.explanation = ('selectors and table editor proved (unbounded lists / entries of 1..4 cells); the combining logic of '
                       'post_process_findings by a bounded run-time contract check that enumerates the property\'s quantifier')
    chk.assumptions = ['rating table modelled as an arbitrary table: membership bit and entry unconstrained']


if __name__ == '__main__':
    sys.exit(main('C04', build, sys.argv[1:]))
