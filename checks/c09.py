"""C09 -- no peer can crash, hang or fool the auditor."""
import os
import sys
from pyvc.driver import main, native_bounded, VERIF
from contracts import probe_native, c11_hostkey, c09_parsers, c12_gex


def custom_native(ip, runner):
    code = probe_native.C09 % {'native': os.path.join(VERIF, 'native'), 'tier': runner.tier}
    return [native_bounded(runner, 'fault-matrix', 'the audit terminates (bounded number of reads) through status 0/1/2/3 and no uncaught exception; a fault confined to a probe connection leaves the complete algorithm report (status 0/2/3); a malformed initial handshake gives no algorithm report and status 1',
                           code, '(connection, message, fault) triples on a scripted server (plain RSA+Ed25519 keys, and an RSA certificate): truncation at every byte offset of banner / KEXINIT / KEXDH_REPLY / GEX_GROUP / GEX_REPLY on the first connection carrying each (every 9th offset on further connections), early close, stall, garbage, each length field (nested blob fields included) set to 0 / len-1 / len+1 / huge, wrong message types, 1 or 5 debug messages first, debug only, duplicated packet, 1-byte segmentation, extra pre-banner lines, empty payload, padding longer than the packet, degenerate GEX moduli (0..7), 40 seeded random byte mutations per stage; an SSH-1 server whose public key message is truncated at every offset / has a bad checksum / wrong type / is garbage; reads are instantaneous (no wall clock)',
                           'ssh_audit:audit (end to end, fake server)')]


def build(chk, ip, runner):
    chk.design_ref = 'DESIGN.md section 5 C09'
    # the length-prefixed field reader all blob parsers are built on: the only exception is struct.error, exactly when 4 length bytes are missing
    chk.units = [u for u in c11_hostkey.small_units() if u.contract.qual == 'KexDH.__get_bytes'] + c09_parsers.units() + c09_parsers.send_init_units() + c09_parsers.send_init_fixed_units() + c12_gex.reconnect_units() + c12_gex.send_init_units()
    chk.stubs = c09_parsers.stubs() + c09_parsers.callee_contracts() + [c for c in c12_gex.reconnect_stubs() if c.qual != 'traceback:format_exc'] + c12_gex.send_init_stubs()
    chk.lemmas = ['val_be_word']
    chk.customs = [custom_native]
    chk.level = 'other'
    chk.explanation = ('exception safety of the probe parsers is decided by a bounded fault-injection check of the real audit() against a scripted server; '
                       'the wall-clock clause has no counterpart (reads return at once); only the field reader is proved')
    chk.not_decided = ['"terminates within a bound proportional to the configured timeout times the number of connections": no notion of wall-clock time; '
                       'what is checked is a bound on the number of reads (20000) per audit']


if __name__ == '__main__':
    sys.exit(main('C09', build, sys.argv[1:]))
