"""C15 -- output options change presentation only, never findings or verdict."""
import os
import sys
from pyvc.driver import main, native_bounded, VERIF
from contracts import report_native, c15_output


def custom_native(ip, runner):
    code = report_native.C15 % {'native': os.path.join(VERIF, 'native')}
    return [native_bounded(runner, 'option-invariance', 'status and findings identical across plain/batch/verbose/colour/JSON; raising the minimum level only removes lines; JSON compact == indented; byte-identical under different hash seeds',
                           code, '10 peers (4 database slices, duplicates/blank/long names, legacy, gss, 3 seeded random; 37 in the thorough tier) x 5 text option sets x JSON compact/indented x levels {warn, fail} x {plain, batch, verbose}; 7 hash seeds',
                           'ssh_audit:output')]


def build(chk, ip, runner):
    chk.design_ref = 'DESIGN.md section 5 C15'
    chk.units = c15_output.units()
    chk.customs = [custom_native]
    chk.level = 'other'
    chk.explanation = ('the level filter OutputBuffer._print is proved to append exactly one line, or nothing when the level is below the minimum; '
                       'get_level (the ranks), the public wrappers good/warn/fail/info/head/sep/v/d (level each prints at; batch only removes headings and separators; '
                       'verbose/debug only add info lines, still subject to the level filter) and flush_section (section lines appended in order) and get_buffer (newline-join of buffer + pending section, both emptied) are proved against the same contract; '
                       'independence of status/findings from the options is the frame of C02\'s contracts (they do not mention the option fields) and is '
                       'additionally checked at run time over a bounded family')
    chk.assumptions = ['json library (well-formedness is checked at run time only)']


if __name__ == '__main__':
    sys.exit(main('C15', build, sys.argv[1:]))
