"""C08 -- one bad target never costs the others their results."""
import os
import sys
from pyvc.driver import main, native_bounded, VERIF
from contracts import multi_native, c07_worker


def custom_native(ip, runner):
    code = multi_native.C08 % {'native': os.path.join(VERIF, 'native')}
    return [native_bounded(runner, 'containment', 'every listed target yields exactly one result block whatever any other target does; the exit status is the highest-ranked status among the targets; with -j stdout is one JSON array with one element per target',
                           code, '11 failure archetypes (unresolvable, refused, silent, early close, close after banner, bad block size, truncated KEXINIT, short KEXINIT payload, garbage, wrong message type, not SSH) in each of 3 positions among 2 healthy targets x {1, 3} threads x {text, JSON}; fake network',
                           'ssh_audit:main')]


def build(chk, ip, runner):
    chk.design_ref = 'DESIGN.md section 5 C08'
    chk.units = c07_worker.units()
    chk.stubs = c07_worker.stubs()
    chk.customs = [custom_native]
    chk.level = 'other'
    chk.explanation = 'bounded run-time contract check of the real main() over a fake network'


if __name__ == '__main__':
    sys.exit(main('C08', build, sys.argv[1:]))
