"""C11 -- host-key sizes, CA details and fingerprints are measured and rated correctly."""
import os
import sys
from pyvc.driver import main, native_bounded, VERIF
from contracts import probe_native, c11_hostkey, c09_parsers


def custom_native(ip, runner):
    code = probe_native.C11 % {'native': os.path.join(VERIF, 'native'), 'tier': runner.tier}
    return [native_bounded(runner, 'hostkey-probe', 'reported size == bit length of the modulus in the presented blob; certificates report CA type and size; SHA-256/MD5 fingerprints of the blob (one for the RSA family, none for certificates); bands <2048 fail, <3072 warn, else no size note; text and JSON',
                           code, 'RSA moduli 512..16384 step 64 + step 16 within +-128 of 2048 and 3072 + 10 sizes that are not a multiple of 16; all 15 ordered subsets of the RSA family at 4 sizes; Ed25519, Ed448; RSA certificates (6 sizes) and Ed25519 certificates x CA in {RSA at 10 sizes, Ed25519, ECDSA P-256/384/521}; fake server',
                           'HostKeyTest.perform_test (end to end, fake server)')]


def build(chk, ip, runner):
    chk.design_ref = 'DESIGN.md section 5 C11'
    # the reply/blob parsers: what is recorded is read from the presented blob (RSA: the modulus n and its length field), nothing but parse errors escape
    parsers = [u for u in c09_parsers.units() if u.contract.qual in ('KexDH.__parse_ca_key', 'KexDH.__parse_reply')]
    chk.units = c11_hostkey.small_units() + parsers + c11_hostkey.perform_units()
    chk.stubs = c11_hostkey.perform_stubs() + c09_parsers.callee_contracts()
    chk.lemmas = ['val_be_word']
    chk.assumptions = ['perform_test unit: the socket (connect / get_banner / read_packet / close / is_connected) and the KexDH object (send_init, recv_reply, get_hostkey_size, get_ca_type, get_ca_size) are abstract: any result, KexDHException possible; the measured sizes are arbitrary non-negative integers',
                       'hashlib / base64 (fingerprints) are exercised by the bounded check only']
    chk.customs = [custom_native]
    chk.level = 'other'
    chk.explanation = ('size arithmetic (byte length adjustment, exact RSA bit length, length-prefixed field reader) proved; '
                       'blob walking, threshold edits, rendering and fingerprints by a bounded fake-server check')


if __name__ == '__main__':
    sys.exit(main('C11', build, sys.argv[1:]))
