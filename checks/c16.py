"""C16 -- identification strings are recognised, decomposed and sanitised correctly."""
import os
import sys
from pyvc.driver import main, native_bounded, VERIF
from contracts import c16_banner


def custom_regex_inclusion(ip, runner):
    """every line of the statement's grammar is accepted by the banner pattern of the CURRENT source:
    L(grammar) is a subset of L(RX_BANNER), decided by the solver on the translated regular expressions"""
    import subprocess, json, z3
    from pyvc.rx import to_z3
    from pyvc.interp import Obligation
    from pyvc.solve import discharge
    from pyvc.values import Unsupported
    env = dict(os.environ, PYTHONPATH=os.path.join(runner.repo.root, 'src'))
    p = subprocess.run(['/venv/bin/python', '-c', 'from ssh_audit.banner import Banner; import json; print(json.dumps([Banner.RX_BANNER.pattern, Banner.RX_PROTOCOL.pattern]))'],
                       capture_output=True, text=True, env=env)
    try:
        pat, pat2 = json.loads(p.stdout)
        R = to_z3(pat)
    except (Unsupported, ValueError) as e:
        return [{'undecided': ('regex-inclusion', 'cannot translate the banner pattern: %s' % e)}]
    s = z3.String('line')
    G = c16_banner.grammar()
    o = Obligation('Banner.RX_BANNER#accepts-grammar', 'lemma', [z3.InRe(s, G)], z3.InRe(s, R), 'Banner.parse', clause='L(SSH-<major>.<minor>-<software>[ <comments>]) is a subset of L(%s)' % pat, top=True)
    o.extra['portfolio'] = ['z3-new', 'z3', 'cvc5']
    # canary: a deliberately wrong grammar must be refuted, or the inclusion query is vacuous
    G_bad = z3.Concat(z3.Re(z3.StringVal('SSH-')), z3.Star(z3.Range(z3.StringVal('!'), z3.StringVal('~'))))
    c = Obligation('Banner.RX_BANNER#canary', 'lemma', [z3.InRe(s, G_bad)], z3.InRe(s, R), 'Banner.parse', clause='canary (must be refuted)')
    c.extra['portfolio'] = ['z3-new', 'z3', 'cvc5']
    discharge([o, c], None, None, tier=runner.tier, seed=runner.seed, timeout=20)
    out = {'obligations': 1, 'discharged': 1 if o.result['verdict'] == 'unsat' else 0, 'by_backend': {'z3-new': 1},
           'samples': [{'obligation': o.name, 'clause': o.clause, 'verdict': o.result['verdict'], 'attempts': o.result['attempts']},
                       {'obligation': c.name, 'clause': c.clause, 'verdict': c.result['verdict']}]}
    if c.result['verdict'] != 'sat':
        out['undecided'] = ('Banner.RX_BANNER#canary', 'the must-fail inclusion query was not refuted (%s): the inclusion check would be vacuous' % c.result['verdict'])
    if o.result['verdict'] == 'sat':
        from pyvc.driver import Violation
        from pyvc.solve import parse_model
        w = parse_model(o.result['model'] or '').get('line')
        rp = runner.write_replay(o.name, o.clause, 'custom', {'line': w} if w is not None else None,
                                 {'imports': 'from ssh_audit.banner import Banner', 'call': 'Banner.parse(line)'}, (o.result['model'] or '')[:2000],
                                 extra={'clause': 'result is not None'})
        rep = False
        if w is not None:
            from pyvc.driver import native_replay, VERIF as V
            rep = bool(native_replay(os.path.join(V, rp)).get('reproduced'))
        out['violation'] = Violation(o.name, o.clause, 'Banner.parse', inputs={'line': w}, replay=rp, reproduced=rep, kind='custom')
    elif o.result['verdict'] != 'unsat':
        out['undecided'] = (o.name, 'solvers: %s' % o.result['attempts'])
    return [out]


def custom_native(ip, runner):
    code = c16_banner.NATIVE % {'native': os.path.join(VERIF, 'native')}
    return [native_bounded(runner, 'banner-decomposition', 'protocol, software and comments equal the parts of the line; render/parse round trip; non-printable characters replaced and flagged; header lines separated from the banner under any segmentation; product and version extracted',
                           code, '4 protocols x 8 software tokens x 6 comments x 2 separators; 5 non-ASCII injections; 3 header prefixes x 2 line endings x 3 segmentations through SSH_Socket.get_banner; 6 product families x 5 versions',
                           'Banner.parse')]


def build(chk, ip, runner):
    chk.design_ref = 'DESIGN.md section 5 C16'
    chk.units = c16_banner.units()
    chk.lemmas = ['sanitize_len', 'all_printable_at']
    chk.level = 'other'
    chk.customs = [custom_regex_inclusion, custom_native]
    chk.explanation = ('printable-ASCII test and sanitiser proved against recursive specifications (unbounded strings); acceptance of every grammar line proved as a regular-language inclusion on the translated pattern of the current source; '
                       'capture-group values, round trip, header separation and product recognition by a bounded run-time contract check')
    chk.assumptions = ['\\d in the banner pattern taken as [0-9] (lines are sanitised to printable ASCII before matching)']


if __name__ == '__main__':
    sys.exit(main('C16', build, sys.argv[1:]))
