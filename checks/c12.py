"""C12 -- group-exchange modulus size is measured and rated correctly."""
import os
import sys
from pyvc.driver import main, native_bounded, VERIF
from contracts import probe_native, c12_gex


def custom_native(ip, runner):
    code = probe_native.C12 % {'native': os.path.join(VERIF, 'native'), 'tier': runner.tier}
    return [native_bounded(runner, 'gex-modulus', 'reported modulus == smallest modulus handed out over the fixed probe sequence (OpenSSH at 2048: the follow-up answer, with the note); rating bands <2048 fail, <3072 warn, else none; text and JSON',
                           code, 'moduli policies = subsets of {512..8192} (9 sizes) x {strict, round-up, OpenSSH-fallback} x {sha1, sha256} x {OpenSSH, Dropbear banner}: quick = every subset x style once + all combinations for subsets of size <= 2; thorough = all 6144',
                           'GEXTest.run (end to end, fake server)')]


def build(chk, ip, runner):
    chk.design_ref = 'DESIGN.md section 5 C12'
    chk.units = c12_gex.run_units() + c12_gex.send_init_units()
    chk.stubs = c12_gex.stubs() + c12_gex.send_init_stubs()
    chk.assumptions = ['GEXTest.run unit: the server is the contract of _send_init (any answer -1 or >= 1 per probe); the OutputBuffer, the socket and SSH2_Kex.set_dh_modulus_size are abstract recorders',
                       '_send_init unit: reconnect / send_init_gex / recv_reply / get_dh_modulus_size are abstract (any result >= 1, KexDHException possible)']
    chk.customs = [custom_native]
    chk.level = 'other'
    chk.explanation = ('GEXTest.run verified against an arbitrary server (the contract of _send_init returns unconstrained answers); '
                       'wire level (send_init_gex, recv_reply, bit length) and the report rendering by a bounded fake-server check')


if __name__ == '__main__':
    sys.exit(main('C12', build, sys.argv[1:]))
