"""C01 -- the report lists exactly the algorithms the peer advertised."""
import os
import sys
from pyvc.driver import main, native_bounded, VERIF
from contracts import report_native, c10_codec, c01_names


def custom_native(ip, runner):
    code = report_native.C01 % {'native': os.path.join(VERIF, 'native')}
    return [native_bounded(runner, 'report-names', 'per category the text and JSON reports show exactly the non-blank advertised names, once per occurrence, in order; banner and compression as sent; SSH-1 masks decoded to names',
                           code, 'peers covering every database name (gss-* instantiated), repeated unknown names, differing client/server direction lists, 12 seeded random peers (120 in the thorough tier), unknown/duplicate/blank/300-char names, single and empty lists x {server, client} x {plain, batch, verbose, JSON}; 14 SSH-1 mask pairs',
                           'ssh_audit:output')]


def build(chk, ip, runner):
    chk.design_ref = 'DESIGN.md section 5 C01'
    import os as _os
    # the wire-to-field mapping is a deductive result: KEXINIT parse stores the ten name-lists in wire order (proved in C10's units)
    chk.units = [u for u in c10_codec.units() if u.contract.qual in ('SSH2_Kex.parse', 'ReadBuf.read_list', 'ReadBuf.read_int', 'ReadBuf.read', 'ReadBuf.read_bool', 'ReadBuf.read_byte')]
    chk.units += c01_names.units()
    chk.lemmas = ['val_be_word', 'concat_init']
    chk.stubs = c10_codec.stubs()
    chk.customs = [custom_native]
    chk.level = 'other'
    chk.explanation = ('KEXINIT parsing proved to store the ten name-lists in wire order in the fields the renderers read; '
                       'the renderers themselves (output / build_struct) by a bounded run-time contract check')


if __name__ == '__main__':
    sys.exit(main('C01', build, sys.argv[1:]))
