"""C14 -- software versions are ordered numerically, component by component."""
import os
import sys
from pyvc.driver import main, native_bounded, VERIF
from contracts import c14_version


def custom_crosscheck(ip, runner):
    n, err = c14_version.crosscheck_regex()
    if err:
        return [{'undecided': ('regex-model-crosscheck', 'the assumed regex decomposition disagrees with CPython: ' + err)}]
    return [{'samples': [{'crosscheck': 'regex decomposition model vs CPython re', 'strings': n, 'disagreements': 0}]}]


def custom_vt_bounded(ip, runner):
    from pyvc.driver import native_bounded
    return [native_bounded(runner, 'Software._version_tuple', 'result == tuple(int(c) for c in components) for a dotted-decimal string, None otherwise',
                           c14_version.VT_BOUNDED, 'all dotted-decimal strings with 1..4 components drawn from {0..12, 99, 100, 101, year-like, zero-padded}; 11 malformed strings',
                           'Software._version_tuple')]


def custom_version_filter(ip, runner):
    """the statement's last clause: algorithms are marked available / not yet available exactly according to the numeric order of the banner version
    against the first-appeared versions of the database -- observed at the recommendation pass (the stand-in is shared with C13)"""
    from contracts import c13_recs
    code = c13_recs.NATIVE % {'native': os.path.join(VERIF, 'native')}
    return [native_bounded(runner, 'version-filter', 'an algorithm is treated as available in the identified version iff version >= its first-appeared version (numeric, component-wise): removals name only algorithms the version knows, additions only algorithms it already has',
                           code, 'banners of OpenSSH/Dropbear/libssh at every first-appeared version in the database, its predecessor and successor, plus 10.0 / 9.9 / 0.10.6 / 0.7.0',
                           'Algorithms.get_recommendations (version filter)')]


def custom_compat(ip, runner):
    code = c14_version.NATIVE_COMPAT % {'native': os.path.join(VERIF, 'native')}
    return [native_bounded(runner, 'compatibility-range', 'the compatibility range starts at the numerically latest first-appeared version among the advertised algorithms; the first-appeared versions of the current tables are ordered the same as strings and as numbers (Timeframe compares them as strings)',
                           code, 'every pair of first-appeared versions per product in the rating tables (ground); 120 seeded pairs of algorithms with a single first-appeared version, audited as OpenSSH 9.9',
                           'Timeframe._update / output_compatibility')]


def custom_cmp_bounded(ip, runner):
    from pyvc.driver import native_bounded
    return [native_bounded(runner, 'Software.compare_version', 'sign of component-wise numeric comparison whenever the numeric parts differ',
                           c14_version.CMP_BOUNDED, 'all ordered pairs of versions with 1..3 components over {0,1,9,10,12,99,100,2016} (plus four 4-component versions) x product patch suffixes x {OpenSSH, Dropbear SSH, libssh}',
                           'Software.compare_version')]


def build(chk, ip, runner):
    chk.design_ref = 'DESIGN.md section 5 C14'
    chk.level = 'other'
    chk.explanation = ('compare_version proved against the numeric-order clause with _version_tuple seen through its contract; '
                       '_version_tuple proved against that contract for dotted-decimal strings of 1..4 components (unbounded numerals); '
                       'its None result for non-dotted strings and the regex capture model are bounded / assumed')
    chk.units = c14_version.units() + c14_version.vt_units()
    chk.stubs = c14_version.stubs()
    chk.customs = [custom_crosscheck, custom_vt_bounded, custom_cmp_bounded, custom_version_filter, custom_compat]
    chk.assumptions = ['version strings are ASCII and contain no newline (banners are sanitised to printable ASCII before Software.parse)',
                       "re.match is modelled per pattern (pyvc/lib.py RE_MODELS); \\d is [0-9]"]
    chk.not_decided = ['versions with more than 4 components (outside the property\'s quantifier)',
                       'ordering among equal numeric versions by patch suffix (specified by the code only; antisymmetry on that part is not proved)']


if __name__ == '__main__':
    sys.exit(main('C14', build, sys.argv[1:]))
