"""C03 -- an algorithm's rating depends only on the algorithm, in every view."""
import os
import sys
from pyvc.driver import main, native_bounded, VERIF
from contracts import report_native, c03_notes


def custom_native(ip, runner):
    code = report_native.C03 % {'native': os.path.join(VERIF, 'native')}
    return [native_bounded(runner, 'rating-views', 'the notes of (category, name) are the same alone, among neighbours, in any position, in either role, in text, JSON and --lookup (Terrapin context excluded); unknown names are flagged in every view',
                           code, 'every database name (gss-* instantiated) alone and inside peers covering the database and 12 seeded random peers (120 thorough), both roles, reversed and rotated order with Terrapin context, repeated occurrences of 18 names; 5 unknown names',
                           'ssh_audit:build_struct.fetch_notes (run-time, every database name)')]


def build(chk, ip, runner):
    chk.design_ref = 'DESIGN.md section 5 C03'
    chk.units = c03_notes.units()
    chk.stubs = c03_notes.stubs()
    chk.customs = [custom_native]
    chk.level = 'other'
    chk.explanation = ('the JSON view\'s note extraction proved against an arbitrary table (notes == the entry\'s cells, table unchanged); agreement of text, JSON and --lookup '
                       'by a bounded run-time contract check over every database name')


if __name__ == '__main__':
    sys.exit(main('C03', build, sys.argv[1:]))
