"""C19 -- a standard audit's footprint on the target is small and bounded."""
import os
import sys
from pyvc.driver import main, native_bounded, VERIF
from contracts import probe_native, c12_gex


def custom_native(ip, runner):
    code = probe_native.C19 % {'native': os.path.join(VERIF, 'native'), 'tier': runner.tier}
    return [native_bounded(runner, 'footprint', 'connections <= 1 + host-key types + 9 per group-exchange algorithm + 38 rate-check connections (0 with --skip-rate-test); no key-exchange request on the first connection, at most one per connection; every connection closed when main() returns',
                           code, 'the C09 fault matrix (every third truncation offset) alternating with/without --skip-rate-test; 6 kex lists x 4 host-key lists (all 17 probe types included) x 6 moduli policies x {rate check, skipped, policy audit}; connection log of the fake server',
                           'ssh_audit:audit (end to end, fake server)')]


def build(chk, ip, runner):
    chk.design_ref = 'DESIGN.md section 5 C19'
    # the group-exchange probe loop, for every server behaviour: at most 9 probes per algorithm, all inside the fixed sequence
    units = []
    for u in c12_gex.run_units():
        c = u.contract
        if c.cases[0]['$n'] == 3 and c.cases[0]['$banner'] in ('openssh', 'other'):
            c.ensures = [e for e in c.ensures if "len(ghost('probes')) <= 9" in e or e.startswith("all(p[0] == g_alg")] or c.ensures[:1]
            units.append(u)
    # one host-key probe: at most one connection and one key-exchange request, sent on an open connection that is closed afterwards
    from contracts import c11_hostkey
    for u in c11_hostkey.perform_units():
        u.contract.ensures = u.contract.ensures[:2]
        units.append(u)
    # one group-exchange probe: one reconnect, at most one request, socket closed on every exit, nothing escapes
    units += c12_gex.send_init_units()
    # re-opening the connection for a probe: at most one connect, nothing escapes (only struct.error can leave SSH2_Kex.parse: C10)
    units += c12_gex.reconnect_units()
    # what one key-exchange request is on the wire: every send_init (finite-field DH and the four curve methods) emits exactly one packet
    from contracts import c09_parsers
    units += c09_parsers.send_init_units() + c09_parsers.send_init_fixed_units()
    chk.units = units
    chk.stubs = c12_gex.stubs() + c12_gex.send_init_stubs() + [c for c in c11_hostkey.perform_stubs() if c.qual not in ('SSH2_KexDB.get_db', 'SSH2_Kex.parse', 'traceback:format_exc')] + c12_gex.reconnect_stubs()
    chk.assumptions = ['the units see the peer only through abstract socket / KexDH / _send_init contracts (any result, KexDHException possible); connect() is counted, not dialled',
                       'closing relies on SSH_Socket.close being called (checked at the fake socket in the bounded part); CPython finalisers are not modelled']
    chk.customs = [custom_native]
    chk.level = 'other'
    chk.explanation = ('proved for every server behaviour: at most 9 group-exchange probes per algorithm (GEXTest.run), one reconnect / at most one request / '
                       'socket closed per probe (GEXTest._send_init), at most one connection and one request per probed host-key type (HostKeyTest.perform_test); a request is exactly one packet (send_init of KexDH and the four curve methods); '
                       'connection counts, one request per connection and closing by a bounded check against the fake server\'s connection log')
    chk.not_decided = ['"short-lived" (wall-clock duration of rate-check connections): no notion of time']


if __name__ == '__main__':
    sys.exit(main('C19', build, sys.argv[1:]))
