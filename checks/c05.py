"""C05 -- a policy made from a target passes on that target and fails on any drift."""
import os
import sys
from pyvc.driver import main, native_bounded, VERIF
from contracts import policy_native, c05_roundtrip, c06_policy


def custom_native(ip, runner):
    code = policy_native.C05 % {'native': os.path.join(VERIF, 'native')}
    return [native_bounded(runner, 'policy-roundtrip', 'Policy(policy_data=Policy.create(...)) loads and passes on the same peer; every single-attribute perturbation fails naming its field; every built-in policy passes on its own peer',
                           code, '4 hand-written peers + 8 seeded random peers (80 in the thorough tier) drawn from the database and odd-but-legal spellings, random size maps (incl. names with = + / @, duplicate names, size maps with RSA and Ed25519 CAs) x all single-attribute perturbations (add/insert/remove/reorder/rename per list, +-size per key/CA/modulus, CA type); all built-in policies',
                           'Policy.create')]


def build(chk, ip, runner):
    chk.design_ref = 'DESIGN.md section 5 C05'
    chk.units = c05_roundtrip.units()
    chk.stubs = c06_policy.stubs()
    chk.customs = [custom_native]
    chk.level = 'other'
    chk.explanation = 'evaluation half proved on the real Policy.evaluate for every peer (equal attributes pass, one differing attribute fails naming it); the text half (Policy.create -> Policy.__init__) and the whole round trip are a bounded run-time contract check'


if __name__ == '__main__':
    sys.exit(main('C05', build, sys.argv[1:]))
