"""C17 -- the tool's knowledge tables agree with each other.

Closed formulas over the constant tables of the current tree (DESIGN.md section 5 C17).  Every instance is one ground
obligation evaluated exhaustively on the tables extracted from the working tree on this run."""
import re
import sys
import os
from pyvc.driver import main, Ground, native_bounded, VERIF
from pyvc.tables import load_tables, literal_keys

CATS2 = ('kex', 'key', 'enc', 'mac')
_cache = {}


def T(repo):
    if 'tables' not in _cache:
        _cache['tables'] = load_tables(repo.root)
    return _cache['tables']


VERSION_ITEM = re.compile(r'^(d|l1)?\d+(\.\d+)*C?$')


# ------------------------------------------------------------------------------------------------ G1 shape
def g1_shape(repo):
    out = []
    t = T(repo)
    for dbname, cats in (('ssh2', CATS2), ('ssh1', None)):
        db = t[dbname]
        for cat, entries in db.items():
            for name, e in entries.items():
                inst = '%s:%s:%s' % (dbname, cat, name)
                ok, why = True, ''
                if not isinstance(name, str) or not name:
                    ok, why = False, 'empty or non-string name'
                elif not isinstance(e, list) or not (1 <= len(e) <= 4):
                    ok, why = False, 'entry is not a list of 1..4 lists'
                elif any(not isinstance(x, list) for x in e):
                    ok, why = False, 'entry element is not a list'
                else:
                    if len(e[0]) > 3:
                        ok, why = False, 'more than 3 version items'
                    for v in e[0]:
                        if v is None:
                            continue
                        if not isinstance(v, str):
                            ok, why = False, 'version item is not a string or None'
                            break
                        for item in v.split(','):
                            if item != '' and not VERSION_ITEM.match(item):
                                ok, why = False, 'version item %r does not match (d|l1)?<dotted>C?' % item
                    for idx in range(1, len(e)):
                        for s in e[idx]:
                            if not isinstance(s, str) or not s:
                                ok, why = False, 'note %r in list %d is not a non-empty string' % (s, idx)
                    if len(e) >= 3 and len(e[2]) >= 10:
                        ok, why = False, 'ten or more warnings (recommendation severity arithmetic, C13)'
                out.append((inst, ok, why))
    return out


# ------------------------------------------------------------------------------------------------ G2 closure
def g2_closure(repo):
    out = []
    t = T(repo)
    db = t['ssh2']
    pol_fields = (('host_keys', 'key'), ('optional_host_keys', 'key'), ('kex', 'kex'), ('ciphers', 'enc'), ('macs', 'mac'))
    for pname, p in t['policies'].items():
        for fld, cat in pol_fields:
            for alg in (p.get(fld) or []):
                out.append(('policy[%s].%s:%s' % (pname, fld, alg), alg in db[cat], 'not a key of the %s table' % cat))
        for alg in (p.get('hostkey_sizes') or {}):
            out.append(('policy[%s].hostkey_sizes:%s' % (pname, alg), alg in db['key'], 'not a key of the key table'))
        for alg in (p.get('dh_modulus_sizes') or {}):
            out.append(('policy[%s].dh_modulus_sizes:%s' % (pname, alg), alg in db['kex'], 'not a key of the kex table'))
    for alg in t['host_key_types']:
        out.append(('HOST_KEY_TYPES:%s' % alg, alg in db['key'], 'host-key probe type unknown to the key table'))
    for alg in t['rsa_family']:
        out.append(('RSA_FAMILY:%s' % alg, alg in db['key'] and alg in t['host_key_types'], 'RSA family name unknown'))
    d = t['dheat']
    for tab in ('gex_algs', 'alg_priority', 'tested_algs', 'HARDCODED_ALGS', 'COMPLEX_PQ_ALGS'):
        for alg in d[tab]:
            out.append(('DHEat.%s:%s' % (tab, alg), alg in db['kex'], 'not a key of the kex table'))
    for alg in d['alg_modulus_sizes']:
        out.append(('DHEat.alg_modulus_sizes:%s' % alg, alg in db['kex'], 'not a key of the kex table'))
    for qual, var in (('HostKeyTest.run', 'KEX_TO_DHGROUP'), ('GEXTest.run', 'GEX_ALGS'), ('GEXTest.granular_modulus_size_test', 'GEX_ALGS')):
        for alg in literal_keys(repo, qual, var):
            out.append(('%s.%s:%s' % (qual, var, alg), alg in db['kex'], 'not a key of the kex table'))
    db1 = t['ssh1']
    for c in t['ssh1_ciphers']:
        out.append(('SSH1.CIPHERS:%s' % c, c in db1['enc'], 'SSH-1 cipher unknown to the SSH-1 table'))
    for a in t['ssh1_auths'][1:]:
        out.append(('SSH1.AUTHS:%s' % a, a in db1['aut'], 'SSH-1 authentication type unknown to the SSH-1 table'))
    return out


# ------------------------------------------------------------------------------------------------ G3 hardening
def fails(entry):
    return entry[1] if len(entry) > 1 else []


def g3_hardening(repo):
    out = []
    t = T(repo)
    db = t['ssh2']
    pol_fields = (('host_keys', 'key'), ('optional_host_keys', 'key'), ('kex', 'kex'), ('ciphers', 'enc'), ('macs', 'mac'))
    for pname, p in t['policies'].items():
        for fld, cat in pol_fields:
            for alg in (p.get(fld) or []):
                e = db[cat].get(alg)
                if e is None:
                    continue        # reported by G2
                out.append(('policy[%s].%s:%s' % (pname, fld, alg), len(fails(e)) == 0,
                            'built-in policy lists an algorithm the database rates as failure: %s' % fails(e)))
        req, opt = set(p.get('host_keys') or []), set(p.get('optional_host_keys') or [])
        out.append(('policy[%s].required-optional-disjoint' % pname, not (req & opt), 'both required and optional: %s' % sorted(req & opt)))
        for alg, info in (p.get('hostkey_sizes') or {}).items():
            if alg.startswith(('rsa-', 'ssh-rsa')):
                out.append(('policy[%s].hostkey_size:%s' % (pname, alg), info.get('hostkey_size', 0) >= 3072, 'RSA host key below 3072 bits would be rated with a warning/failure'))
            if info.get('ca_key_type', '') in t['rsa_family'] and info.get('ca_key_size', 0) > 0:
                out.append(('policy[%s].ca_key_size:%s' % (pname, alg), info.get('ca_key_size', 0) >= 3072, 'RSA CA key below 3072 bits'))
        for alg, size in (p.get('dh_modulus_sizes') or {}).items():
            out.append(('policy[%s].dh_modulus_size:%s' % (pname, alg), size >= 3072, 'group-exchange modulus below 3072 bits'))
    return out


# ------------------------------------------------------------------------------------------------ G4 broken primitives
# token table written from the property statement ("MD5, SHA-1, RC4/arcfour, DES/3DES, 'none', DSA, 1024-bit groups,
# NIST curves and the like"): (label, regex over the algorithm name, categories it applies to)
TOKENS = [
    ('md5', r'md5', CATS2),
    ('sha1', r'(^|[-_@.])sha1($|[-_@.])|sha1$|-sha$|hmac-sha1', CATS2),
    ('rc4', r'arcfour|rc4', CATS2),
    ('des', r'(^|-)(3des|des)(-|$)|^des$|des-cbc', CATS2),
    ('none', r'^(none|null)$', ('enc', 'mac')),
    ('dsa', r'(^|-)(dss|dsa)(-|$|@)|dss', ('key',)),
    ('group1', r'group1-|-group1$|1024', ('kex',)),
    ('nist-curve', r'nistp\d+|nistk\d+|nistb\d+|nistt\d+', ('kex', 'key')),
    ('ripemd', r'ripemd', CATS2),
    ('blowfish-cast-idea', r'blowfish|cast128|idea', ('enc',)),
]


def g4_broken(repo):
    out = []
    t = T(repo)
    db = t['ssh2']
    for label, rx, cats in TOKENS:
        r = re.compile(rx, re.I)
        for cat in cats:
            for name, e in db[cat].items():
                if r.search(name):
                    out.append(('%s:%s:%s' % (label, cat, name), len(fails(e)) >= 1,
                                'name contains the broken primitive %r but the entry has no failure' % label))
    return out


def custom_conformant(ip, runner):
    from contracts import c17_native
    code = c17_native.NATIVE % {'native': os.path.join(VERIF, 'native')}
    return [native_bounded(runner, 'conformant-server', 'a server configured exactly per a built-in server policy (required and optional host keys with the listed key / CA sizes, the listed group-exchange modulus) shows no algorithm failure in a standard audit and passes that policy; also when audited after a weak server in the same run',
                           code, 'every built-in server policy x {required host keys only, optional ones offered too} through the real probes against the fake server; the last three policies after weak targets with 1 and 2 worker threads',
                           'ssh_audit:main (conformant server, fake network)')]


def build(chk, ip, runner):
    chk.design_ref = 'DESIGN.md section 5 C17'
    chk.explanation = ('closed formulas over the constant tables of the current tree, one ground obligation per '
                       'instance, evaluated exhaustively (complete for "as they stand in the current tree")')
    chk.grounds = [
        Ground('G1-shape', g1_shape, 'every database entry has the documented shape [versions, failures, warnings, infos]'),
        Ground('G2-closure', g2_closure, 'every name used by built-in policies, probe tables and DoS tables is a key of the rating database'),
        Ground('G3-hardening', g3_hardening, 'no built-in policy requires or permits an algorithm with a failure; sizes listed are not rated down'),
        Ground('G4-broken-primitives', g4_broken, 'every entry whose name contains a primitive branded broken carries at least one failure'),
    ]
    chk.exhaustive = True
    chk.customs = [custom_conformant]
    chk.trusted = ['CPython import of the repository modules to read the constant tables', 'the token table of G4 (transcribed from the property statement)']
    chk.not_decided = ['"a peer configured exactly per a built-in policy shows no failure in a standard audit" is the composition of G3 '
                       'with the output_algorithm contract of C02/C03 ([fail] emitted iff non-empty failure cell) and the size bands of C11/C12']


if __name__ == '__main__':
    sys.exit(main('C17', build, sys.argv[1:]))
