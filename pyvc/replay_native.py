"""Native replay of a counterexample: runs the REAL function of /repo under CPython on the concrete inputs of a replay
file and evaluates the violated contract clause with the native spec functions.

usage: /venv/bin/python replay_native.py <replay.json>      -> prints a JSON verdict, exit 1 if the violation reproduces
"""
import importlib.util
import json
import os
import sys
import traceback

HERE = os.path.dirname(os.path.abspath(__file__))
REPO = os.environ.get('PYVC_REPO', '/repo')


def decode(v):
    t = v.get('type')
    if t == 'bytes':
        return bytes.fromhex(v['hex'])
    if t == 'str':
        return v['value']
    if t in ('int', 'bool', 'none'):
        return v['value']
    if t == 'list':
        return [decode(x) for x in v['items']]
    if t == 'tuple':
        return tuple(decode(x) for x in v['items'])
    if t == 'dict':
        return {k: decode(x) for k, x in v['items'].items()}
    if t == 'py':
        return eval(v['expr'], {})
    raise ValueError('cannot decode %r' % (v,))


class _IOView:
    """the verifier's model of io.BytesIO has fields data/pos; natively they are getvalue()/tell()"""

    def __init__(self, b):
        self._b = b

    @property
    def data(self):
        return self._b.getvalue()

    @property
    def pos(self):
        return self._b.tell()


class _SelfView:
    def __init__(self, o):
        object.__setattr__(self, '_o', o)

    def __getattr__(self, name):
        import io
        v = getattr(object.__getattribute__(self, '_o'), name)
        if isinstance(v, io.BytesIO):
            return _IOView(v)
        return v


def main(path):
    with open(path) as f:
        rp = json.load(f)
    sys.path.insert(0, os.path.join(REPO, 'src'))
    spec_path = os.path.join(os.path.dirname(HERE), 'contracts', 'spec.py')
    sp = importlib.util.spec_from_file_location('verif_spec_native', spec_path)
    spec = importlib.util.module_from_spec(sp)
    sp.loader.exec_module(spec)
    ns = {k: getattr(spec, k) for k in dir(spec) if not k.startswith('_')}
    ns['implies'] = lambda a, b: (not a) or b
    ns['iff'] = lambda a, b: bool(a) == bool(b)
    inputs = {k: decode(v) for k, v in rp.get('inputs', {}).items()}
    ns.update(inputs)
    harness = rp.get('harness') or {}
    exec(harness.get('imports', ''), ns)
    old = type('Old', (), {})()
    import copy
    for k, v in inputs.items():
        setattr(old, k, copy.deepcopy(v))
    ns['old'] = old
    verdict = {'obligation': rp.get('obligation'), 'clause': rp.get('clause')}
    try:
        if harness.get('setup'):
            exec(harness['setup'], ns)
        if harness.get('self'):
            ns['self'] = _SelfView(eval(harness['self'], ns))
        for k, e in (rp.get('let') or {}).items():
            ns[k] = eval(e, ns)
            if isinstance(ns[k], (bytearray,)):
                ns[k] = bytes(ns[k])
        ns['result'] = eval(harness['call'], ns)
        if harness.get('self') and ns['result'] is eval(harness['self'], ns):
            ns['result'] = ns['self']
        verdict['raised'] = None
        verdict['result'] = repr(ns['result'])[:500]
    except BaseException as e:      # noqa: the point is to see every escaping exception, SystemExit included
        verdict['raised'] = type(e).__module__ + '.' + type(e).__name__ if type(e).__module__ != 'builtins' else type(e).__name__
        verdict['raised_text'] = str(e)[:300]
        ns['result'] = None
    kind = rp.get('kind')
    reproduced = False
    try:
        if kind == 'ensures':
            if verdict['raised'] is None:
                holds = bool(eval(rp['clause'], ns))
                verdict['clause_holds'] = holds
                reproduced = not holds
            else:
                verdict['note'] = 'function raised instead of returning'
                reproduced = rp.get('raise_is_violation', False)
        elif kind == 'raises':
            allowed = rp.get('allowed_exceptions', [])
            if verdict['raised'] is not None:
                name = verdict['raised']
                short = name.split('.')[-1]
                reproduced = not any(a == name or a.split('.')[-1] == short for a in allowed)
                if not reproduced and rp.get('raise_conditions'):
                    # raised an allowed class: the `only when` condition must hold
                    conds = [c for a, c in rp['raise_conditions'].items() if a == name or a.split('.')[-1] == short]
                    reproduced = not any(bool(eval(c, ns)) for c in conds)
            else:
                # returned normally although a `must raise` condition held
                conds = rp.get('raise_conditions') or {}
                reproduced = any(bool(eval(c, ns)) for c in conds.values())
        elif kind == 'custom':
            holds = bool(eval(rp['clause'], ns))
            verdict['clause_holds'] = holds
            reproduced = not holds
    except Exception:
        verdict['eval_error'] = traceback.format_exc()[-600:]
    verdict['reproduced'] = reproduced
    print(json.dumps(verdict))
    return 1 if reproduced else 0


if __name__ == '__main__':
    sys.exit(main(sys.argv[1]))
