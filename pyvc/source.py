"""pyvc.source -- mechanical extraction of the functions under verification from /repo's working tree.

Every run re-reads the files.  What the extraction drops: type annotations, `cast(...)` wrappers (treated as
identity), docstrings, comments / pragma markers.  No statement and no expression is dropped.
"""
import ast
import hashlib
import os

REPO = os.environ.get('PYVC_REPO', '/repo')
PKG = 'ssh_audit'


class Module:
    def __init__(self, name, path):
        self.name = name
        self.path = path
        with open(path, 'rb') as f:
            raw = f.read()
        self.sha256 = hashlib.sha256(raw).hexdigest()
        self.text = raw.decode('utf-8')
        self.tree = ast.parse(self.text, filename=path)
        self.functions = {}     # name -> FunctionDef
        self.classes = {}       # name -> ClassDef
        self.assigns = {}       # name -> value expr (module-level simple assignments)
        self.imports = {}       # local name -> ('module', dotted) | ('from', module, name)
        self._scan(self.tree.body)

    def _scan(self, body):
        for st in body:
            if isinstance(st, (ast.FunctionDef,)):
                self.functions[st.name] = st
            elif isinstance(st, ast.ClassDef):
                self.classes[st.name] = st
            elif isinstance(st, ast.Assign) and len(st.targets) == 1 and isinstance(st.targets[0], ast.Name):
                self.assigns[st.targets[0].id] = st.value
            elif isinstance(st, ast.AnnAssign) and isinstance(st.target, ast.Name) and st.value is not None:
                self.assigns[st.target.id] = st.value
            elif isinstance(st, ast.Import):
                for a in st.names:
                    self.imports[(a.asname or a.name).split('.')[0]] = ('module', a.name if a.asname else a.name.split('.')[0])
            elif isinstance(st, ast.ImportFrom):
                for a in st.names:
                    self.imports[a.asname or a.name] = ('from', st.module, a.name)
            elif isinstance(st, ast.If):
                # module-level `if sys.platform == 'win32':` blocks etc.: not followed (posix assumed, listed)
                pass


class Repo:
    def __init__(self, root=None):
        self.root = root or REPO
        self.modules = {}
        src = os.path.join(self.root, 'src', PKG)
        for fn in sorted(os.listdir(src)):
            if fn.endswith('.py'):
                name = fn[:-3]
                self.modules[name] = Module(name, os.path.join(src, fn))
        top = os.path.join(self.root, 'ssh-audit.py')
        if os.path.exists(top):
            self.modules['__wrapper__'] = Module('__wrapper__', top)
        self.classes = {}   # class name -> (module name, ClassDef)
        for m in self.modules.values():
            for cn, cd in m.classes.items():
                self.classes[cn] = (m.name, cd)

    def add_module(self, name, path):
        """a sidecar module (composition lemmas written as code over the repository's classes)"""
        m = Module(name, path)
        self.modules[name] = m
        for cn, cd in m.classes.items():
            self.classes[cn] = (m.name, cd)
        return m

    def find_class(self, name):
        return self.classes.get(name)

    def mro(self, cname):
        """linearisation of the repository classes above cname (left-to-right depth-first, duplicates keep their last
        position: equals C3 for the single- and two-base hierarchies of this code base)"""
        out = []

        def visit(c):
            ent = self.classes.get(c)
            if ent is None:
                return
            out.append(c)
            for b in ent[1].bases:
                if isinstance(b, ast.Name):
                    visit(b.id)
        visit(cname)
        res = []
        for i, c in enumerate(out):
            if c not in out[i + 1:]:
                res.append(c)
        return res

    def class_member(self, cname, member, after=None):
        """-> (kind, node, module, owner) where kind in function|classmethod|staticmethod|property|attr ; walks the MRO
        (starting after class `after` when given: super())"""
        mro = self.mro(cname)
        if after is not None:
            mro = mro[mro.index(after) + 1:] if after in mro else []
        for c in mro:
            mod, cd = self.classes[c]
            for st in cd.body:
                if isinstance(st, ast.FunctionDef) and st.name == member:
                    kind = 'function'
                    for d in st.decorator_list:
                        ds = ast.unparse(d)
                        if ds == 'classmethod':
                            kind = 'classmethod'
                        elif ds == 'staticmethod':
                            kind = 'staticmethod'
                        elif ds == 'property':
                            kind = 'property'
                        elif ds.endswith('.setter'):
                            kind = 'setter'
                    if kind == 'setter':
                        continue
                    return (kind, st, mod, c)
                if isinstance(st, ast.ClassDef) and st.name == member:
                    return ('class', st, mod, c)
                if isinstance(st, ast.Assign) and len(st.targets) == 1 and isinstance(st.targets[0], ast.Name) and st.targets[0].id == member:
                    return ('attr', st.value, mod, c)
                if isinstance(st, ast.Assign) and len(st.targets) == 1 and isinstance(st.targets[0], ast.Tuple):
                    names = [e.id for e in st.targets[0].elts if isinstance(e, ast.Name)]
                    if member in names and isinstance(st.value, ast.Tuple):
                        return ('attr', st.value.elts[names.index(member)], mod, c)
                if isinstance(st, ast.AnnAssign) and isinstance(st.target, ast.Name) and st.target.id == member and st.value is not None:
                    return ('attr', st.value, mod, c)
        return None

    def class_setter(self, cname, member):
        for c in self.mro(cname):
            mod, cd = self.classes[c]
            for st in cd.body:
                if isinstance(st, ast.FunctionDef) and st.name == member:
                    for d in st.decorator_list:
                        if ast.unparse(d).endswith('.setter'):
                            return (st, mod, c)
        return None

    def function(self, qual):
        """'module:func' | 'Class.method' | 'module:func.nested' -> (node, module name, class name or None)"""
        if ':' in qual:
            mod, rest = qual.split(':', 1)
            parts = rest.split('.')
            m = self.modules[mod]
            node = m.functions.get(parts[0])
            if node is None and parts[0] in m.classes:
                return self.function('.'.join(parts))
            for p in parts[1:]:
                node = _nested(node, p)
            return node, mod, None
        parts = qual.split('.')
        ent = self.classes.get(parts[0])
        if ent is None:
            raise KeyError(qual)
        mod, cd = ent
        node = None
        for st in cd.body:
            if isinstance(st, ast.FunctionDef) and st.name == parts[1]:
                if any(ast.unparse(d).endswith('.setter') for d in st.decorator_list):
                    continue
                node = st
        if node is None:
            raise KeyError(qual)
        for p in parts[2:]:
            node = _nested(node, p)
        return node, mod, parts[0]

    def span(self, qual):
        node, mod, cls = self.function(qual)
        return {'function': qual, 'file': os.path.relpath(self.modules[mod].path, self.root),
                'sha256': self.modules[mod].sha256, 'lines': [node.lineno, node.end_lineno]}


def _nested(node, name):
    if node is None:
        raise KeyError(name)
    for st in ast.walk(node):
        if isinstance(st, ast.FunctionDef) and st.name == name and st is not node:
            return st
    raise KeyError(name)


def mangle(cls, name):
    if cls and name.startswith('__') and not name.endswith('__'):
        return '_%s%s' % (cls.lstrip('_'), name)
    return name
