"""pyvc -- a small contract-based deductive verifier for the Python subset used by ssh-audit."""
