"""pyvc.values -- value model of the symbolic executor.

Concrete Python values (int, bool, str, bytes, None, tuple) are kept as they are and computed on by CPython
itself.  Everything else is one of:

  Sym(term, ty)        a z3 term with a type tag
  Ref(oid)             a reference into the state's heap; heap payloads are
     LObj              list: concrete spine (`items`) or symbolic sequence (`sym`, `elty`)
     DObj              dict with concrete keys (insertion ordered)
     SetObj            set with concrete members
     Obj               instance of a repository class or of a modelled library class (BytesIO, bytearray ...)
  ClassRef / FuncRef / BoundMethod / Builtin / ModuleRef     callables and namespaces

Type tags:  'int' 'bool' 'str' 'bytes' ('list', T) ('tuple', (T1, ...)) ('opt', T)
`str` and `bytes` are both z3 Strings (sequence of code points); a bytes value only ever contains code points < 256
(maintained by construction: every producer of bytes keeps that range, inputs are constrained by `wf`).
"""
import z3

_next_oid = [0]


def new_oid():
    _next_oid[0] += 1
    return _next_oid[0]


class Unsupported(Exception):
    """A construct outside the modelled subset: the function becomes *undecided*, never violated."""


class StaleContract(Unsupported):
    """The sidecar contract no longer binds to the code it was written for (a loop ordinal, loop header, cut statement or local name it
    refers to is gone): the function is not under contract in this run.  Reported, recorded as unverified, never a violation."""


class Sym:
    __slots__ = ('t', 'ty')

    def __init__(self, t, ty):
        self.t = t
        self.ty = ty

    def __repr__(self):
        return 'Sym(%s:%s)' % (self.t, self.ty)

    def __bool__(self):
        raise Unsupported('python truth test on symbolic value %r' % (self,))

    def __eq__(self, other):
        return isinstance(other, Sym) and self.ty == other.ty and self.t.eq(other.t)

    def __ne__(self, other):
        return not self.__eq__(other)

    def __hash__(self):
        return hash((self.t.hash(), str(self.ty)))


class Ref:
    __slots__ = ('oid',)

    def __init__(self, oid):
        self.oid = oid

    def __repr__(self):
        return 'Ref#%d' % self.oid

    def __eq__(self, o):
        return isinstance(o, Ref) and o.oid == self.oid

    def __ne__(self, o):
        return not self.__eq__(o)

    def __hash__(self):
        return hash(('Ref', self.oid))


class LObj:
    __slots__ = ('items', 'sym', 'elty', 'kind')

    def __init__(self, items=None, sym=None, elty=None, kind='list'):
        self.items = items
        self.sym = sym
        self.elty = elty
        self.kind = kind

    def copy(self):
        return LObj(list(self.items) if self.items is not None else None, self.sym, self.elty, self.kind)

    def __repr__(self):
        return 'LObj(%r)' % (self.items if self.items is not None else self.sym,)


class DObj:
    __slots__ = ('d',)

    def __init__(self, d=None):
        self.d = d if d is not None else {}

    def copy(self):
        return DObj(dict(self.d))

    def __repr__(self):
        return 'DObj(%r)' % (self.d,)


class SetObj:
    __slots__ = ('s',)

    def __init__(self, s=None):
        self.s = s if s is not None else []

    def copy(self):
        return SetObj(list(self.s))

    def __repr__(self):
        return 'SetObj(%r)' % (self.s,)


class Obj:
    __slots__ = ('cls', 'f')

    def __init__(self, cls, fields=None):
        self.cls = cls
        self.f = fields if fields is not None else {}

    def copy(self):
        return Obj(self.cls, dict(self.f))

    def __repr__(self):
        return 'Obj<%s>(%r)' % (self.cls, self.f)


class ClassRef:
    def __init__(self, name):
        self.name = name

    def __repr__(self):
        return 'ClassRef(%s)' % self.name

    def __eq__(self, o):
        return isinstance(o, ClassRef) and o.name == self.name

    def __hash__(self):
        return hash(('ClassRef', self.name))


class ModuleRef:
    def __init__(self, name):
        self.name = name

    def __repr__(self):
        return 'ModuleRef(%s)' % self.name

    def __eq__(self, o):
        return isinstance(o, ModuleRef) and o.name == self.name

    def __hash__(self):
        return hash(('ModuleRef', self.name))


class FuncRef:
    """A repository function: AST node + where it was defined."""

    def __init__(self, node, module, cls=None, qual=None, closure=(), kind='function'):
        self.node = node
        self.module = module
        self.cls = cls              # enclosing class name or None
        self.qual = qual
        self.closure = tuple(closure)      # frame ids of the enclosing function activations
        self.kind = kind            # function | classmethod | staticmethod | property | lambda

    def __repr__(self):
        return 'FuncRef(%s)' % self.qual

    def __eq__(self, o):
        return isinstance(o, FuncRef) and o.node is self.node and o.closure == self.closure

    def __hash__(self):
        return hash(('FuncRef', id(self.node)))


class BoundMethod:
    def __init__(self, recv, func):
        self.recv = recv
        self.func = func            # FuncRef, or a str naming a builtin method

    def __repr__(self):
        return 'BoundMethod(%r.%r)' % (self.recv, self.func)

    def __eq__(self, o):
        return isinstance(o, BoundMethod) and o.recv == self.recv and o.func == self.func

    def __hash__(self):
        return hash(('BM', str(self.func)))


class Builtin:
    def __init__(self, name):
        self.name = name

    def __repr__(self):
        return 'Builtin(%s)' % self.name

    def __eq__(self, o):
        return isinstance(o, Builtin) and o.name == self.name

    def __hash__(self):
        return hash(('Builtin', self.name))


class ExcVal:
    """An exception instance: class name (concrete) + args."""

    def __init__(self, cls, args=()):
        self.cls = cls
        self.args = tuple(args)

    def __repr__(self):
        return 'ExcVal(%s%r)' % (self.cls, self.args)


# ----------------------------------------------------------------------------------------------- sorts
_dt_cache = {}


def sort_of(ty):
    if ty == 'int':
        return z3.IntSort()
    if ty == 'bool':
        return z3.BoolSort()
    if ty in ('str', 'bytes'):
        return z3.StringSort()
    if isinstance(ty, tuple) and ty[0] == 'list':
        return z3.SeqSort(sort_of(ty[1]))
    if isinstance(ty, tuple) and ty[0] == 'opt':
        key = ('opt', ty[1])
        if key not in _dt_cache:
            name = 'Opt_' + tyname(ty[1])
            d = z3.Datatype(name)
            d.declare('none_' + name)
            d.declare('some_' + name, ('val_' + name, sort_of(ty[1])))
            _dt_cache[key] = d.create()
        return _dt_cache[key]
    if isinstance(ty, tuple) and ty[0] == 'tuple':
        key = ('tuple', ty[1])
        if key not in _dt_cache:
            name = 'Tup_' + '_'.join(tyname(t) for t in ty[1])
            d = z3.Datatype(name)
            d.declare('mk_' + name, *[('f%d_%s' % (i, name), sort_of(t)) for i, t in enumerate(ty[1])])
            _dt_cache[key] = d.create()
        return _dt_cache[key]
    raise Unsupported('no sort for type %r' % (ty,))


def tyname(ty):
    if isinstance(ty, str):
        return ty
    if ty[0] == 'list':
        return 'L' + tyname(ty[1])
    if ty[0] == 'opt':
        return 'O' + tyname(ty[1])
    if ty[0] == 'tuple':
        return 'T' + ''.join(tyname(t) for t in ty[1])
    raise Unsupported(repr(ty))


def parse_ty(s):
    """'list[str]' 'opt[str]' 'tuple[str,str]' 'list[tuple[str,str]]' -> type tag"""
    if not isinstance(s, str):
        return s
    s = s.strip()
    if s in ('int', 'bool', 'str', 'bytes'):
        return s
    if s == 'nat':
        return 'int'
    if s.startswith('list[') and s.endswith(']'):
        return ('list', parse_ty(s[5:-1]))
    if s.startswith('opt[') and s.endswith(']'):
        return ('opt', parse_ty(s[4:-1]))
    if s.startswith('tuple[') and s.endswith(']'):
        parts, depth, cur = [], 0, ''
        for ch in s[6:-1]:
            if ch == '[':
                depth += 1
            if ch == ']':
                depth -= 1
            if ch == ',' and depth == 0:
                parts.append(cur)
                cur = ''
            else:
                cur += ch
        parts.append(cur)
        return ('tuple', tuple(parse_ty(p) for p in parts))
    raise Unsupported('type %r' % s)


def zstr(pyval):
    """z3 string literal of a python str (code points) or bytes (byte values)."""
    if isinstance(pyval, bytes):
        pyval = ''.join(chr(b) for b in pyval)
    return z3.StringVal(pyval)


def is_opt(ty):
    return isinstance(ty, tuple) and ty[0] == 'opt'


def opt_none(ty):
    return sort_of(ty).constructor(0)()


def opt_some(ty, t):
    return sort_of(ty).constructor(1)(t)


def opt_is_none(ty, t):
    return sort_of(ty).recognizer(0)(t)


def opt_val(ty, t):
    return sort_of(ty).accessor(1, 0)(t)


def fresh(name, ty):
    """fresh symbolic value of a type (tuples become python tuples of fresh components)."""
    fresh.n += 1
    nm = '%s!%d' % (name, fresh.n)
    if isinstance(ty, tuple) and ty[0] == 'tuple':
        return tuple(fresh('%s_%d' % (name, i), t) for i, t in enumerate(ty[1]))
    return Sym(z3.Const(nm, sort_of(ty)), ty)


fresh.n = 0
