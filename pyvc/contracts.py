"""pyvc.contracts -- sidecar contracts: data model, verification of a function against its contract, and use of a
callee's contract at a call site."""
import ast
import z3
from .values import (Sym, Ref, LObj, DObj, SetObj, Obj, Unsupported, StaleContract, sort_of, fresh, parse_ty, FuncRef, ExcVal,
                     ClassRef)
from .state import State, type_of, lift, mk
from .loops import LoopSpec
from . import ops
from .lib import deep_copy


class Contract:
    def __init__(self, qual, params=None, requires=(), ensures=(), raises=None, loops=None, cuts=None,
                 mode='inline', result=None, modifies=(), cases=None, top=None, note='', old=(), setup=None,
                 allow_raises=None, ghost=None, pure=False, use=(), let=None, may_raise=None, use_entry=(), opaque=(), merge=True, callee_loops=None):
        self.qual = qual
        self.params = dict(params or {})
        self.requires = [requires] if isinstance(requires, str) else list(requires)
        self.ensures = [ensures] if isinstance(ensures, str) else list(ensures)
        self.raises = raises                  # None: not specified (exceptional exits are not checked);
                                              # {}: must not raise; {'Exc': 'cond over entry values'}
        self.loops = {k: (v if isinstance(v, LoopSpec) else LoopSpec(**v)) for k, v in (loops or {}).items()}
        self.cuts = dict(cuts or {})
        self.mode = mode                      # how callers see this function: 'inline' | 'contract'
        self.result = result                  # result type when used as a contract
        self.modifies = list(modifies)        # expressions (over params) of heap objects a call may change
        self.cases = cases or [{}]
        self.top = top                        # indices of ensures clauses that state the property itself (default all)
        self.note = note
        self.setup = setup                    # callable(ip, st, locals, case) building non-first-order inputs
        self.ghost = ghost or {}
        self.pure = pure
        self.use_entry = [use_entry] if isinstance(use_entry, str) else list(use_entry)   # lemma instances assumed at entry
        self.callee_loops = dict(callee_loops or {})   # qual of an inlined callee -> {loop ordinal: LoopSpec}
        self.merge = merge                    # merge states at if-joins (False: always fork; more, simpler obligations)
        self.opaque = tuple(opaque)            # spec functions kept opaque (not unfolded) in this function's obligations
        self.may_raise = dict(may_raise or {})   # {'Exc': cond}: may (not must) raise when cond held at entry
        self.let = dict(let or {})            # name -> expression over entry values, usable in ensures/raises
        self.use = [use] if isinstance(use, str) else list(use)     # lemma instances assumed at every normal exit


class Old:
    """entry-state snapshot, read as old.x in specs"""

    def __init__(self, vals):
        self.vals = vals


def _check_header(qual, ordinal, node, spec):
    """a loop contract is attached by ordinal; when it also gives the expected header text and the code's loop reads differently, the
    contract is out of date with the code (a refactoring): undecided, not a failed proof"""
    want = getattr(spec, 'header', None)
    if not want:
        return
    got = ast.unparse(node).split('\n')[0].strip().rstrip(':')
    if got != want:
        raise StaleContract('contract of %s is out of date: loop %d reads %r, the contract was written for %r' % (qual, ordinal, got, want))


def loops_in_order(fnode):
    """For/While statements of a function body in source order, not descending into nested defs"""
    out = []

    def walk(stmts):
        for s in stmts:
            if isinstance(s, (ast.FunctionDef, ast.ClassDef, ast.Lambda)):
                continue
            if isinstance(s, (ast.For, ast.While)):
                out.append(s)
            for fld in ('body', 'orelse', 'finalbody', 'handlers'):
                sub = getattr(s, fld, None)
                if sub:
                    if fld == 'handlers':
                        for h in sub:
                            walk(h.body)
                    else:
                        walk(sub)
    walk(fnode.body)
    return out


def make_input(ip, st, name, ty):
    """fresh symbolic input of a declared type"""
    if ty is None:
        return None
    if isinstance(ty, str) and ty.startswith('const:'):
        return eval(ty[6:], {})
    nat = ty == 'nat'
    t = parse_ty(ty)
    if isinstance(t, tuple) and t[0] == 'list':
        return st.new_symlist(fresh(name, t).t, t[1])
    v = fresh(name, t)
    if nat:
        st.assume(v.t >= 0)
    return v


def snapshot(ip, st, v):
    """immutable copy of an entry value for `old`"""
    if isinstance(v, Ref):
        p = st.get(v)
        if isinstance(p, LObj):
            t = type_of(v, st)
            if t is not None:
                return Sym(lift(v, st, t), t)
        return deep_copy(ip, st, v, {}, engine=True)
    return v


def entry_state(ip, con, case, fnode, module, cls):
    """state at function entry: symbolic inputs per the contract's parameter types, requires assumed"""
    st = State()
    st.ghost.update({k: v for k, v in con.ghost.items()})
    a = fnode.args
    pnames = [p.arg for p in a.posonlyargs + a.args + a.kwonlyargs]
    locals_ = {}
    kind = 'function'
    for d in fnode.decorator_list:
        ds = ast.unparse(d)
        if ds in ('classmethod', 'staticmethod', 'property'):
            kind = ds
    meta = {'module': module, 'cls': cls, 'qual': con.qual, 'closure': ()}
    st.push_frame({}, meta)
    for p in pnames:
        if p in case:
            locals_[p] = case[p]
        elif p in con.params:
            locals_[p] = make_input(ip, st, p, con.params[p])
        elif p == 'cls' and kind == 'classmethod':
            locals_[p] = ClassRef(cls)
        else:
            locals_[p] = ('$default', None)
    defaults = dict(zip([x.arg for x in (a.posonlyargs + a.args)][len(a.posonlyargs + a.args) - len(a.defaults):], a.defaults))
    for k, d in zip(a.kwonlyargs, a.kw_defaults):
        if d is not None:
            defaults[k.arg] = d
    for p in pnames:
        if isinstance(locals_[p], tuple) and locals_[p] and locals_[p][0] == '$default':
            if p in defaults:
                locals_[p] = ip.eval(defaults[p], st)
            elif con.setup is not None:
                locals_[p] = ('$unset',)
            else:
                raise Unsupported('contract of %s gives no type for parameter %s' % (con.qual, p))
    st.frame.update(locals_)
    extra_inputs = {}
    if con.setup is not None:
        extra_inputs = con.setup(ip, st, st.frame, case) or {}
        for p in pnames:
            if st.frame[p] == ('$unset',):
                raise Unsupported('setup of %s did not bind parameter %s' % (con.qual, p))
    inputs = {}
    for p, v in extra_inputs.items():
        if isinstance(v, Sym) and v.ty in ('int', 'bool', 'str', 'bytes'):
            inputs[p] = ('sym', v.t.decl().name(), v.ty)
    for p in pnames:
        v = st.frame[p]
        if isinstance(v, Sym) and v.ty in ('int', 'bool', 'str', 'bytes'):
            inputs[p] = ('sym', v.t.decl().name(), v.ty)
        elif isinstance(v, (int, str, bytes, bool)) or v is None:
            inputs[p] = ('concrete', v, None)
    for r in con.requires:
        v = ip.eval_spec(r, st, {})
        st.assume(ip._z(ip.truth(v, st)))
    for name, e in con.let.items():
        st.frame[name] = snapshot(ip, st, ip.eval_spec(e, st, {}))
    if con.use_entry:
        from .specs import use_lemmas
        use_lemmas(ip, st, con.use_entry, {})
    return st, pnames, inputs


def verify_function(ip, con, fuel_note=None):
    """symbolically execute the real function under its contract; appends obligations to ip.obls.
    Returns dict with counts and the per-case outcome summary."""
    fnode, module, cls = ip.repo.function(con.qual)
    summary = {'function': con.qual, 'cases': [], 'paths': 0}
    loops = loops_in_order(fnode)
    saved = (ip.loop_specs, ip.cuts, ip.cur_func, ip.cur_inputs)
    saved_opaque = ip.cur_opaque
    ip.cur_opaque = con.opaque
    saved_merge = ip.merge_states_enabled
    ip.merge_states_enabled = con.merge
    ip.loop_specs = dict(ip.loop_specs)
    for ordinal, spec in con.loops.items():
        if ordinal < 1 or ordinal > len(loops):
            raise StaleContract('contract of %s names loop %d but the function has %d loops' % (con.qual, ordinal, len(loops)))
        _check_header(con.qual, ordinal, loops[ordinal - 1], spec)
        ip.loop_specs[id(loops[ordinal - 1])] = spec
    for cq, cl in con.callee_loops.items():
        cnode, _, _ = ip.repo.function(cq)
        cloops = loops_in_order(cnode)
        for ordinal, spec in cl.items():
            if ordinal < 1 or ordinal > len(cloops):
                raise StaleContract('contract of %s names loop %d of callee %s which has %d loops' % (con.qual, ordinal, cq, len(cloops)))
            spec = spec if isinstance(spec, LoopSpec) else LoopSpec(**spec)
            _check_header(cq, ordinal, cloops[ordinal - 1], spec)
            ip.loop_specs[id(cloops[ordinal - 1])] = spec
    ip.cuts = dict(con.cuts)
    if con.cuts:
        # a cut names a statement by its text: if the text no longer occurs in the function, the contract is out of date with the
        # code (a refactoring, not a property violation) -- report that instead of letting the proof fail for a spurious reason
        texts = set()
        for n_ in ast.walk(fnode):
            if isinstance(n_, ast.stmt):
                try:
                    texts.add(ast.unparse(n_).split('\n')[0].strip())
                except Exception:
                    pass
        missing = [k for k in con.cuts if k not in texts]
        if missing:
            raise StaleContract('contract of %s is out of date: no statement reads %r' % (con.qual, missing[0]))
    ip.cur_func = con.qual
    try:
        for ci, case in enumerate(con.cases):
            st, pnames, inputs = entry_state(ip, con, case, fnode, module, cls)
            ip.cur_inputs = inputs
            old = {p: snapshot(ip, st, st.frame[p]) for p in pnames}
            oldobj = st.new_obj('<old>', old)
            st.ghost['$old'] = oldobj
            ip.depth = 0
            outs = ip.exec_block(fnode.body, st)
            npaths = 0
            for kind_, s, v in outs:
                npaths += 1
                if kind_ == 'next':
                    kind_, v = 'return', None
                env = {'old': oldobj}
                if kind_ == 'return':
                    env['result'] = v
                    if con.use:
                        from .specs import use_lemmas
                        use_lemmas(ip, s, con.use, env)
                    for i, e in enumerate(con.ensures):
                        val = ip.eval_spec(e, s, env)
                        ip.oblige(s, ip._z(ip.truth(val, s)), '%s#ensures[%d]%s@%d' % (con.qual, i, _case_tag(ci, con), fnode.lineno),
                                  'ensures', clause=e, line=fnode.lineno, top=(con.top is None or i in con.top))
                    if con.raises is not None:
                        for exc, cond in con.raises.items():
                            val = ip.eval_spec(cond, s, env)
                            ip.oblige(s, ip._z(ip.znot(ip.truth(val, s))), '%s#raises[%s].must%s@%d' % (con.qual, exc, _case_tag(ci, con), fnode.lineno),
                                      'raises', clause='returns normally only if not (%s)' % cond, line=fnode.lineno, top=True)
                elif kind_ == 'raise':
                    if con.raises is None:
                        continue
                    from .interp import exc_is
                    conds = [c for exc, c in list(con.raises.items()) + list(con.may_raise.items()) if exc_is(v.cls, exc)]
                    if not conds:
                        ip.oblige(s, z3.BoolVal(False), '%s#raises[none].%s%s@%d' % (con.qual, v.cls, _case_tag(ci, con), fnode.lineno),
                                  'raises', clause='no %s may escape' % v.cls, line=fnode.lineno, top=True,
                                  extra={'exception': v.cls})
                    else:
                        goal = z3.Or([ip._z(ip.truth(ip.eval_spec(c, s, env), s)) for c in conds])
                        ip.oblige(s, goal, '%s#raises[%s].only%s@%d' % (con.qual, v.cls, _case_tag(ci, con), fnode.lineno),
                                  'raises', clause='%s only when %s' % (v.cls, ' or '.join(conds)), line=fnode.lineno, top=True)
                else:
                    raise Unsupported('%s escapes function body' % kind_)
            summary['cases'].append({'case': {k: repr(v) for k, v in case.items()}, 'paths': npaths})
            summary['paths'] += npaths
    finally:
        ip.loop_specs, ip.cuts, ip.cur_func, ip.cur_inputs = saved
        ip.cur_opaque = saved_opaque
        ip.merge_states_enabled = saved_merge
    return summary


def _case_tag(ci, con):
    return '' if len(con.cases) == 1 else '.case%d' % ci


def apply_contract(ip, con, fr, args, kwargs, st, node=None):
    """call site: check requires, havoc modifies, assume ensures, branch on raises"""
    ip.used_contracts.add(con.qual)
    locals_ = ip.bind_args(fr.node, args, kwargs, st, fr.module, fr.cls)
    meta = {'module': fr.module, 'cls': fr.cls, 'qual': con.qual, 'closure': fr.closure}
    st.push_frame(locals_, meta)
    try:
        ip._eval_defaults(st)
        line = getattr(node, 'lineno', 0)
        for i, r in enumerate(con.requires):
            v = ip.eval_spec(r, st, {})
            ip.oblige(st, ip._z(ip.truth(v, st)), '%s#pre[%s][%d]@%d' % (ip.cur_func, con.qual, i, line), 'precondition',
                      clause=r, line=line, top=True)
            st.assume(ip._z(ip.truth(v, st)))
        a = fr.node.args
        pnames = [p.arg for p in a.posonlyargs + a.args + a.kwonlyargs]
        old = {p: snapshot(ip, st, st.frame[p]) for p in pnames if p in st.frame}
        oldobj = st.new_obj('<old>', old)
        env = {'old': oldobj}
        for name, e in con.let.items():
            env[name] = snapshot(ip, st, ip.eval_spec(e, st, {}))
            st.frame[name] = env[name]
        # exceptional exits
        alts = ['normal']
        if con.raises:
            alts += list(con.raises.keys())
        alts += ['may:' + k for k in con.may_raise.keys()]
        c = ip.choose(st, len(alts))
        # havoc
        from .loops import havoc_object
        for m in con.modifies:
            mtypes = {}
            if ':' in m:
                m, mt = m.split(':', 1)
                mtypes[m] = mt
            node = ast.parse(m, mode='eval').body
            ref = ip.eval_spec(node, st, {})
            if isinstance(ref, Ref):
                havoc_object(ip, st, ref, m, mtypes)
            elif isinstance(node, ast.Attribute):
                base = ip.eval_spec(node.value, st, {})
                t = type_of(ref, st)
                if not isinstance(base, Ref) or t is None:
                    raise Unsupported('cannot havoc %s' % m)
                st.mut(base).f[node.attr] = fresh(m.replace('.', '_'), t)
            else:
                raise Unsupported('cannot havoc %s' % m)
        if c > 0:
            exc = alts[c]
            if exc.startswith('may:'):
                exc = exc[4:]
                v = ip.eval_spec(con.may_raise[exc], st, env)
                st.assume(ip._z(ip.truth(v, st)))
                from .interp import Raise
                raise Raise(ExcVal(exc, (fresh('excarg', ('opt', 'str')),)))
            v = ip.eval_spec(con.raises[exc], st, env)
            st.assume(ip._z(ip.truth(v, st)))
            from .interp import Raise
            raise Raise(ExcVal(exc, ()))
        if con.raises:
            for exc, cond in con.raises.items():
                v = ip.eval_spec(cond, st, env)
                st.assume(ip._z(ip.znot(ip.truth(v, st))))
        res = None
        if con.result is not None:
            if callable(con.result):
                res = con.result(ip, st)
            else:
                res = make_input(ip, st, 'res_' + con.qual.replace('.', '_').replace(':', '_'), con.result)
        env['result'] = res
        for e in con.ensures:
            v = ip.eval_spec(e, st, env)
            st.assume(ip._z(ip.truth(v, st)))
        if con.use:
            # lemma instances the contract carries for its clients (sound anywhere: they are instances of proved lemmas)
            from .specs import use_lemmas
            use_lemmas(ip, st, con.use, env)
        return res
    finally:
        st.pop_frame()
