"""Constant tables of the repository's *current* working tree, obtained by importing the modules in a fresh CPython
process (no caching between runs) plus literal dictionaries/lists read from function bodies with `ast`."""
import ast
import json
import os
import subprocess

DUMP = r'''
import json, sys
sys.path.insert(0, sys.argv[1])
from ssh_audit.ssh2_kexdb import SSH2_KexDB
from ssh_audit.ssh1_kexdb import SSH1_KexDB
from ssh_audit.builtin_policies import BUILTIN_POLICIES
from ssh_audit.hostkeytest import HostKeyTest
from ssh_audit.dheat import DHEat
from ssh_audit.ssh1 import SSH1
out = {
 'ssh2': SSH2_KexDB.MASTER_DB, 'ssh1': SSH1_KexDB.MASTER_DB, 'policies': BUILTIN_POLICIES,
 'host_key_types': HostKeyTest.HOST_KEY_TYPES, 'rsa_family': HostKeyTest.RSA_FAMILY,
 'dheat': {'gex_algs': DHEat.gex_algs, 'alg_priority': DHEat.alg_priority, 'alg_modulus_sizes': DHEat.alg_modulus_sizes,
           'tested_algs': DHEat.tested_algs, 'HARDCODED_ALGS': DHEat.HARDCODED_ALGS, 'COMPLEX_PQ_ALGS': DHEat.COMPLEX_PQ_ALGS},
 'ssh1_ciphers': SSH1.CIPHERS, 'ssh1_auths': SSH1.AUTHS,
 'consts': {k: getattr(SSH2_KexDB, k) for k in dir(SSH2_KexDB) if k.startswith(('FAIL_', 'WARN_', 'INFO_'))},
}
print(json.dumps(out))
'''


def load_tables(repo_root):
    p = subprocess.run(['/venv/bin/python', '-c', DUMP, os.path.join(repo_root, 'src')], capture_output=True, text=True, timeout=120)
    if p.returncode != 0:
        raise RuntimeError('cannot import tables: ' + p.stderr[-800:])
    return json.loads(p.stdout)


def literal_keys(repo, qual, varname):
    """keys of a dict literal / elements of a list literal assigned to `varname` inside function `qual`"""
    node, mod, cls = repo.function(qual)
    for st in ast.walk(node):
        if isinstance(st, ast.Assign) and len(st.targets) == 1 and isinstance(st.targets[0], ast.Name) and st.targets[0].id == varname:
            v = st.value
            if isinstance(v, ast.Dict):
                return [k.value for k in v.keys if isinstance(k, ast.Constant)]
            if isinstance(v, (ast.List, ast.Tuple)):
                return [e.value for e in v.elts if isinstance(e, ast.Constant)]
    raise KeyError('%s in %s' % (varname, qual))


def string_constants(repo, qual):
    node, mod, cls = repo.function(qual)
    return [n.value for n in ast.walk(node) if isinstance(n, ast.Constant) and isinstance(n.value, str)]
