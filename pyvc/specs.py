"""pyvc.specs -- specification functions.

/verif/contracts/spec.py is ordinary Python: the same text is (a) run natively by CPython on concrete values
(replay, ground evaluation) and (b) read with `ast` and evaluated symbolically here.  A function decorated
`@recursive('T1,T2->T')` becomes an uninterpreted z3 function whose defining equation (its own body) is
instantiated, at discharge time, at the application terms that occur in an obligation, up to `fuel` levels deep
("ground unfolding").  `@uninterpreted('T->T')` functions have no body for the solver (assumed total functions)."""
import ast
import importlib.util
import os
import z3
from .values import Sym, Ref, Unsupported, sort_of, parse_ty, FuncRef, fresh
from .state import State, type_of, lift, mk


class SpecFun:
    def __init__(self, name, node, kind, sig, fuel):
        self.name, self.node, self.kind, self.sig, self.fuel = name, node, kind, sig, fuel
        self.decl = None
        if sig is not None:
            a, r = sig.split('->')
            self.argtys = [parse_ty(x) for x in a.split(';') if x.strip()]
            self.resty = parse_ty(r)
            self.decl = z3.Function('spec_' + name, *[sort_of(t) for t in self.argtys], sort_of(self.resty))


class SpecRegistry:
    def __init__(self, path):
        self.path = path
        with open(path) as f:
            text = f.read()
        self.tree = ast.parse(text)
        self.funs = {}
        self.lemmas = {}
        for st in self.tree.body:
            if isinstance(st, ast.FunctionDef):
                kind, sig, fuel = 'inline', None, 1
                if any(isinstance(d, ast.Name) and d.id == 'primitive' for d in st.decorator_list):
                    continue
                for d in st.decorator_list:
                    if isinstance(d, ast.Call) and isinstance(d.func, ast.Name) and d.func.id in ('recursive', 'uninterpreted'):
                        kind = d.func.id
                        sig = d.args[0].value
                        for k in d.keywords:
                            if k.arg == 'fuel':
                                fuel = k.value.value
                    if isinstance(d, ast.Call) and isinstance(d.func, ast.Name) and d.func.id == 'lemma':
                        kind = 'lemma'
                        lem = {'types': [x for x in d.args[0].value.split(';') if x.strip()], 'fuel': 1, 'requires': None,
                               'induction': None, 'smaller': None, 'base': None, 'timeout': None, 'uses': None}
                        for k in d.keywords:
                            lem[k.arg] = k.value.value
                        self.lemmas[st.name] = lem
                self.funs[st.name] = SpecFun(st.name, st, kind, sig, fuel)
        spec = importlib.util.spec_from_file_location('verif_spec_native', path)
        self.native = importlib.util.module_from_spec(spec)
        spec.loader.exec_module(self.native)
        self.by_decl = {f.decl.name(): f for f in self.funs.values() if f.decl is not None}

    def has(self, name):
        return name in self.funs

    def call(self, ip, st, name, args, kwargs):
        f = self.funs.get(name)
        if f is None:
            raise Unsupported('unknown spec function %s' % name)
        if kwargs:
            raise Unsupported('keyword arguments to spec function')
        if f.kind in ('inline', 'lemma'):
            fr = FuncRef(f.node, '$spec', None, 'spec:' + name)
            return ip.call_funcref(fr, list(args), {}, st)
        # recursive / uninterpreted
        if all(_native_ok(a, st) for a in args) and f.kind == 'recursive':
            try:
                r = getattr(self.native, name)(*[_to_native(a, st) for a in args])
                return _from_native(r, st)
            except RecursionError:
                pass
        ts = [lift(a, st, t) for a, t in zip(args, f.argtys)]
        return mk(_apply_distributing(f.decl, ts, 0), f.resty)

    # ---------------------------------------------------------------------------------------------- unfolding
    def unfold(self, ip, terms, extra_fuel=0, opaque=()):
        """definitional equations for the recursive spec applications occurring in `terms` (list of z3 exprs)"""
        eqs = []
        seen = {}
        work = []

        def scan(t, depth):
            stack = [t]
            visited = set()
            while stack:
                x = stack.pop()
                i = x.get_id()
                if i in visited:
                    continue
                visited.add(i)
                if z3.is_quantifier(x):
                    # applications under binders mention bound variables: not ground, skip
                    continue
                if z3.is_app(x):
                    d = x.decl().name()
                    f = self.by_decl.get(d)
                    if f is not None and f.kind == 'recursive' and i not in seen and f.name not in opaque:
                        if not _has_bound_var(x):
                            seen[i] = depth
                            work.append((x, f, depth))
                    stack.extend(x.children())
        for t in terms:
            scan(t, 0)
        while work:
            app, f, depth = work.pop()
            if depth >= f.fuel + extra_fuel:
                continue
            st = State()
            st.push_frame({}, {'module': '$spec', 'cls': None, 'qual': 'unfold:' + f.name, 'closure': ()})
            args = [mk(app.arg(i), t) for i, t in enumerate(f.argtys)]
            fr = FuncRef(f.node, '$spec', None, 'spec:' + f.name)
            outs = ip.run_simple(st, lambda s: ('val', ip.call_funcref(fr, list(args), {}, s)))
            outs = [o for o in outs if o[0] == 'val']
            if len(outs) != 1:
                raise Unsupported('spec function %s does not evaluate to a single merged value (%d paths)' % (f.name, len(outs)))
            _, s2, val = outs[0]
            eq = app == lift(val, s2, f.resty)
            facts = list(s2.pc)
            eqs.append(eq)
            eqs.extend(facts)
            for t in [eq] + facts:
                scan(t, depth + 1)
        return eqs


def _apply_distributing(decl, ts, depth):
    """F(..., ite(c, a, b), ...) == ite(c, F(..., a, ...), F(..., b, ...)): applications are pushed below if-then-else
    arguments (merged values), so that the defining equation can later be instantiated at each alternative"""
    if depth < 5:
        for i, t in enumerate(ts):
            if z3.is_app(t) and t.decl().kind() == z3.Z3_OP_ITE and not z3.is_bool(t):
                c, a, b = t.children()
                ta = list(ts)
                tb = list(ts)
                ta[i], tb[i] = a, b
                return z3.If(c, _apply_distributing(decl, ta, depth + 1), _apply_distributing(decl, tb, depth + 1))
    return decl(*ts)


def _has_bound_var(x):
    stack = [x]
    seen = set()
    while stack:
        y = stack.pop()
        if y.get_id() in seen:
            continue
        seen.add(y.get_id())
        if z3.is_var(y):
            return True
        if z3.is_app(y):
            stack.extend(y.children())
    return False


def _native_ok(a, st):
    if isinstance(a, Sym):
        return False
    if isinstance(a, Ref):
        from .lib import _concrete_deep
        return _concrete_deep(st, a)
    if isinstance(a, tuple):
        return all(_native_ok(x, st) for x in a)
    return isinstance(a, (int, str, bytes, bool)) or a is None


def _to_native(a, st):
    from .lib import _to_py
    return _to_py(st, a)


def _from_native(r, st):
    if isinstance(r, list):
        return st.new_list([_from_native(x, st) for x in r])
    return r


def prove_lemmas(ip, specs, names=None):
    """obligations establishing each @lemma (plain, or by induction with the hypothesis as an explicit assumption)"""
    from .contracts import make_input
    saved = ip.cur_func
    for name, lem in specs.lemmas.items():
        if names is not None and name not in names:
            continue
        f = specs.funs[name]
        params = [a.arg for a in f.node.args.args]
        ip.cur_func = 'lemma:' + name
        extra = {'fuel': lem['fuel'] - 1}
        if lem.get('timeout'):
            extra['timeout'] = lem['timeout']

        def fresh_state():
            st = State()
            st.push_frame({}, {'module': '$spec', 'cls': None, 'qual': 'lemma:' + name, 'closure': ()})
            for p, t in zip(params, lem['types']):
                st.frame[p] = make_input(ip, st, p, t)
            if lem['requires']:
                st.assume(ip._z(ip.truth(ip.eval_spec(lem['requires'], st, {}), st)))
            if lem['uses']:
                use_lemmas(ip, st, [u.strip() for u in lem['uses'].split(';;')], {})
            return st
        call = '%s(%s)' % (name, ', '.join(params))
        if lem['induction'] is None:
            st = fresh_state()
            v = ip.eval_spec(call, st, {})
            ip.oblige(st, ip._z(ip.truth(v, st)), 'lemma:%s#statement' % name, 'lemma', clause=ast.unparse(f.node.body[-1]), top=False, extra=extra)
            continue
        var = lem['induction']
        # base
        st = fresh_state()
        st.assume(ip._z(ip.truth(ip.eval_spec(lem['base'], st, {}), st)))
        v = ip.eval_spec(call, st, {})
        ip.oblige(st, ip._z(ip.truth(v, st)), 'lemma:%s#base' % name, 'lemma', clause='base case %s' % lem['base'], extra=extra)
        # step
        st = fresh_state()
        st.assume(ip._z(ip.znot(ip.truth(ip.eval_spec(lem['base'], st, {}), st))))
        small = ip.eval_spec(lem['smaller'], st, {})
        cur = st.frame[var]
        # measure decreases
        if type_of(cur, st) == 'int':
            dec = ip.eval_spec('0 <= (%s) and (%s) < %s' % (lem['smaller'], lem['smaller'], var), st, {})
        else:
            dec = ip.eval_spec('len(%s) < len(%s)' % (lem['smaller'], var), st, {})
        ip.oblige(st, ip._z(ip.truth(dec, st)), 'lemma:%s#measure' % name, 'lemma', clause='induction measure decreases', extra=extra)
        st.frame[var] = small
        ih = ip.eval_spec(call, st, {})
        st.frame[var] = cur
        st.assume(ip._z(ip.truth(ih, st)))
        v = ip.eval_spec(call, st, {})
        ip.oblige(st, ip._z(ip.truth(v, st)), 'lemma:%s#step' % name, 'lemma', clause='inductive step (hypothesis at %s)' % lem['smaller'], extra=extra)
    ip.cur_func = saved


def use_lemmas(ip, st, exprs, env):
    """assume instances of proved lemmas (each expression must be a call of an @lemma function)"""
    for e in exprs:
        node = ast.parse(e.strip(), mode='eval').body
        calls = [node] if isinstance(node, ast.Call) else []
        if not calls or not isinstance(node.func, ast.Name) or node.func.id not in ip.specs.lemmas:
            raise Unsupported('`use` clause %r is not a lemma instance' % e)
        name = node.func.id
        lem = ip.specs.lemmas[name]
        stmt = ip._z(ip.truth(ip.eval_spec(node, st, env), st))
        if lem['requires']:
            # the instance is  requires(args) -> statement(args)
            f = ip.specs.funs[name]
            params = [a.arg for a in f.node.args.args]
            args = [ip.eval_spec(a, st, env) for a in node.args]
            env2 = dict(env)
            env2.update(dict(zip(params, args)))
            st.push_frame(dict(zip(params, args)), {'module': '$spec', 'cls': None, 'qual': 'lemma-req:' + name, 'closure': ()})
            try:
                req = ip._z(ip.truth(ip.eval(ast.parse(lem['requires'], mode='eval').body, st), st))
            finally:
                st.pop_frame()
            stmt = z3.Implies(req, stmt)
        st.assume(stmt)
        ip.used_lemmas.add(name)
