"""pyvc.lib -- builtins, methods of str/bytes/list/dict, and the standard-library functions ssh-audit uses.

Each library function is either *defined* (its documented semantics are encoded) or *assumed* (an uninterpreted
result constrained only by what is stated here); assumed ones are recorded in interp.assumed and end up in the
evidence file.
"""
import ast
import z3
from .values import (Sym, Ref, LObj, DObj, SetObj, Obj, Unsupported, sort_of, zstr, is_opt, opt_none, opt_some,
                     opt_is_none, opt_val, FuncRef, BoundMethod, ClassRef, Builtin, ModuleRef, ExcVal, fresh,
                     parse_ty)
from .state import type_of, lift, mk, values_equal, unify_ty
from . import ops
from .ops import I, S, B, is_sym, sty, zmax, zmin, code_at, pyint_str, zand, zor, znot

WS = ' \t\n\r\x0b\x0c'
WS_BYTES = b' \t\n\r\x0b\x0c'


def _raise(cls, *args):
    from .interp import Raise
    raise Raise(ExcVal(cls, args))


def char_class(chars):
    """z3 regex matching one char out of `chars` (str)"""
    rs = [z3.Re(z3.StringVal(c)) if ord(c) < 128 and c not in '\\' else z3.Re(zstr(c)) for c in chars]
    return rs[0] if len(rs) == 1 else z3.Union(*rs)


def digits_re():
    return z3.Range(z3.StringVal('0'), z3.StringVal('9'))


# ------------------------------------------------------------------------------------------------ builtins
def call_builtin(ip, st, name, args, kwargs, node=None):
    if name.startswith('spec:'):
        return ip.specs.call(ip, st, name[5:], args, kwargs)
    m = ip.models.get(name)
    if m is not None:
        return m(ip, st, args, kwargs)
    f = BUILTIN_IMPL.get(name)
    if f is not None:
        return f(ip, st, args, kwargs)
    if name.startswith('typing.'):
        return args[-1] if args else None
    if name == 'object.__init__':
        return None
    if ip.on_unsupported_call is not None:
        r = ip.on_unsupported_call(ip, st, name, args, kwargs)
        if r is not NotImplemented:
            return r
    raise Unsupported('call of %s' % name)


def b_len(ip, st, args, kwargs):
    (v,) = args
    v = unwrap_opt(ip, st, v)
    if isinstance(v, (str, bytes, tuple)):
        return len(v)
    if isinstance(v, Sym):
        if v.ty in ('str', 'bytes') or (isinstance(v.ty, tuple) and v.ty[0] == 'list'):
            return mk(z3.Length(v.t), 'int')
    if isinstance(v, Ref):
        p = st.get(v)
        if isinstance(p, LObj):
            return len(p.items) if p.items is not None else mk(z3.Length(p.sym), 'int')
        if isinstance(p, DObj):
            return len(p.d)
        if isinstance(p, SetObj):
            return len(p.s)
        if isinstance(p, Obj):
            if p.cls == '<bytearray>':
                return b_len(ip, st, [p.f['val']], {})
            if p.cls == '<range>':
                seq = ops.concrete_iter(ip, st, v)
                if seq is not None:
                    return len(seq)
            mm = ip.method_models.get((p.cls, '__len__'))
            if mm is not None:
                return mm(ip, st, v, [], {})
            if not p.cls.startswith('<') and ip.repo.class_member(p.cls, '__len__'):
                return ip.call_method(v, '__len__', [], {}, st)
    raise Unsupported('len of %r' % (v,))


def b_range(ip, st, args, kwargs):
    if all(isinstance(a, int) for a in args):
        return range(*args)
    a = list(args)
    if len(a) == 1:
        a = [0, a[0], 1]
    elif len(a) == 2:
        a = [a[0], a[1], 1]
    return st.new_obj('<range>', {'start': a[0], 'stop': a[1], 'step': a[2]})


def b_ord(ip, st, args, kwargs):
    (v,) = args
    if isinstance(v, (str, bytes)):
        try:
            return ord(v)
        except TypeError:
            _raise('TypeError', 'ord() expected a character')
    s = S(v)
    ip.cond_raise(st, z3.Length(s) != 1, 'TypeError', 'ord() expected a character')
    return mk(code_at(st, s, z3.IntVal(0), sty(v)), 'int')


def b_chr(ip, st, args, kwargs):
    (v,) = args
    if isinstance(v, int):
        return chr(v)
    i = I(v)
    ip.cond_raise(st, z3.Or(i < 0, i > 0x10ffff), 'ValueError', 'chr() arg not in range')
    return mk(z3.StrFromCode(i), 'str')


def int_of_str(ip, st, s, ty):
    """int(s) for a symbolic str: ValueError unless strip(s) matches [+-]?[0-9]+ (underscore separators are not
    modelled: a string containing '_' between digits is treated as invalid -- stated assumption)"""
    zs0 = S(s)
    for f in st.pc:
        if z3.is_app(f) and f.decl().kind() == z3.Z3_OP_SEQ_IN_RE and f.arg(0).eq(zs0) and _digits_only(f.arg(1)):
            if z3.is_false(z3.simplify(z3.InRe(z3.StringVal(''), f.arg(1)))):
                # known to be a non-empty string of ASCII digits: int() cannot fail and no stripping takes place
                return mk(z3.StrToInt(zs0), 'int')
    t = str_strip(ip, st, s, None, 'both', ty)
    tt = S(t)
    d = digits_re()
    pat = z3.Concat(z3.Option(z3.Union(z3.Re(z3.StringVal('+')), z3.Re(z3.StringVal('-')))), z3.Plus(d))
    ip.cond_raise(st, z3.Not(z3.InRe(tt, pat)), 'ValueError', 'invalid literal for int()')
    neg = z3.PrefixOf(z3.StringVal('-'), tt)
    pos = z3.PrefixOf(z3.StringVal('+'), tt)
    body = z3.If(z3.Or(neg, pos), z3.SubString(tt, 1, z3.Length(tt) - 1), tt)
    v = z3.StrToInt(body)
    return mk(z3.If(neg, -v, v), 'int')


def b_int(ip, st, args, kwargs):
    if not args:
        return 0
    v = unwrap_opt(ip, st, args[0])
    if len(args) == 2 or 'base' in kwargs:
        base = args[1] if len(args) == 2 else kwargs['base']
        if not is_sym(v) and not is_sym(base):
            try:
                return int(v, base)
            except ValueError as e:
                _raise('ValueError', str(e))
        if base == 16 and isinstance(v, Sym) and v.ty in ('str', 'bytes'):
            hx = st.ghost.get('$hexof', {}).get(v.t.get_id())
            if hx is not None:
                src = hx
                ip.cond_raise(st, z3.Length(S(src)) == 0, 'ValueError', 'invalid literal for int() with base 16')
                return ip.specs.call(ip, st, 'val_be', [src], {})
        raise Unsupported('int(x, base) symbolic')
    if isinstance(v, (int, float)):
        return int(v)
    if isinstance(v, (str, bytes)):
        try:
            return int(v)
        except ValueError as e:
            _raise('ValueError', str(e))
    if isinstance(v, Sym):
        if v.ty == 'int':
            return v
        if v.ty == 'bool':
            return mk(I(v), 'int')
        if v.ty == 'ratio':
            # int(a / b) truncates toward zero (b > 0): floor for a >= 0, -floor(-a / b) otherwise; z3's integer division by a positive
            # constant is the floor
            num, den = v.t
            return mk(z3.If(num >= 0, num / den, -((-num) / den)), 'int')
        if v.ty in ('str', 'bytes'):
            return int_of_str(ip, st, v, v.ty)
    if v is None:
        _raise('TypeError', 'int() argument must be a string or a number')
    raise Unsupported('int() of %r' % (v,))


def b_str(ip, st, args, kwargs):
    if not args:
        return ''
    if len(args) > 1:
        raise Unsupported('str(bytes, encoding)')
    return ops.to_str(ip, st, args[0])


def b_repr(ip, st, args, kwargs):
    return ops.to_repr(ip, st, args[0])


def b_bool(ip, st, args, kwargs):
    if not args:
        return False
    t = ip.truth(args[0], st)
    return t if isinstance(t, bool) else mk(t, 'bool')


def b_bytes(ip, st, args, kwargs):
    if not args:
        return b''
    v = args[0]
    if isinstance(v, bytes):
        return v
    if isinstance(v, Sym) and v.ty == 'bytes':
        return v
    if isinstance(v, Ref):
        p = st.get(v)
        if isinstance(p, Obj) and p.cls == '<bytearray>':
            return p.f['val']
        if isinstance(p, LObj) and p.items is not None and all(isinstance(x, int) for x in p.items):
            try:
                return bytes(p.items)
            except ValueError:
                _raise('ValueError', 'bytes must be in range(0, 256)')
    if isinstance(v, int) and not isinstance(v, bool):
        if v > 1 << 16:
            raise Unsupported('bytes(huge)')
        return bytes(v)
    raise Unsupported('bytes() of %r' % (v,))


def b_bytearray(ip, st, args, kwargs):
    if not args:
        return st.new_obj('<bytearray>', {'val': b''})
    v = args[0]
    if len(args) == 2:
        enc = args[1]
        if enc not in ('utf-8', 'utf8', 'ascii'):
            raise Unsupported('bytearray encoding')
        return st.new_obj('<bytearray>', {'val': str_encode(ip, st, v, enc)})
    if isinstance(v, bytes) or (isinstance(v, Sym) and v.ty == 'bytes'):
        return st.new_obj('<bytearray>', {'val': v})
    raise Unsupported('bytearray() of %r' % (v,))


def classify(ip, st, v):
    """set of python type names the value is an instance of"""
    if isinstance(v, bool):
        return {'bool', 'int'}
    if isinstance(v, int):
        return {'int'}
    if isinstance(v, str):
        return {'str'}
    if isinstance(v, bytes):
        return {'bytes'}
    if isinstance(v, float):
        return {'float'}
    if v is None:
        return {'NoneType'}
    if isinstance(v, tuple):
        return {'tuple'}
    if isinstance(v, Sym):
        if v.ty == 'bool':
            return {'bool', 'int'}
        if v.ty in ('int', 'str', 'bytes'):
            return {v.ty}
        if isinstance(v.ty, tuple) and v.ty[0] == 'list':
            return {'list'}
        raise Unsupported('isinstance on optional symbolic value')
    if isinstance(v, Ref):
        p = st.get(v)
        if isinstance(p, LObj):
            return {'list'}
        if isinstance(p, DObj):
            return {'dict'}
        if isinstance(p, SetObj):
            return {'set'}
        if isinstance(p, Obj):
            if p.cls == '<bytearray>':
                return {'bytearray'}
            names = {p.cls}
            c = p.cls
            seen = set()
            while c and c not in seen and ip.repo.find_class(c):
                seen.add(c)
                names.add(c)
                mod, cd = ip.repo.find_class(c)
                c = None
                for b in cd.bases:
                    if isinstance(b, ast.Name):
                        c = b.id
                        names.add(c)
            return names
    if isinstance(v, ExcVal):
        names = set()
        c = v.cls
        from .interp import EXC_PARENTS
        while c:
            names.add(c)
            c = EXC_PARENTS.get(c)
        return names
    raise Unsupported('isinstance on %r' % (v,))


def b_isinstance(ip, st, args, kwargs):
    v, t = args
    ts = t if isinstance(t, tuple) else (t,)
    names = classify(ip, st, v)
    for x in ts:
        n = x.name if isinstance(x, (Builtin, ClassRef)) else None
        if n is None:
            raise Unsupported('isinstance type %r' % (x,))
        if n in names:
            return True
    return False


def _minmax(ip, st, args, kwargs, is_max):
    key = kwargs.get('key')
    if len(args) == 1:
        vals = ops.iter_values(ip, st, args[0])
    else:
        vals = list(args)
    if not vals:
        if 'default' in kwargs:
            return kwargs['default']
        _raise('ValueError', 'min()/max() arg is an empty sequence')
    best = vals[0]
    bk = ip.call(key, [best], {}, st) if key is not None else best
    for v in vals[1:]:
        k = ip.call(key, [v], {}, st) if key is not None else v
        c = ops.compare(ip, st, ast.Gt() if is_max else ast.Lt(), k, bk)
        if isinstance(c, bool):
            if c:
                best, bk = v, k
        else:
            from .state import merge_value
            best = merge_value(c.t, v, best, st, st, st)
            bk = merge_value(c.t, k, bk, st, st, st)
    return best


def b_max(ip, st, args, kwargs):
    return _minmax(ip, st, args, kwargs, True)


def b_min(ip, st, args, kwargs):
    return _minmax(ip, st, args, kwargs, False)


def b_sorted(ip, st, args, kwargs):
    vals = ops.iter_values(ip, st, args[0])
    key = kwargs.get('key')
    if kwargs.get('reverse'):
        raise Unsupported('sorted reverse')
    ks = [ip.call(key, [v], {}, st) if key is not None else v for v in vals]
    if any(is_sym(k) or isinstance(k, Ref) for k in ks):
        raise Unsupported('sorted with symbolic keys')
    order = sorted(range(len(vals)), key=lambda i: ks[i])
    return st.new_list([vals[i] for i in order])


def b_enumerate(ip, st, args, kwargs):
    start = args[1] if len(args) > 1 else kwargs.get('start', 0)
    seq = ops.concrete_iter(ip, st, args[0])
    if seq is not None:
        return [(i + start, x) for i, x in enumerate(seq)]
    return st.new_obj('<enumerate>', {'it': args[0], 'start': start})


def b_list(ip, st, args, kwargs):
    if not args:
        return st.new_list([])
    seq = ops.concrete_iter(ip, st, args[0])
    if seq is not None:
        return st.new_list(seq)
    sv = ops.seq_view(ip, st, args[0])
    if sv is not None and sv[1] not in ('char', 'byte'):
        return st.new_symlist(sv[0], sv[1])
    raise Unsupported('list() of %r' % (args[0],))


def b_tuple(ip, st, args, kwargs):
    if not args:
        return ()
    return tuple(ops.iter_values(ip, st, args[0]))


def b_dict(ip, st, args, kwargs):
    d = {}
    if args:
        a = args[0]
        if isinstance(a, Ref) and isinstance(st.get(a), DObj):
            d.update(st.get(a).d)
        else:
            for k, v in ops.iter_values(ip, st, a):
                d[k] = v
    d.update(kwargs)
    return st.new_dict(d)


def b_set(ip, st, args, kwargs):
    out = []
    if args:
        for v in ops.iter_values(ip, st, args[0]):
            if is_sym(v):
                raise Unsupported('symbolic set member')
            if v not in out:
                out.append(v)
    return st.alloc(SetObj(out))


def b_any(ip, st, args, kwargs):
    r = False
    for v in ops.iter_values(ip, st, args[0]):
        t = ip.truth(v, st)
        r = zor(r, t if isinstance(t, bool) else mk(t, 'bool'))
        if r is True:
            return True
    return r


def b_all(ip, st, args, kwargs):
    r = True
    for v in ops.iter_values(ip, st, args[0]):
        t = ip.truth(v, st)
        r = zand(r, t if isinstance(t, bool) else mk(t, 'bool'))
        if r is False:
            return False
    return r


def b_getattr(ip, st, args, kwargs):
    obj, name = args[0], args[1]
    if is_sym(name):
        # getattr(out, level) with a symbolic level: a deferred bound method
        return BoundMethod(obj, ('$dyn', name))
    try:
        return ip.getattr(obj, name, st)
    except Unsupported:
        if len(args) == 3:
            return args[2]
        raise


def b_hasattr(ip, st, args, kwargs):
    obj, name = args
    try:
        ip.getattr(obj, name, st)
        return True
    except Unsupported:
        return False


def b_print(ip, st, args, kwargs):
    g = st.ghost.get('$stdout')
    if g is None:
        return None
    parts = [ops.to_str(ip, st, a) for a in args]
    sep = kwargs.get('sep', ' ')
    end = kwargs.get('end', '\n')
    out = []
    for i, p in enumerate(parts):
        if i:
            out.append(sep)
        out.append(p)
    out.append(end)
    text = ops.concat_strs(ip, st, out)
    st.ghost['$stdout'] = g + (text,)
    return None


def b_abs(ip, st, args, kwargs):
    (v,) = args
    if isinstance(v, (int, float)):
        return abs(v)
    x = I(v)
    return mk(z3.If(x >= 0, x, -x), 'int')


def b_pow(ip, st, args, kwargs):
    # pow() on concrete ints only (2 or 3 arguments); symbolic powers go through the ** operator's model
    if all(isinstance(a, int) and not isinstance(a, bool) for a in args) and len(args) in (2, 3) and not kwargs:
        try:
            return pow(*args)
        except (ValueError, ZeroDivisionError) as e:
            _raise(type(e).__name__, str(e))
    if len(args) == 3 and not kwargs:
        # 3-argument pow(b, x, m), DEFINED from the documented semantics as far as exceptions and range go: ValueError when m == 0;
        # for x >= 0 the result r is b**x reduced into the range of m (0 <= r < m for m > 0, m < r <= 0 for m < 0).  The value itself
        # is left unconstrained within that range.  A negative exponent (modular inverse, may or may not exist) is treated as raising:
        # conservative for "nothing is raised" obligations, and no audited call site passes one.
        b, x, m = (I(a) for a in args)
        ip.assumed.add('pow(b, x, m) library model: ValueError iff m == 0 (negative x treated as raising); result unconstrained within the range of m')
        ip.cond_raise(st, m == 0, 'ValueError', 'pow() 3rd argument cannot be 0')
        ip.cond_raise(st, x < 0, 'ValueError', 'base is not invertible for the given modulus')
        r = fresh('powmod', 'int')
        st.assume(z3.If(m > 0, z3.And(r.t >= 0, r.t < m), z3.And(r.t > m, r.t <= 0)))
        return r
    raise Unsupported('pow() with symbolic arguments')


def b_sum(ip, st, args, kwargs):
    r = args[1] if len(args) > 1 else 0
    for v in ops.iter_values(ip, st, args[0]):
        r = ops.binop(ip, st, ast.Add(), r, v)
    return r


def b_zip(ip, st, args, kwargs):
    parts = [ops.concrete_iter(ip, st, a) for a in args]
    if any(p is None for p in parts):
        raise Unsupported('zip of symbolic iterables')
    return list(zip(*parts))


def b_implies(ip, st, args, kwargs):
    a, b = args
    ta, tb = ip.truth(a, st), ip.truth(b, st)
    if isinstance(ta, bool):
        return (tb if isinstance(tb, bool) else mk(tb, 'bool')) if ta else True
    if isinstance(tb, bool):
        return True if tb else mk(z3.Not(ta), 'bool')
    return mk(z3.Implies(ta, tb), 'bool')


def b_iff(ip, st, args, kwargs):
    a, b = args
    ta, tb = ip._z(ip.truth(a, st)), ip._z(ip.truth(b, st))
    return mk(ta == tb, 'bool')


def b_bin(ip, st, args, kwargs):
    (v,) = args
    if isinstance(v, int):
        return bin(v)
    # only len(bin(p)) is ever used: keep an opaque string with the right length via bitlen spec
    r = fresh('bin', 'str')
    bl = ip.specs.call(ip, st, 'bitlen', [v], {})
    x = I(v)
    st.pc.append(z3.Length(r.t) == z3.If(x > 0, I(bl) + 2, z3.If(x == 0, 3, I(bl) + 3)))
    return r


def b_type(ip, st, args, kwargs):
    names = classify(ip, st, args[0])
    for n in ('bool', 'int', 'str', 'bytes', 'list', 'dict', 'tuple', 'NoneType'):
        if n in names:
            return Builtin(n)
    raise Unsupported('type()')


def b_float(ip, st, args, kwargs):
    v = args[0]
    if isinstance(v, (int, float, str)):
        try:
            return float(v)
        except ValueError as e:
            _raise('ValueError', str(e))
    raise Unsupported('float of symbolic')


def b_callable(ip, st, args, kwargs):
    return isinstance(args[0], (FuncRef, BoundMethod, Builtin, ClassRef))


def b_chr8(ip, st, args, kwargs):
    """spec primitive: the one-byte string of a value 0..255"""
    (v,) = args
    if isinstance(v, int):
        return bytes([v % 256])
    return mk(byte_str(st, I(v) % 256), 'bytes')


def b_all_bytes(ip, st, args, kwargs):
    """spec primitive: every byte of b equals c"""
    b, c = args
    if isinstance(b, bytes) and isinstance(c, int):
        return all(x == c for x in b)
    return mk(z3.InRe(S(b), z3.Star(z3.Re(zstr(bytes([c]))))), 'bool')


def b_ghost(ip, st, args, kwargs):
    """spec primitive: value of a ghost variable"""
    return st.ghost[args[0]]


def b_is_blank(ip, st, args, kwargs):
    """spec primitive: the string consists of white space only (what `len(s.strip()) == 0` tests)"""
    (v,) = args
    if isinstance(v, str):
        return len(v.strip()) == 0
    return mk(z3.InRe(S(v), z3.Star(char_class(WS))), 'bool')


def b_latin(ip, st, args, kwargs):
    """spec primitive: a bytes value read as text with the same code points (latin-1)"""
    (v,) = args
    if isinstance(v, bytes):
        return v.decode('latin-1')
    return mk(S(v), 'str')


def b_in_ascii(ip, st, args, kwargs):
    """spec primitive: every byte / character is below 128"""
    (v,) = args
    if isinstance(v, (bytes, str)):
        return all((c if isinstance(c, int) else ord(c)) < 128 for c in v)
    return mk(z3.InRe(S(v), z3.Star(z3.Range(zstr('\x00'), zstr('\x7f')))), 'bool')


BUILTIN_IMPL = {
    'ghost': b_ghost, 'is_blank': b_is_blank, 'latin': b_latin, 'in_ascii': b_in_ascii,
    'chr8': b_chr8, 'all_bytes': b_all_bytes,
    'len': b_len, 'range': b_range, 'ord': b_ord, 'chr': b_chr, 'int': b_int, 'str': b_str, 'bool': b_bool,
    'bytes': b_bytes, 'bytearray': b_bytearray, 'isinstance': b_isinstance, 'max': b_max, 'min': b_min,
    'sorted': b_sorted, 'enumerate': b_enumerate, 'list': b_list, 'tuple': b_tuple, 'dict': b_dict, 'set': b_set,
    'any': b_any, 'all': b_all, 'getattr': b_getattr, 'hasattr': b_hasattr, 'print': b_print, 'repr': b_repr,
    'abs': b_abs, 'pow': b_pow, 'sum': b_sum, 'zip': b_zip, 'implies': b_implies, 'iff': b_iff, 'bin': b_bin, 'type': b_type,
    'float': b_float, 'callable': b_callable,
}


# ------------------------------------------------------------------------------------------------ str / bytes methods
def str_strip(ip, st, v, chars, side, ty):
    """strip/lstrip/rstrip.  r is characterised by: v == lead ++ r ++ trail, lead/trail in C*, r does not start
    (resp. end) with a char of C.  (Unique, hence functional.)"""
    if chars is None:
        cs = WS
    else:
        if is_sym(chars):
            raise Unsupported('strip with symbolic chars')
        cs = chars if isinstance(chars, str) else ''.join(chr(b) for b in chars)
    if not is_sym(v):
        if side == 'both':
            return v.strip(chars)
        return v.lstrip(chars) if side == 'l' else v.rstrip(chars)
    s = S(v)
    if cs == '':
        return v
    C = char_class(cs)
    # r, lead, trail are *functions* of (s, side, chars): equal arguments give equal results
    tag = '%s_%s' % (side, '_'.join('%02x' % ord(c) for c in cs))
    F = lambda nm: z3.Function('strip_%s_%s' % (nm, tag), z3.StringSort(), z3.StringSort())
    r = F('r')(s)
    lead = F('lead')(s) if side in ('both', 'l') else None
    trail = F('trail')(s) if side in ('both', 'r') else None
    parts = [p for p in (lead, r, trail) if p is not None]
    st.pc.append(s == (z3.Concat(*parts) if len(parts) > 1 else parts[0]))
    if lead is not None:
        st.pc.append(z3.InRe(lead, z3.Star(C)))
        st.pc.append(z3.Not(z3.InRe(z3.SubString(r, 0, 1), C)))
    if trail is not None:
        st.pc.append(z3.InRe(trail, z3.Star(C)))
        st.pc.append(z3.Not(z3.InRe(z3.SubString(r, z3.Length(r) - 1, 1), C)))
    if side == 'both':
        st.pc.append((z3.Length(r) == 0) == z3.InRe(s, z3.Star(C)))
    return mk(r, ty)


SPLIT_DEPTH = 3


def _flatten_concat(t):
    if z3.is_app(t) and t.decl().kind() == z3.Z3_OP_SEQ_CONCAT:
        out = []
        for c in t.children():
            out.extend(_flatten_concat(c))
        return out
    return [t]


def _free_of(st, piece, sep):
    """is `piece` known (syntactically, from the path condition) not to contain the one-character separator?"""
    if z3.is_string_value(piece):
        return sep not in piece.as_string()
    zsep = zstr(sep)
    for f in st.pc:
        if z3.is_not(f):
            g = f.arg(0)
            if z3.is_app(g) and g.decl().kind() == z3.Z3_OP_SEQ_CONTAINS and g.arg(0).eq(piece) and g.arg(1).eq(zsep):
                return True
        elif z3.is_app(f) and f.decl().kind() == z3.Z3_OP_SEQ_IN_RE and f.arg(0).eq(piece):
            # membership in a language over digits only
            if sep not in '0123456789' and _digits_only(f.arg(1)):
                return True
    return False


def _digits_only(r):
    k = r.decl().kind()
    if k == z3.Z3_OP_RE_RANGE:
        a, b = r.arg(0), r.arg(1)
        return z3.is_string_value(a) and z3.is_string_value(b) and a.as_string() == '0' and b.as_string() == '9'
    if k in (z3.Z3_OP_RE_PLUS, z3.Z3_OP_RE_STAR, z3.Z3_OP_RE_CONCAT, z3.Z3_OP_RE_UNION, z3.Z3_OP_RE_OPTION):
        return all(_digits_only(c) for c in r.children())
    return False


def structural_split(st, s, sep, ty):
    """exact split of a string that is *syntactically* a concatenation of literal separators and pieces known not to
    contain the (one-character) separator: no solver reasoning needed, and the result has a concrete spine"""
    if len(sep) != 1:
        return None
    pieces = _flatten_concat(s)
    fields = [[]]
    for p in pieces:
        if z3.is_string_value(p):
            txt = p.as_string()
            if '\\' in txt:
                return None
            segs = txt.split(sep)
            for i, seg in enumerate(segs):
                if i:
                    fields.append([])
                if seg:
                    fields[-1].append(zstr(seg))
            continue
        if not _free_of(st, p, sep):
            return None
        fields[-1].append(p)
    out = []
    for f in fields:
        if not f:
            out.append('' if ty == 'str' else b'')
        elif len(f) == 1:
            out.append(mk(f[0], ty))
        else:
            out.append(mk(z3.Concat(*f), ty))
    return out


def str_split(ip, st, v, sep, maxsplit, ty):
    """s.split(sep[, maxsplit]) with a concrete non-empty separator.  The result is a fresh sequence constrained by
    sound facts unfolded SPLIT_DEPTH fields deep: field k is the text up to the next separator, the list ends at the
    first field whose remainder has no separator (or at maxsplit)."""
    if sep is None:
        raise Unsupported('split() on whitespace with symbolic string')
    if is_sym(sep):
        raise Unsupported('split with symbolic separator')
    if len(sep) == 0:
        _raise('ValueError', 'empty separator')
    if not is_sym(v):
        return [x for x in (v.split(sep) if maxsplit is None else v.split(sep, maxsplit))]
    s = S(v)
    zsep = zstr(sep)
    n = len(sep)
    if maxsplit is None:
        parts = structural_split(st, s, sep, ty)
        if parts is not None:
            return parts
    if maxsplit is None and ty == 'str':
        # the uninterpreted spec function split(s, sep) (so equal inputs give equal lists), constrained by sound facts
        parts = ip.specs.call(ip, st, 'split', [v, sep], {}).t
        st.pc.append(S(ip.specs.call(ip, st, 'join', [sep, Sym(parts, ('list', 'str'))], {})) == s)
    else:
        parts = z3.Const(fresh('split', 'int').t.decl().name() + '_l', z3.SeqSort(z3.StringSort()))
    rest = s
    st.pc.append(z3.Length(parts) >= 1)
    depth = SPLIT_DEPTH if maxsplit is None else min(SPLIT_DEPTH, maxsplit + 1)
    prev_more = z3.BoolVal(True)     # "field k exists"
    for k in range(depth):
        has = z3.Contains(rest, zsep)
        idx = z3.IndexOf(rest, zsep, 0)
        last_allowed = (maxsplit is not None and k == maxsplit)
        if last_allowed:
            st.pc.append(z3.Implies(prev_more, z3.And(z3.Length(parts) == k + 1, parts[k] == rest)))
            break
        st.pc.append(z3.Implies(prev_more, parts[k] == z3.If(has, z3.SubString(rest, 0, idx), rest)))
        st.pc.append(z3.Implies(prev_more, (z3.Length(parts) == k + 1) == z3.Not(has)))
        st.pc.append(z3.Implies(z3.And(prev_more, has), z3.Length(parts) >= k + 2))
        prev_more = z3.And(prev_more, has)
        rest = z3.SubString(rest, idx + n, z3.Length(rest) - idx - n)
    if maxsplit is not None:
        st.pc.append(z3.Length(parts) <= maxsplit + 1)
    return ('$symlist', parts, ty)


def str_join(ip, st, sep, it):
    seq = ops.concrete_iter(ip, st, it)
    if seq is not None:
        if all(isinstance(x, (str, bytes)) for x in seq) and not is_sym(sep):
            return sep.join(seq)
        parts = []
        for i, x in enumerate(seq):
            if type_of(x, st) not in ('str', 'bytes'):
                _raise('TypeError', 'sequence item: expected str instance')
            if i:
                parts.append(sep)
            parts.append(x)
        if not parts:
            return '' if sty(sep) == 'str' else b''
        ts = [S(p) for p in parts]
        return mk(ts[0] if len(ts) == 1 else z3.Concat(*ts), sty(sep))
    sv = ops.seq_view(ip, st, it)
    if sv is None or sv[1] not in ('str', 'bytes'):
        raise Unsupported('join over %r' % (it,))
    return ip.specs.call(ip, st, 'join', [sep, Sym(sv[0], ('list', sv[1]))], {})


def str_encode(ip, st, v, enc='utf-8', errors='strict'):
    if not is_sym(v):
        try:
            return v.encode(enc, errors)
        except UnicodeEncodeError as e:
            _raise('UnicodeEncodeError', str(e))
    if enc in ('ascii',):
        s = S(v)
        ip.cond_raise(st, z3.Not(z3.InRe(s, z3.Star(z3.Range(zstr('\x00'), zstr('\x7f'))))), 'UnicodeEncodeError')
        return mk(s, 'bytes')
    if enc in ('utf-8', 'utf8'):
        # exact on ASCII text; otherwise an opaque bytes value related to v by the (assumed injective) spec utf8()
        s = S(v)
        asc = z3.InRe(s, z3.Star(z3.Range(zstr('\x00'), zstr('\x7f'))))
        r = ip.specs.call(ip, st, 'utf8', [v], {})
        st.pc.append(z3.Implies(asc, S(r) == s))
        return r
    raise Unsupported('encode(%r)' % enc)


def bytes_decode(ip, st, v, enc='utf-8', errors='strict'):
    if not is_sym(v):
        try:
            return v.decode(enc, errors)
        except UnicodeDecodeError as e:
            _raise('UnicodeDecodeError', str(e))
    s = S(v)
    asc = z3.InRe(s, z3.Star(z3.Range(zstr('\x00'), zstr('\x7f'))))
    if enc == 'ascii':
        if errors == 'strict':
            ip.cond_raise(st, z3.Not(asc), 'UnicodeDecodeError')
            return mk(s, 'str')
        raise Unsupported('ascii decode with errors=%r' % errors)
    if enc in ('utf-8', 'utf8'):
        if errors == 'strict':
            valid = ip.specs.call(ip, st, 'utf8_valid', [v], {})
            st.pc.append(z3.Implies(asc, B(valid)))
            ip.cond_raise(st, z3.Not(B(valid)), 'UnicodeDecodeError')
        r = ip.specs.call(ip, st, 'utf8_decode_replace', [v], {})
        st.pc.append(z3.Implies(asc, S(r) == s))
        return r
    raise Unsupported('decode(%r)' % enc)


def find_last(st, s, sub, ty):
    """rfind: index of the last occurrence or -1 (characterised with a fresh int)"""
    r = fresh('rfind', 'int').t
    n = len(sub) if not is_sym(sub) else None
    zsub = S(sub)
    ln = z3.Length(zsub)
    st.pc.append(z3.Implies(z3.Not(z3.Contains(s, zsub)), r == -1))
    st.pc.append(z3.Implies(z3.Contains(s, zsub), z3.And(
        r >= 0, r + ln <= z3.Length(s), z3.SubString(s, r, ln) == zsub,
        z3.Not(z3.Contains(z3.SubString(s, r + 1, z3.Length(s) - r - 1), zsub)))))
    return r


def call_str_method(ip, st, recv, name, args, kwargs):
    ty = sty(recv)
    anysym = is_sym(recv) or any(is_sym(a) for a in args) or any(is_sym(a) for a in kwargs.values())
    anyref = any(isinstance(a, (Ref, tuple)) and not _concrete_deep(st, a) for a in args)
    if name == 'format':
        if is_sym(recv):
            raise Unsupported('symbolic format string')
        return ops.str_format(ip, st, recv, args, kwargs)
    if name == 'join':
        return str_join(ip, st, recv, args[0])
    if not anysym and not anyref:
        # fully concrete: CPython does it
        cargs = [_to_py(st, a) for a in args]
        try:
            r = getattr(recv, name)(*cargs, **kwargs)
        except (ValueError, UnicodeDecodeError, UnicodeEncodeError, IndexError, TypeError) as e:
            _raise(type(e).__name__, str(e))
        if isinstance(r, list):
            return st.new_list(r)
        return r
    s = S(recv)
    if name in ('startswith', 'endswith'):
        a = args[0]
        alts = a if isinstance(a, tuple) else (a,)
        r = False
        for x in alts:
            t = z3.PrefixOf(S(x), s) if name == 'startswith' else z3.SuffixOf(S(x), s)
            r = zor(r, mk(t, 'bool'))
        return r
    if name in ('strip', 'lstrip', 'rstrip'):
        side = {'strip': 'both', 'lstrip': 'l', 'rstrip': 'r'}[name]
        return str_strip(ip, st, recv, args[0] if args else None, side, ty)
    if name == 'split':
        sep = args[0] if args else kwargs.get('sep')
        maxsplit = args[1] if len(args) > 1 else kwargs.get('maxsplit')
        if maxsplit is not None and (is_sym(maxsplit) or maxsplit < 0):
            raise Unsupported('split maxsplit')
        r = str_split(ip, st, recv, sep, maxsplit, ty)
        if isinstance(r, list):
            return st.new_list(r)
        return st.new_symlist(r[1], r[2])
    if name == 'find':
        if len(args) != 1:
            raise Unsupported('find with start')
        return mk(z3.IndexOf(s, S(args[0]), 0), 'int')
    if name == 'index':
        if len(args) != 1:
            raise Unsupported('index with start')
        ip.cond_raise(st, z3.Not(z3.Contains(s, S(args[0]))), 'ValueError', 'substring not found')
        return mk(z3.IndexOf(s, S(args[0]), 0), 'int')
    if name in ('rfind', 'rindex'):
        if len(args) != 1:
            raise Unsupported('rfind with start')
        if name == 'rindex':
            ip.cond_raise(st, z3.Not(z3.Contains(s, S(args[0]))), 'ValueError', 'substring not found')
        return mk(find_last(st, s, args[0], ty), 'int')
    if name == 'encode':
        return str_encode(ip, st, recv, *(args or ['utf-8']), **kwargs)
    if name == 'decode':
        return bytes_decode(ip, st, recv, *(args or ['utf-8']), **kwargs)
    if name == 'replace':
        if len(args) != 2:
            raise Unsupported('replace with count')
        if is_sym(args[0]) or len(args[0]) == 0:
            raise Unsupported('replace pattern')
        return ip.specs.call(ip, st, 'replace_all', [recv, args[0], args[1]], {})
    if name == 'isdigit':
        # ASCII digits only for modelled inputs (stated): non-ASCII unicode digits are outside the model
        return mk(z3.InRe(s, z3.Plus(digits_re())), 'bool')
    if name in ('lower', 'upper', 'casefold'):
        return ip.specs.call(ip, st, 'lower' if name != 'upper' else 'upper', [recv], {})
    if name == 'count':
        raise Unsupported('count on symbolic string')
    if name == 'hex' and not args:
        # bytes.hex(): an unconstrained string of twice the length (over-approximation: only its length is known)
        h = fresh('hex', 'str')
        st.assume(z3.Length(h.t) == 2 * z3.Length(s))
        return h
    raise Unsupported('str method %s on symbolic value' % name)


def _concrete_deep(st, v):
    if is_sym(v):
        return False
    if isinstance(v, tuple):
        return all(_concrete_deep(st, x) for x in v)
    if isinstance(v, Ref):
        p = st.get(v)
        if isinstance(p, LObj):
            return p.items is not None and all(_concrete_deep(st, x) for x in p.items)
        return False
    return True


def _to_py(st, v):
    if isinstance(v, Ref):
        p = st.get(v)
        if isinstance(p, LObj) and p.items is not None:
            return [_to_py(st, x) for x in p.items]
        raise Unsupported('cannot pass %r to CPython' % (p,))
    if isinstance(v, tuple):
        return tuple(_to_py(st, x) for x in v)
    return v


# ------------------------------------------------------------------------------------------------ container methods
def call_list_method(ip, st, ref, p, name, args, kwargs):
    if name == 'append':
        ops.list_append(ip, st, ref, args[0])
        return None
    if name == 'extend':
        ops.list_extend(ip, st, ref, args[0])
        return None
    if name == 'insert':
        i, v = args
        if p.items is not None and not is_sym(i):
            st.mut(ref).items.insert(i, v)
            return None
        raise Unsupported('insert into symbolic list')
    if name == 'index':
        x = args[0]
        if p.items is not None:
            for k, y in enumerate(p.items):
                e = ops.equals(ip, st, x, y)
                if e is True:
                    return k
                if e is not False:
                    if ip.branch(st, e):
                        return k
            _raise('ValueError', 'x not in list')
        raise Unsupported('index on symbolic list')
    if name == 'sort':
        if p.items is not None and all(not is_sym(x) and not isinstance(x, Ref) for x in p.items) and not kwargs:
            st.mut(ref).items.sort()
            return None
        if p.items is not None and len(p.items) <= 1:
            return None
        # a sorted permutation of a symbolic list: opaque (only order-insensitive facts are kept): assumed model
        tl = type_of(ref, st)
        if tl is None:
            raise Unsupported('sort of untyped list')
        old = lift(ref, st, tl)
        new = z3.Const(fresh('sorted', 'int').t.decl().name() + '_l', sort_of(tl))
        x = z3.Const('x!sort', sort_of(tl[1]))
        st.pc.append(z3.Length(new) == z3.Length(old))
        st.pc.append(z3.ForAll([x], z3.Contains(new, z3.Unit(x)) == z3.Contains(old, z3.Unit(x))))
        m = st.mut(ref)
        m.items, m.sym, m.elty = None, new, tl[1]
        ip.assumed.add('list.sort(): result is a same-length permutation-by-membership of the input (order facts dropped)')
        return None
    if name == 'pop':
        if p.items is not None and (not args or not is_sym(args[0])):
            try:
                return st.mut(ref).items.pop(*args)
            except IndexError:
                _raise('IndexError', 'pop from empty list')
        raise Unsupported('pop on symbolic list')
    if name == 'remove':
        if p.items is not None and _concrete_deep(st, ref) and not is_sym(args[0]):
            try:
                st.mut(ref).items.remove(args[0])
            except ValueError:
                _raise('ValueError', 'list.remove(x): x not in list')
            return None
        raise Unsupported('remove on symbolic list')
    if name == 'copy':
        return st.alloc(p.copy())
    if name == 'count':
        if p.items is not None and _concrete_deep(st, ref) and not is_sym(args[0]):
            return p.items.count(args[0])
        raise Unsupported('count on symbolic list')
    if name == 'reverse':
        if p.items is not None:
            st.mut(ref).items.reverse()
            return None
    raise Unsupported('list method %s' % name)


def call_dict_method(ip, st, ref, p, name, args, kwargs):
    if name == 'get':
        k = args[0]
        default = args[1] if len(args) > 1 else None
        if not is_sym(k):
            try:
                return p.d.get(k, default)
            except TypeError:
                raise Unsupported('unhashable key')
        c = ops.contains(ip, st, ref, k)
        if c is False:
            return default
        if ip.branch(st, c):
            return ops.getitem(ip, st, ref, k)
        return default
    if name == 'keys':
        return st.new_obj('<dict_keys>', {'d': ref})
    if name == 'values':
        return st.new_obj('<dict_values>', {'d': ref})
    if name == 'items':
        return st.new_obj('<dict_items>', {'d': ref})
    if name == 'update':
        o = args[0]
        if isinstance(o, Ref) and isinstance(st.get(o), DObj):
            st.mut(ref).d.update(st.get(o).d)
            return None
        raise Unsupported('dict.update')
    if name == 'pop':
        k = args[0]
        if is_sym(k):
            raise Unsupported('pop symbolic key')
        if k in p.d:
            return st.mut(ref).d.pop(k)
        if len(args) > 1:
            return args[1]
        _raise('KeyError', k)
    if name == 'setdefault':
        k = args[0]
        if is_sym(k):
            raise Unsupported('setdefault symbolic key')
        if k not in p.d:
            st.mut(ref).d[k] = args[1] if len(args) > 1 else None
        return st.get(ref).d[k]
    if name == 'copy':
        return st.alloc(p.copy())
    raise Unsupported('dict method %s' % name)


def unwrap_opt(ip, st, v, exc='TypeError'):
    """an Optional value used where a value is required: `exc` if it is None, else the value"""
    if isinstance(v, Sym) and is_opt(v.ty):
        ip.cond_raise(st, opt_is_none(v.ty, v.t), exc, 'NoneType')
        return mk(opt_val(v.ty, v.t), v.ty[1])
    return v


def call_method(ip, st, recv, name, args, kwargs):
    """method call on a non-repository receiver"""
    recv = unwrap_opt(ip, st, recv, 'AttributeError')
    if isinstance(name, tuple) and name[0] == '$dyn':
        # getattr(obj, <symbolic name>)(...): dispatch over the candidates the model supplies
        mm = ip.models.get('$dyn_method')
        if mm is None:
            raise Unsupported('dynamic method name')
        return mm(ip, st, recv, name[1], args, kwargs)
    if isinstance(recv, (str, bytes)) or (isinstance(recv, Sym) and recv.ty in ('str', 'bytes')):
        return call_str_method(ip, st, recv, name, args, kwargs)
    if isinstance(recv, int) or (isinstance(recv, Sym) and recv.ty == 'int'):
        if name == 'bit_length':
            if isinstance(recv, int):
                return recv.bit_length()
            return ip.specs.call(ip, st, 'bitlen', [recv], {})
        if name == 'to_bytes':
            raise Unsupported('int.to_bytes')
    if isinstance(recv, tuple):
        if name == 'index' and _concrete_deep(st, recv) and not is_sym(args[0]):
            try:
                return recv.index(args[0])
            except ValueError:
                _raise('ValueError', 'tuple.index(x): x not in tuple')
        if name == 'index':
            x = args[0]
            for k, y in enumerate(recv):
                e = ops.equals(ip, st, x, y)
                if e is True:
                    return k
                if e is not False and ip.branch(st, e):
                    return k
            _raise('ValueError', 'tuple.index(x): x not in tuple')
        if name == 'count' and _concrete_deep(st, recv) and not is_sym(args[0]):
            return recv.count(args[0])
    if isinstance(recv, Ref):
        p = st.get(recv)
        if isinstance(p, LObj):
            return call_list_method(ip, st, recv, p, name, args, kwargs)
        if isinstance(p, DObj):
            return call_dict_method(ip, st, recv, p, name, args, kwargs)
        if isinstance(p, SetObj):
            if name == 'add':
                if is_sym(args[0]):
                    raise Unsupported('symbolic set member')
                if args[0] not in p.s:
                    st.mut(recv).s.append(args[0])
                return None
            raise Unsupported('set method %s' % name)
        if isinstance(p, Obj):
            mm = ip.method_models.get((p.cls, name))
            if mm is not None:
                return mm(ip, st, recv, args, kwargs)
            if p.cls == '<BytesIO>':
                return bytesio_method(ip, st, recv, p, name, args, kwargs)
            if p.cls == '<match>':
                return match_method(ip, st, recv, args, kwargs, name)
            if p.cls == '<pattern>' and name == 'match':
                return m_re_match(ip, st, [recv] + list(args), kwargs)
            if p.cls == '<bytearray>':
                return bytearray_method(ip, st, recv, p, name, args, kwargs)
    if isinstance(recv, Builtin) and recv.name == 'super':
        return None     # super().__init__() of object
    if recv is None:
        _raise('AttributeError', "'NoneType' object has no attribute '%s'" % name)
    raise Unsupported('method %s on %r' % (name, recv))


# ------------------------------------------------------------------------------------------------ io.BytesIO / bytearray
def m_BytesIO(ip, st, args, kwargs):
    data = args[0] if args else b''
    if data is None:
        data = b''
    # io.BytesIO(initial) positions the cursor at 0
    return st.new_obj('<BytesIO>', {'data': data, 'pos': 0})


def bytesio_method(ip, st, ref, p, name, args, kwargs):
    data, pos = p.f['data'], p.f['pos']
    if name == 'tell':
        return pos
    if name == 'getvalue':
        return data
    if name == 'read':
        n = args[0] if args else None
        s = S(data)
        ln = z3.Length(s)
        if n is None or (isinstance(n, int) and n < 0):
            if not is_sym(data) and not is_sym(pos):
                r = data[pos:]
                st.mut(ref).f['pos'] = max(pos, len(data))
                return r
            r = mk(z3.SubString(s, I(pos), ln - I(pos)), 'bytes')
            st.mut(ref).f['pos'] = mk(zmax(I(pos), ln), 'int')
            return r
        if not is_sym(data) and not is_sym(pos) and not is_sym(n):
            r = data[pos:pos + n]
            st.mut(ref).f['pos'] = pos + len(r)
            return r
        nn = I(n)
        cnt = z3.If(nn < 0, ln - I(pos), nn)
        r = z3.SubString(s, I(pos), cnt)       # truncated at the end of data, "" when pos >= len
        st.mut(ref).f['pos'] = mk(I(pos) + z3.Length(r), 'int')
        return mk(r, 'bytes')
    if name == 'write':
        b = args[0]
        if isinstance(b, Ref):
            b = b_bytes(ip, st, [b], {})
        # only append-at-end writes are modelled (all WriteBuf uses): pos == len(data)
        if not is_sym(data) and not is_sym(pos):
            if pos != len(data):
                raise Unsupported('BytesIO.write not at end')
        else:
            ip.cond_raise(st, I(pos) != z3.Length(S(data)), 'Unsupported:BytesIO.write-not-at-end')
        nd = ops.binop(ip, st, ast.Add(), data, b)
        m = st.mut(ref)
        m.f['data'] = nd
        m.f['pos'] = b_len(ip, st, [nd], {})
        return b_len(ip, st, [b], {})
    if name == 'truncate':
        size = args[0] if args else pos
        if is_sym(size):
            raise Unsupported('truncate symbolic')
        if size == 0:
            st.mut(ref).f['data'] = b''
            return 0
        raise Unsupported('truncate(n)')
    if name == 'seek':
        if len(args) == 1 and not is_sym(args[0]):
            if args[0] == 0 and not is_sym(data) and len(data) == 0:
                st.mut(ref).f['pos'] = 0
                return 0
            st.mut(ref).f['pos'] = args[0]
            return args[0]
        raise Unsupported('seek')
    if name == 'readline':
        if not is_sym(data) and not is_sym(pos):
            i = data.find(b'\n', pos)
            end = len(data) if i < 0 else i + 1
            r = data[pos:end]
            st.mut(ref).f['pos'] = max(pos, end)
            return r
        s = S(data)
        rest = z3.SubString(s, I(pos), z3.Length(s) - I(pos))
        idx = z3.IndexOf(rest, zstr(b'\n'), 0)
        r = z3.If(idx < 0, rest, z3.SubString(rest, 0, idx + 1))
        st.mut(ref).f['pos'] = mk(I(pos) + z3.Length(r), 'int')
        return mk(r, 'bytes')
    raise Unsupported('BytesIO.%s' % name)


def bytearray_method(ip, st, ref, p, name, args, kwargs):
    val = p.f['val']
    if name == 'append':
        i = args[0]
        if isinstance(i, int):
            if not 0 <= i < 256:
                _raise('ValueError', 'byte must be in range(0, 256)')
            ch = bytes([i])
            nv = ops.binop(ip, st, ast.Add(), val, ch)
        else:
            x = I(i)
            ip.cond_raise(st, z3.Or(x < 0, x >= 256), 'ValueError', 'byte must be in range(0, 256)')
            nv = mk(z3.Concat(S(val), byte_str(st, x)), 'bytes')
        st.mut(ref).f['val'] = nv
        return None
    if name == 'decode':
        return bytes_decode(ip, st, val, *(args or ['utf-8']), **kwargs)
    if name == 'extend':
        b = args[0]
        st.mut(ref).f['val'] = ops.binop(ip, st, ast.Add(), val, b)
        return None
    raise Unsupported('bytearray.%s' % name)


# ------------------------------------------------------------------------------------------------ struct
STRUCT_FMT = {'B': (1, False), 'b': (1, True), '>B': (1, False), '>b': (1, True), '>H': (2, False), '>h': (2, True),
              '>I': (4, False), '>i': (4, True), '>Q': (8, False), '>q': (8, True), '>L': (4, False), '>l': (4, True),
              '!I': (4, False), '!H': (2, False)}


def be_value(st, s, n, ty='bytes'):
    """big-endian value of the first n bytes of s (z3 String)"""
    t = z3.IntVal(0)
    for j in range(n):
        t = t * 256 + code_at(st, s, z3.IntVal(j), ty)
    return t


def byte_str(st, x):
    """the one-byte string with code x (0 <= x < 256 by construction); redundant but helpful facts are stated"""
    c = z3.StrFromCode(x)
    if st is not None:
        st.pc.append(z3.Length(c) == 1)
        st.pc.append(z3.StrToCode(c) == x)
        st.pc.append(z3.Implies(x < 128, z3.InRe(c, z3.Range(zstr('\x00'), zstr('\x7f')))))
    return c


def be_bytes(x, n, st=None):
    """n-byte big-endian string of z3 Int x (0 <= x < 256^n)"""
    parts = [byte_str(st, (x / (256 ** (n - 1 - j))) % 256) for j in range(n)]
    return parts[0] if n == 1 else z3.Concat(*parts)


def parse_fmt(fmt):
    """-> list of (size, signed) ; only big-endian/network fixed formats"""
    if is_sym(fmt):
        raise Unsupported('symbolic struct format')
    order = '>'
    body = fmt
    if fmt and fmt[0] in '><!=@':
        order = fmt[0]
        body = fmt[1:]
    if order not in ('>', '!'):
        if body in ('B', 'b'):
            order = '>'
        else:
            raise Unsupported('struct byte order %r' % order)
    out = []
    num = ''
    for ch in body:
        if ch.isdigit():
            num += ch
            continue
        k = int(num) if num else 1
        num = ''
        ent = STRUCT_FMT.get('>' + ch)
        if ent is None:
            raise Unsupported('struct code %r' % ch)
        out.extend([ent] * k)
    return out


def m_struct_unpack(ip, st, args, kwargs):
    fmt, data = args
    fmt = ip.concretize(st, fmt)
    fields = parse_fmt(fmt)
    total = sum(n for n, _ in fields)
    if isinstance(data, bytes):
        import struct
        try:
            return struct.unpack(fmt, data)
        except struct.error as e:
            _raise('struct.error', str(e))
    s = S(data)
    ip.cond_raise(st, z3.Length(s) != total, 'struct.error', 'unpack requires a buffer of %d bytes' % total)
    out = []
    off = 0
    for n, signed in fields:
        sub = s if (off == 0 and total == n) else z3.SubString(s, off, n)
        v = be_value(st, sub, n)
        if signed:
            v = z3.If(v >= 256 ** n // 2, v - 256 ** n, v)
        out.append(mk(v, 'int'))
        off += n
    return tuple(out)


def m_struct_pack(ip, st, args, kwargs):
    fmt = ip.concretize(st, args[0])
    vals = list(args[1:])
    fields = parse_fmt(fmt)
    if len(fields) != len(vals):
        _raise('struct.error', 'pack expected %d items for packing (got %d)' % (len(fields), len(vals)))
    if all(isinstance(v, int) for v in vals):
        import struct
        try:
            return struct.pack(fmt, *vals)
        except struct.error as e:
            _raise('struct.error', str(e))
    parts = []
    for (n, signed), v in zip(fields, vals):
        if type_of(v, st) not in ('int', 'bool'):
            _raise('struct.error', 'required argument is not an integer')
        x = I(v)
        lo, hi = (-(256 ** n) // 2, 256 ** n // 2) if signed else (0, 256 ** n)
        ip.cond_raise(st, z3.Or(x < lo, x >= hi), 'struct.error', 'argument out of range')
        if signed:
            x = z3.If(x < 0, x + 256 ** n, x)
        parts.append(be_bytes(x, n, st))
    return mk(parts[0] if len(parts) == 1 else z3.Concat(*parts), 'bytes')


def m_sys_exit(ip, st, args, kwargs):
    _raise('SystemExit', *(args[:1] if args else [None]))


def m_format_exc(ip, st, args, kwargs):
    return fresh('traceback', 'str')


def m_hexlify(ip, st, args, kwargs):
    (v,) = args
    if isinstance(v, bytes):
        import binascii
        return binascii.hexlify(v)
    r = fresh('hex', 'bytes')
    st.pc.append(z3.Length(r.t) == 2 * z3.Length(S(v)))
    hx = dict(st.ghost.get('$hexof', {}))
    hx[r.t.get_id()] = v
    st.ghost['$hexof'] = hx
    return r


def m_deepcopy(ip, st, args, kwargs):
    return deep_copy(ip, st, args[0], {})


def deep_copy(ip, st, v, memo, engine=False):
    if isinstance(v, tuple):
        return tuple(deep_copy(ip, st, x, memo, engine) for x in v)
    if isinstance(v, Ref):
        if v.oid in memo:
            return memo[v.oid]
        p = st.get(v)
        if isinstance(p, LObj):
            r = st.alloc(LObj(None, p.sym, p.elty, p.kind) if p.items is None else LObj([], None, p.elty, p.kind))
            memo[v.oid] = r
            if p.items is not None:
                st.get(r).items.extend(deep_copy(ip, st, x, memo, engine) for x in p.items)
            return r
        if isinstance(p, DObj):
            r = st.alloc(DObj({}))
            memo[v.oid] = r
            for k, x in p.d.items():
                st.get(r).d[k] = deep_copy(ip, st, x, memo, engine)
            return r
        if isinstance(p, SetObj):
            r = st.alloc(SetObj(list(p.s)))
            memo[v.oid] = r
            return r
        if isinstance(p, Obj):
            if not engine and not p.cls.startswith('<') and ip.repo.class_member(p.cls, '__getstate__'):
                raise Unsupported('deepcopy of object with __getstate__ (%s): needs a contract' % p.cls)
            r = st.alloc(Obj(p.cls, {}))
            memo[v.oid] = r
            for k, x in p.f.items():
                st.get(r).f[k] = deep_copy(ip, st, x, memo, engine)
            return r
    return v


def m_SystemRandom(ip, st, args, kwargs):
    # random.SystemRandom(): an opaque generator object; only randrange(start, stop) is modelled (below)
    ip.method_models.setdefault(('<SystemRandom>', 'randrange'), m_randrange)
    return st.new_obj('<SystemRandom>', {})


def m_randrange(ip, st, recv, args, kwargs):
    # randrange(start, stop): ValueError ("empty range") exactly when stop <= start, otherwise ANY integer of [start, stop)
    if len(args) != 2 or kwargs:
        raise Unsupported('randrange() form')
    a, b = I(args[0]), I(args[1])
    ip.assumed.add('random.SystemRandom().randrange(a, b) library model: ValueError iff b <= a, otherwise any integer of [a, b)')
    ip.cond_raise(st, b <= a, 'ValueError', 'empty range for randrange()')
    x = fresh('rand', 'int')
    st.assume(z3.And(x.t >= a, x.t < b))
    return x


def m_urandom(ip, st, args, kwargs):
    # os.urandom(n): ValueError for negative n, otherwise ANY byte string of exactly n bytes
    (n,) = args
    ip.assumed.add('os.urandom(n) library model: ValueError iff n < 0, otherwise any n bytes')
    if isinstance(n, int) and not isinstance(n, bool):
        if n < 0:
            _raise('ValueError', 'negative argument not allowed')
    else:
        ip.cond_raise(st, I(n) < 0, 'ValueError', 'negative argument not allowed')
    r = fresh('urandom', 'bytes')
    st.assume(z3.Length(r.t) == I(n))
    return r


LIB_MODELS = {
    'random.SystemRandom': m_SystemRandom,
    'os.urandom': m_urandom,
    'io.BytesIO': m_BytesIO,
    'struct.unpack': m_struct_unpack,
    'struct.pack': m_struct_pack,
    'sys.exit': m_sys_exit,
    'traceback.format_exc': m_format_exc,
    'binascii.hexlify': m_hexlify,
    'copy.deepcopy': m_deepcopy,
}


def install_models(ip):
    for k, v in LIB_MODELS.items():
        ip.models.setdefault(k, v)


# ------------------------------------------------------------------------------------------------ re (pattern-specific models)
# Python's `re` is a backtracking matcher: which substring a group captures depends on its priority rules.  There is no
# general translation here.  Each pattern the audited code uses gets a hand-derived characterisation of its match
# condition and captures (derivation next to each entry), valid for strings without '\n' (the model refuses others);
# `\d` is taken as [0-9] (inputs are ASCII: stated in the contracts).  The models are cross-checked against CPython's
# `re` on enumerated strings by the encoding cross-check of the thorough tier.
def _re(s):
    return z3.Re(zstr(s))


def _anyc():
    return z3.AllChar(z3.ReSort(z3.StringSort()))


def _any():
    return z3.Star(_anyc())


DIG = z3.Range(z3.StringVal('0'), z3.StringVal('9'))
DIGDOT = z3.Union(DIG, _re('.'))


def rx_dotted_prefix(ip, st, s):
    """r'^([\\d\\.]+\\d+)(.*)$' : group 1 is the longest prefix in [\\d.]+\\d+ (the greedy [\\d.]+ gives back characters
    until a digit follows: that is the last digit of the leading [\\d.]-run), group 2 the rest."""
    R1 = z3.Concat(z3.Plus(DIGDOT), z3.Plus(DIG))
    cond = z3.InRe(s, z3.Concat(R1, _any()))

    def groups():
        g1, g2 = fresh('g1', 'str'), fresh('g2', 'str')
        st.pc.append(s == z3.Concat(g1.t, g2.t))
        st.pc.append(z3.InRe(g1.t, R1))
        st.pc.append(z3.Not(z3.InRe(g2.t, z3.Concat(z3.Star(DIGDOT), DIG, _any()))))
        return (g1, g2)
    return cond, groups


def rx_dotted_prefix1(ip, st, s):
    """r'^([\\d\\.]*\\d+)(.*)$' : as above, but a single digit suffices"""
    R1 = z3.Concat(z3.Star(DIGDOT), z3.Plus(DIG))
    cond = z3.InRe(s, z3.Concat(R1, _any()))

    def groups():
        g1, g2 = fresh('g1', 'str'), fresh('g2', 'str')
        st.pc.append(s == z3.Concat(g1.t, g2.t))
        st.pc.append(z3.InRe(g1.t, R1))
        st.pc.append(z3.Not(z3.InRe(g2.t, z3.Concat(z3.Star(DIGDOT), DIG, _any()))))
        return (g1, g2)
    return cond, groups


def rx_test_digit(ip, st, s):
    """r'^test\\d.*$'"""
    return z3.InRe(s, z3.Concat(_re('test'), DIG, _any())), lambda: ()


def rx_p_digit(ip, st, s):
    """r'^p(\\d).*' : group 1 is the character after the p"""
    return z3.InRe(s, z3.Concat(_re('p'), DIG, _any())), lambda: (mk(z3.SubString(s, 1, 1), 'str'),)


def rx_dotted_decimal(ip, st, s):
    """r'^\\d+(\\.\\d+)*$' (no group is read by the code)"""
    return z3.InRe(s, z3.Concat(z3.Plus(DIG), z3.Star(z3.Concat(_re('.'), z3.Plus(DIG))))), lambda: (None,)


def rx_bracket_host(ip, st, s):
    """r'^\\[([^\\]]+)\\](?::(\\d+))?$' : unambiguous -- group 1 cannot contain ']' so it ends at the first ']';
    group 2 is the digits after the ':' when present"""
    notbr = z3.Complement(z3.Concat(_any(), _re(']'), _any()))
    g1re = z3.Intersect(notbr, z3.Plus(_anyc()))
    full = z3.Concat(_re('['), g1re, _re(']'), z3.Option(z3.Concat(_re(':'), z3.Plus(DIG))))
    cond = z3.InRe(s, full)

    def groups():
        idx = z3.IndexOf(s, zstr(']'), 0)
        g1 = mk(z3.SubString(s, 1, idx - 1), 'str')
        has2 = z3.Length(s) > idx + 1
        rest = z3.SubString(s, idx + 2, z3.Length(s) - idx - 2)
        g2 = Sym(z3.If(has2, opt_some(('opt', 'str'), rest), opt_none(('opt', 'str'))), ('opt', 'str'))
        return (g1, g2)
    return cond, groups


RE_MODELS = {
    r'^([\d\.]+\d+)(.*)$': rx_dotted_prefix,
    r'^([\d\.]*\d+)(.*)$': rx_dotted_prefix1,
    r'^test\d.*$': rx_test_digit,
    r'^p(\d).*': rx_p_digit,
    r'^\d+(\.\d+)*$': rx_dotted_decimal,
    r'^\[([^\]]+)\](?::(\d+))?$': rx_bracket_host,
}


def wrap_native_match(st, m):
    if m is None:
        return None
    return st.new_obj('<match>', {'groups': tuple(m.groups()), 'whole': m.group(0)})


def m_re_match(ip, st, args, kwargs):
    pattern, s = args[0], args[1]
    if len(args) > 2 or kwargs:
        raise Unsupported('re.match flags')
    if isinstance(pattern, Ref):
        p = st.get(pattern)
        if isinstance(p, Obj) and p.cls == '<pattern>':
            pattern = p.f['pattern']
    if is_sym(pattern):
        raise Unsupported('symbolic regular expression')
    if isinstance(s, str):
        import re as _re_mod
        return wrap_native_match(st, _re_mod.match(pattern, s))
    s = lib_unwrap_str(ip, st, s)
    model = RE_MODELS.get(pattern)
    if model is None:
        raise Unsupported('no model for regular expression %r' % pattern)
    zs = S(s)
    for (hp, ht, hcond, hgroups, why) in st.ghost.get('$rx_hints', ()):
        if hp == pattern and ht.eq(zs):
            # an *assumed* decomposition supplied by the contract for this argument (listed in the evidence)
            ip.assumed.add(why)
            if isinstance(hcond, bool):
                return st.new_obj('<match>', {'groups': tuple(hgroups), 'whole': s}) if hcond else None
            if ip.branch(st, hcond):
                return st.new_obj('<match>', {'groups': tuple(hgroups), 'whole': s})
            return None
    ip.cond_raise(st, z3.Contains(zs, zstr('\n')), 'Unsupported:regex-on-multiline-string')
    cond, groups = model(ip, st, zs)
    if ip.branch(st, cond):
        return st.new_obj('<match>', {'groups': tuple(groups()), 'whole': s})
    return None


def lib_unwrap_str(ip, st, s):
    s = unwrap_opt(ip, st, s)
    if type_of(s, st) != 'str':
        _raise('TypeError', 'expected string or bytes-like object')
    return s


def match_method(ip, st, ref, args, kwargs, name):
    p = st.get(ref)
    if name == 'group':
        if not args:
            return p.f['whole']
        if len(args) == 1:
            n = args[0]
            if n == 0:
                return p.f['whole']
            return p.f['groups'][n - 1]
        return tuple(p.f['whole'] if n == 0 else p.f['groups'][n - 1] for n in args)
    if name == 'groups':
        return p.f['groups']
    raise Unsupported('match.%s' % name)


def m_re_compile(ip, st, args, kwargs):
    if is_sym(args[0]) or len(args) > 1:
        raise Unsupported('re.compile')
    return st.new_obj('<pattern>', {'pattern': args[0]})


LIB_MODELS['re.match'] = m_re_match
LIB_MODELS['re.compile'] = m_re_compile
