"""pyvc.solve -- discharge obligations with the installed SMT solvers (every solver call is a subprocess with a hard
time limit; `unknown`, time-outs and crashes are *undecided*, never a refutation)."""
import concurrent.futures
import os
import re
import shutil
import subprocess
import tempfile
import time
import z3

Z3NEW = shutil.which('z3-new') or 'z3-new'
Z3OLD = '/usr/bin/z3'
CVC5 = '/usr/bin/cvc5'


def consts_of(t, cache=None):
    """names of the uninterpreted constants occurring in a term"""
    out = set()
    stack = [t]
    seen = set()
    while stack:
        x = stack.pop()
        i = x.get_id()
        if i in seen:
            continue
        seen.add(i)
        if z3.is_quantifier(x):
            stack.append(x.body())
            continue
        if z3.is_app(x):
            if x.num_args() == 0:
                if x.decl().kind() == z3.Z3_OP_UNINTERPRETED:
                    out.add(x.decl().name())
            else:
                stack.extend(x.children())
    return out


def slice_hyps(hyps, goal):
    """cone of influence: the hypotheses connected to the goal through shared constants (dropping hypotheses is sound
    for `unsat`; a `sat` on the slice is re-checked on the full set)"""
    sym = [consts_of(h) for h in hyps]
    rel = set(consts_of(goal))
    keep = [False] * len(hyps)
    changed = True
    while changed:
        changed = False
        for i, c in enumerate(sym):
            if not keep[i] and (c & rel or (not c and False)):
                keep[i] = True
                if not c <= rel:
                    rel |= c
                changed = True
    return [h for h, k in zip(hyps, keep) if k]


def smt2_of(hyps, goal, extra=()):
    s = z3.Solver()
    for h in hyps:
        s.add(h)
    for h in extra:
        s.add(h)
    s.add(z3.Not(goal))
    return s.to_smt2()


def _run(cmd, timeout):
    t0 = time.time()
    try:
        p = subprocess.run(cmd, capture_output=True, text=True, timeout=timeout + 2)
        out = (p.stdout or '') + (p.stderr or '')
    except subprocess.TimeoutExpired:
        return 'timeout', '', time.time() - t0
    first = ''
    for line in out.splitlines():
        line = line.strip()
        if line in ('sat', 'unsat', 'unknown'):
            first = line
            break
    if not first and ('interrupted by timeout' in out or 'timeout' in out.lower()):
        first = 'timeout'
    if not first:
        first = 'error' if 'error' in out.lower() or p.returncode != 0 else 'unknown'
    return first, out, time.time() - t0


def run_z3new(path, timeout, model=False, seed=0):
    cmd = [Z3NEW, '-T:%d' % timeout, 'sat.random_seed=%d' % seed, 'smt.random_seed=%d' % seed]
    if model:
        cmd.append('-model')
    return _run(cmd + [path], timeout)


def run_z3old(path, timeout, model=False, seed=0):
    cmd = [Z3OLD, '-T:%d' % timeout, 'smt.random_seed=%d' % seed]
    if model:
        cmd.append('-model')
    return _run(cmd + [path], timeout)


def run_cvc5(path, timeout, model=False, seed=0, quant=False):
    cmd = [CVC5, '--lang=smt2', '--strings-exp', '--tlimit=%d' % (timeout * 1000), '--seed=%d' % seed]
    if quant:
        cmd.append('--full-saturate-quant')
    if model:
        cmd.append('--produce-models')
    return _run(cmd + [path], timeout)


def cvc5_text(text):
    """z3's printer -> something cvc5 1.0 parses"""
    t = text
    t = '(set-logic ALL)\n' + t
    t = t.replace('(set-info :status unknown)', '')
    # z3 prints chars as (_ Char N) / (_ char #xNN): rewrite to unit strings where they are arguments of seq.unit
    t = re.sub(r'\(seq\.unit \(_ Char (\d+)\)\)', lambda m: '"\\u{%x}"' % int(m.group(1)), t)
    t = re.sub(r'\(seq\.unit \(_ char #x([0-9a-fA-F]+)\)\)', lambda m: '"\\u{%s}"' % m.group(1), t)
    t = t.replace('seq.nth_i', 'seq.nth').replace('seq.nth_u', 'seq.nth')
    return t


SOLVERS = {
    'z3-new': lambda p, to, seed: run_z3new(p, to, seed=seed),
    'z3': lambda p, to, seed: run_z3old(p, to, seed=seed),
    'cvc5': lambda p, to, seed: run_cvc5(p + '.cvc5', to, seed=seed),
    'cvc5-fsq': lambda p, to, seed: run_cvc5(p + '.cvc5', to, seed=seed, quant=True),
}

DEFAULT_PORTFOLIO = ['z3-new', 'cvc5', 'cvc5-fsq', 'z3']


def solver_cmd(name, path, timeout, seed):
    if name == 'z3-new':
        return [Z3NEW, '-T:%d' % timeout, 'model_validate=true', 'sat.random_seed=%d' % seed, 'smt.random_seed=%d' % seed, path]
    if name == 'z3':
        return [Z3OLD, '-T:%d' % timeout, 'model_validate=true', 'smt.random_seed=%d' % seed, path]
    if name == 'cvc5':
        return [CVC5, '--lang=smt2', '--strings-exp', '--tlimit=%d' % (timeout * 1000), '--seed=%d' % seed, path + '.cvc5']
    if name == 'cvc5-fsq':
        return [CVC5, '--lang=smt2', '--strings-exp', '--full-saturate-quant', '--tlimit=%d' % (timeout * 1000), '--seed=%d' % seed, path + '.cvc5']
    raise KeyError(name)


def _verdict_of(out, rc):
    if 'invalid model' in out:
        # z3's string solver sometimes answers `sat` with a model that does not satisfy the assertions: not an answer
        return 'unknown'
    for line in out.splitlines():
        line = line.strip()
        if line in ('sat', 'unsat', 'unknown'):
            return line
    if 'interrupted by timeout' in out or 'timeout' in out.lower():
        return 'timeout'
    return 'error' if ('error' in out.lower() or rc != 0) else 'unknown'


import threading
_SLOTS = threading.BoundedSemaphore(int(os.environ.get('PYVC_SOLVER_SLOTS', '14')))


def race(names, path, timeout, seed, need):
    """run the solvers concurrently (never more than _SLOTS solver processes machine-wide per check); stop at the
    first validated `sat` or once `need` solvers said `unsat`"""
    attempts = []
    verdict, agree = 'unknown', 0
    todo = list(names)
    running = {}       # name -> (proc, t_start)
    while todo or running:
        # start what we can
        while todo and _SLOTS.acquire(blocking=not running):
            n = todo.pop(0)
            p = subprocess.Popen(solver_cmd(n, path, timeout, seed), stdout=subprocess.PIPE, stderr=subprocess.STDOUT, text=True)
            running[n] = (p, time.time())
        done = [n for n, (p, ts) in running.items() if p.poll() is not None]
        now = time.time()
        for n, (p, ts) in list(running.items()):
            if n not in done and now - ts > timeout + 3:
                try:
                    p.kill()
                    p.wait(timeout=2)
                except Exception:
                    pass
                done.append(n)
        if not done:
            time.sleep(0.01)
            continue
        for n in done:
            p, ts = running.pop(n)
            _SLOTS.release()
            try:
                out = p.stdout.read()
            except Exception:
                out = ''
            res = _verdict_of(out, p.returncode) if p.returncode is not None and p.returncode >= 0 else 'timeout'
            attempts.append({'solver': n, 'result': res, 'time_s': round(time.time() - ts, 3)})
            if res == 'unsat':
                agree += 1
                verdict = 'unsat'
            elif res == 'sat' and verdict != 'unsat':
                verdict = 'sat'
        if verdict == 'sat' or agree >= need:
            break
    for n, (p, ts) in running.items():
        try:
            p.kill()
            p.wait(timeout=2)
        except Exception:
            pass
        _SLOTS.release()
        attempts.append({'solver': n, 'result': 'cancelled', 'time_s': round(time.time() - ts, 3)})
    for n in todo:
        attempts.append({'solver': n, 'result': 'not-run', 'time_s': 0.0})
    return verdict, attempts, agree


_DEADLINE = [None]


def discharge_one(args):
    idx, text, workdir, portfolio, timeout, seed, need_all, stext = args
    if _DEADLINE[0] is not None and time.time() > _DEADLINE[0]:
        return idx, 'unknown', [{'solver': 'none', 'result': 'time budget of the check exhausted', 'time_s': 0.0}], None
    path = os.path.join(workdir, 'o%05d.smt2' % idx)
    with open(path, 'w') as f:
        f.write(text)
    with open(path + '.cvc5', 'w') as f:
        f.write(cvc5_text(text))
    first = portfolio[0]
    attempts = []
    v1 = 'unknown'
    agree = 0
    if stext is not None:
        # stage 0: the cone-of-influence slice (only an `unsat` of the slice is an answer)
        spath = os.path.join(workdir, 'o%05d.slice.smt2' % idx)
        with open(spath, 'w') as f:
            f.write(stext)
        with open(spath + '.cvc5', 'w') as f:
            f.write(cvc5_text(stext))
        v0, att0, agree0 = race([first, 'cvc5'] if first != 'cvc5' else [first, 'z3-new'], spath, min(4, timeout), seed, need_all)
        for a in att0:
            a['solver'] += '/slice'
        attempts += att0
        if v0 == 'unsat' and agree0 >= need_all:
            return idx, 'unsat', attempts, None
    # stage 1: the primary solver alone with a short budget (most obligations end here)
    v1, att1, agree = race([first], path, min(3, timeout), seed, 1)
    attempts += att1
    verdict = v1
    if verdict == 'unknown' or (verdict == 'unsat' and need_all > 1):
        rest = list(portfolio[1:]) + ([first] if verdict == 'unknown' else [])
        v2, att2, agree2 = race(rest, path, timeout, seed, need_all - (1 if verdict == 'unsat' else 0))
        attempts += att2
        if verdict == 'unsat':
            if v2 == 'sat':
                verdict = 'conflict'
        else:
            verdict = v2
    model = None
    if verdict == 'sat':
        who = [a['solver'] for a in attempts if a['result'] == 'sat' and '/' not in a['solver']][0]
        if who.startswith('cvc5'):
            with open(path + '.m.cvc5', 'w') as f:
                f.write('(set-option :produce-models true)\n' + cvc5_text(text) + '\n(get-model)\n')
            cmd = solver_cmd(who, path + '.m', timeout, seed)
        else:
            with open(path + '.m', 'w') as f:
                f.write(text + '\n(get-model)\n')
            cmd = solver_cmd(who, path + '.m', timeout, seed)
        res, out, dt = _run(cmd, timeout)
        model = out if res == 'sat' else None
    return idx, verdict, attempts, model


def discharge(obls, specs=None, ip=None, tier='quick', seed=0, timeout=None, jobs=16, portfolio=None, keep=None, budget_s=None):
    """fills o.result = {'verdict': unsat|sat|unknown, 'attempts': [...], 'model': text|None} for every obligation"""
    timeout = timeout or (60 if tier == 'quick' else 120)
    need_all = 1 if tier == 'quick' else 2
    portfolio = portfolio or DEFAULT_PORTFOLIO
    workdir = keep or tempfile.mkdtemp(prefix='pyvc_')
    os.makedirs(workdir, exist_ok=True)
    tasks = []
    t0 = time.time()
    for i, o in enumerate(obls):
        goal = o.goal
        # trivial goals
        if z3.is_true(goal):
            o.result = {'verdict': 'unsat', 'attempts': [{'solver': 'syntactic', 'result': 'unsat', 'time_s': 0.0}], 'model': None}
            continue
        extra = []
        if specs is not None and ip is not None:
            extra = specs.unfold(ip, list(o.hyps) + [goal], extra_fuel=o.extra.get('fuel', 0), opaque=o.extra.get('opaque', ()))
        hints = o.extra.get('hints', [])
        allh = list(o.hyps) + list(extra) + list(hints)
        text = smt2_of(allh, goal)
        o.smt2 = text
        sl = slice_hyps(allh, goal)
        stext = smt2_of(sl, goal) if len(sl) < len(allh) else None
        pf = o.extra.get('portfolio', portfolio)
        tasks.append((i, text, workdir, pf, o.extra.get('timeout', timeout), seed, need_all, stext))
    _DEADLINE[0] = (time.time() + budget_s) if budget_s else None
    # obligations that state the property itself first: a budget overrun then hits scaffolding last
    tasks.sort(key=lambda t: (0 if obls[t[0]].top else 1, t[0]))
    if tasks:
        with concurrent.futures.ThreadPoolExecutor(max_workers=jobs) as ex:
            for idx, verdict, attempts, model in ex.map(discharge_one, tasks):
                obls[idx].result = {'verdict': verdict, 'attempts': attempts, 'model': model}
    if keep is None:
        shutil.rmtree(workdir, ignore_errors=True)
    return time.time() - t0


MODEL_RE = re.compile(r'\(define-fun\s+(\S+)\s+\(\)\s+(\S+|\([^()]*\))\s+((?:.|\n)*?)\)\s*(?=\(define-fun|\)\s*$)')


def parse_model(text):
    """very small reader of z3's (get-model) output for Int / Bool / String constants"""
    out = {}
    if not text:
        return out
    for m in re.finditer(r'\(define-fun\s+(\S+)\s+\(\)\s+(Int|Bool|String)\s+((?:.|\n)*?)\)\n', text):
        name, sort, val = m.group(1), m.group(2), m.group(3).strip()
        name = name.strip('|')
        if sort == 'Int':
            v = val.replace('(', ' ').replace(')', ' ').split()
            try:
                out[name] = -int(v[1]) if v[0] == '-' else int(v[0])
            except Exception:
                pass
        elif sort == 'Bool':
            out[name] = (val == 'true')
        elif sort == 'String':
            if val.startswith('"'):
                s = val[1:-1].replace('""', '"')
                s = re.sub(r'\\u\{([0-9a-fA-F]+)\}', lambda mm: chr(int(mm.group(1), 16)), s)
                out[name] = s
    return out


def unique_int_value(hyps, term, timeout=8, workdir=None, candidates=range(0, 9)):
    """the value n among `candidates` such that hyps entail term == n, or None.  One `unsat` query per candidate
    (hyps and term != n), all candidates raced; a wrong candidate is `sat`/unknown and simply loses the race."""
    import tempfile
    d = workdir or tempfile.mkdtemp(prefix='pyvc_c_')
    os.makedirs(d, exist_ok=True)
    procs = []
    hyps = slice_hyps(list(hyps), term == 0)
    for n in candidates:
        s2 = z3.Solver()
        for h in hyps:
            s2.add(h)
        s2.add(term != n)
        text = s2.to_smt2()
        path = os.path.join(d, 'cand%d.smt2' % n)
        with open(path, 'w') as f:
            f.write(text)
        with open(path + '.cvc5', 'w') as f:
            f.write(cvc5_text(text))
        for solver in ('z3-new', 'cvc5'):
            p = subprocess.Popen(solver_cmd(solver, path, timeout, 0), stdout=subprocess.PIPE, stderr=subprocess.STDOUT, text=True)
            procs.append((n, solver, p))
    t0 = time.time()
    found = None
    pending = list(procs)
    while pending and found is None and time.time() - t0 < timeout + 3:
        for item in list(pending):
            n, solver, p = item
            if p.poll() is not None:
                pending.remove(item)
                out = p.stdout.read()
                if _verdict_of(out, p.returncode) == 'unsat':
                    found = n
                    break
        time.sleep(0.01)
    for n, solver, p in pending:
        try:
            p.kill()
            p.wait(timeout=2)
        except Exception:
            pass
    if workdir is None:
        shutil.rmtree(d, ignore_errors=True)
    return found
