"""pyvc.driver -- runs one property check: extract, generate obligations, discharge, refute+replay, known findings,
evidence.  Exit codes: 0 held / 1 violation / 2 undecided / 3 checker crash."""
import json
import os
import re
import subprocess
import sys
import time
import traceback
import z3

from .source import Repo
from .interp import Interp, Obligation
from .specs import SpecRegistry, prove_lemmas
from .contracts import Contract, verify_function
from .values import Unsupported, StaleContract, Sym, Ref
from .lib import install_models
from .solve import discharge, parse_model, smt2_of
from . import solve

VERIF = os.path.dirname(os.path.dirname(os.path.abspath(__file__)))
NATIVE_PY = '/venv/bin/python'


class Unit:
    """one function put under contract"""

    def __init__(self, contract, harness=None, bounded_k=6, note=''):
        self.contract = contract
        self.harness = harness          # dict(imports=..., call=..., setup=...) for native replay
        self.bounded_k = bounded_k
        self.note = note


class Ground:
    """a closed formula over the repository's constant tables, evaluated exhaustively"""

    def __init__(self, name, fn, clause):
        self.name, self.fn, self.clause = name, fn, clause


class CheckDef:
    def __init__(self, pid):
        self.pid = pid
        self.units = []
        self.lemmas = []
        self.grounds = []
        self.customs = []        # callables(ip, ctx) -> list[Obligation-like results] for property-specific machinery
        self.assumptions = []
        self.trusted = []
        self.bounded = []        # descriptions of bounded stand-ins (never counted as proved)
        self.not_decided = []    # clauses of the property this check does not decide (n/a for the family)
        self.design_ref = ''
        self.stubs = []          # assumed contracts of external / out-of-scope callees (listed in evidence)
        self.level = 'proof'
        self.explanation = ''


class Violation:
    def __init__(self, obligation, clause, func, inputs=None, replay=None, reproduced=None, detail='', kind='ensures'):
        self.obligation, self.clause, self.func = obligation, clause, func
        self.inputs, self.replay, self.reproduced, self.detail, self.kind = inputs, replay, reproduced, detail, kind


def encode_value(v):
    if isinstance(v, bytes):
        return {'type': 'bytes', 'hex': v.hex()}
    if isinstance(v, bool):
        return {'type': 'bool', 'value': v}
    if isinstance(v, int):
        return {'type': 'int', 'value': v}
    if isinstance(v, str):
        return {'type': 'str', 'value': v}
    if v is None:
        return {'type': 'none', 'value': None}
    if isinstance(v, list):
        return {'type': 'list', 'items': [encode_value(x) for x in v]}
    if isinstance(v, tuple):
        return {'type': 'tuple', 'items': [encode_value(x) for x in v]}
    if isinstance(v, dict):
        return {'type': 'dict', 'items': {k: encode_value(x) for k, x in v.items()}}
    raise ValueError('cannot encode %r' % (v,))


def load_known(pid):
    path = os.path.join(VERIF, 'known_findings.json')
    if not os.path.exists(path):
        return [], []
    with open(path) as f:
        data = json.load(f)
    return ([e for e in data.get('findings', []) if e.get('property') == pid],
            [e for e in data.get('fixed', []) if e.get('property') == pid])


def match_known(known, v):
    for e in known:
        if not re.fullmatch(e['obligation'], v.obligation):
            continue
        w = e.get('witness')
        if w:
            if v.inputs is None:
                continue
            try:
                if not eval(w, {'__builtins__': __builtins__}, dict(v.inputs, inputs=dict(v.inputs))):
                    continue
            except Exception:
                continue
        return e
    return None


def model_inputs(o, model_text):
    """concrete python inputs of the function from a solver model, or None"""
    inputs = o.extra.get('inputs') or {}
    if not model_text or 'sat' not in model_text.split():
        return None
    m = parse_model(model_text)
    out = {}
    for p, (kind, name, ty) in inputs.items():
        if kind == 'concrete':
            out[p] = name
            continue
        if name not in m:
            # unconstrained in the model: any value will do
            if ty == 'int':
                out[p] = 0
            elif ty == 'bool':
                out[p] = False
            elif ty == 'str':
                out[p] = ''
            elif ty == 'bytes':
                out[p] = b''
            else:
                return None
            continue
        v = m[name]
        if ty == 'bytes':
            try:
                v = bytes(ord(c) for c in v)
            except ValueError:
                return None
        out[p] = v
    return out


def native_replay(path):
    env = dict(os.environ)
    env['PYTHONPATH'] = ''
    try:
        p = subprocess.run([NATIVE_PY, os.path.join(VERIF, 'pyvc', 'replay_native.py'), path], capture_output=True, text=True, timeout=120, env=env)
    except subprocess.TimeoutExpired:
        return {'reproduced': False, 'error': 'replay timed out'}
    try:
        return json.loads(p.stdout.strip().splitlines()[-1])
    except Exception:
        return {'reproduced': False, 'error': (p.stdout + p.stderr)[-800:]}


def discharge_vac(obls, specs, ip, seed):
    # goal False is not 'trivially true', so these go to the solvers; cvc5/z3 answer sat quickly on entry states
    discharge(obls, None, None, tier='quick', seed=seed, timeout=5)


class _Done:
    def __init__(self, rc, out, err):
        self.returncode, self.stdout, self.stderr = rc, out, err


def run_group(cmd, timeout, env=None):
    """subprocess.run(capture_output=True, text=True) in a process group of its own; on timeout the whole group (pool workers included)
    is killed, so that a looping stand-in leaves nothing behind"""
    import signal
    p = subprocess.Popen(cmd, stdout=subprocess.PIPE, stderr=subprocess.PIPE, text=True, env=env, start_new_session=True)
    try:
        out, err = p.communicate(timeout=timeout)
    except subprocess.TimeoutExpired:
        try:
            os.killpg(p.pid, signal.SIGKILL)
        except OSError:
            pass
        p.communicate()
        raise
    finally:
        try:
            os.killpg(p.pid, signal.SIGKILL)       # stragglers of a finished run (orphaned workers)
        except OSError:
            pass
    return _Done(p.returncode, out, err)


def crashed_in_repo(stderr, repo_root):
    """when a stand-in process died with a traceback: did the exception come out of the code under test (innermost non-library frame
    inside the repository's sources) rather than out of the harness?  Returns 'Exc: message (file:line in function)' or None.
    An exception that names a harness object (a fake socket lacking a method the code now calls, ...) is the harness's problem."""
    stderr = stderr or ''
    if 'RemoteTraceback' in stderr and 'The above exception was the direct cause' in stderr:
        # raised in a pool worker: the worker's own traceback comes first (quoted), the parent's re-raise after it
        stderr = stderr.split('The above exception was the direct cause')[0].replace('"""', '').strip()
    frames = re.findall(r'File "([^"]+)", line (\d+), in (\S+)', stderr)
    own = [f for f in frames if not re.search(r'/lib/python3\.\d+/', f[0]) or '/site-packages/ssh_audit' in f[0]]
    if not own:
        return None
    last = own[-1]
    src = os.path.join(os.path.realpath(repo_root), 'src')
    if not os.path.realpath(last[0]).startswith(src):
        return None
    lines = [l for l in stderr.strip().splitlines() if l and not l.startswith((' ', '\t'))]
    exc = lines[-1] if lines else ''
    if re.search(r'Fake|fakenet|harness|Peer\b|ServerSocket|MagicMock', exc) or exc.startswith(('KeyboardInterrupt', 'MemoryError')):
        return None
    return '%s (%s:%s in %s)' % (exc[:300], os.path.relpath(last[0], repo_root), last[1], last[2])


def native_bounded(runner, name, clause, code, bound, func):
    """bounded stand-in (never counted as proved): run-time check of a contract clause on the REAL function over an
    enumerated domain, in a fresh CPython process.  `code` must print one JSON object {cases, failures:[{input, got, want}]}."""
    env = dict(os.environ)
    env['PYTHONPATH'] = os.path.join(runner.repo.root, 'src')
    env['VERIF_TIER'] = runner.tier
    try:
        p = run_group([NATIVE_PY, '-c', code], timeout=1200, env=env)
    except Exception as e:
        return {'undecided': (name, 'bounded stand-in could not run: %r' % (e,))}
    try:
        res = json.loads(p.stdout.strip().splitlines()[-1])
    except Exception as e:
        crash = crashed_in_repo(p.stderr, runner.repo.root)
        if crash is None:
            return {'undecided': (name, 'bounded stand-in could not run: %r; %s' % (e, p.stderr.strip()[-300:]))}
        # the real code raised, on an input of the family on which the clause speaks about its result: that is a failed clause (the
        # input is not identified: the exception escaped the per-case bookkeeping), not a checker problem
        rp = runner.write_replay('bounded:%s.crash' % name, clause, 'bounded', None, None, p.stderr[-4000:], extra={'escaped_exception': crash})
        return {'bounded': {'function': func, 'clause': clause, 'bound': bound, 'cases': 0, 'failures': 1}, 'samples': [],
                'violations': [Violation('bounded:' + name, clause, func, inputs=None, replay=rp, reproduced=False,
                                         detail='the code under contract raised on an input of the enumerated family: %s' % crash, kind='bounded')]}
    out = {'bounded': {'function': func, 'clause': clause, 'bound': bound, 'cases': res['cases'], 'failures': len(res['failures'])},
           'samples': [{'bounded-stand-in': name, 'cases': res['cases'], 'bound': bound}]}
    out['violations'] = []
    for i, f in enumerate(res['failures']):
        # one violation per failing case, so that a failure listed as a known finding does not mask a new one
        rp = runner.write_replay('bounded:%s.%d' % (name, i), clause, 'bounded', None, None, json.dumps(f), extra={'failing_input': f})
        out['violations'].append(Violation('bounded:' + name, clause, func, inputs=f.get('input'), replay=rp, reproduced=True,
                                           detail='got %r, contract wants %r' % (f.get('got'), f.get('want')), kind='bounded'))
    return out


class Runner:
    def __init__(self, pid, build, tier='quick', seed=0):
        self.pid, self.build, self.tier, self.seed = pid, build, tier, seed
        self.t0 = time.time()
        self.repo = Repo()
        self.specs = SpecRegistry(os.path.join(VERIF, 'contracts', 'spec.py'))
        self.violations = []
        self.undecided = []
        self.stale = []          # units whose contract no longer binds to the code (not verified in this run; see StaleContract)
        self.log = []
        self.refute_budget_s = 150 if tier == 'quick' else 900
        self.discharge_budget_s = 900 if tier == 'quick' else 3600
        self.generate_budget_s = 300 if tier == 'quick' else 1800

    def new_interp(self):
        ip = Interp(self.repo, {}, self.specs)
        install_models(ip)
        return ip

    def say(self, s):
        print(s)
        sys.stdout.flush()

    # ------------------------------------------------------------------------------------------------ main
    def run(self):
        chk = CheckDef(self.pid)
        ip = self.new_interp()
        self.build(chk, ip, self)
        self.chk = chk
        for u in chk.units:
            if u.contract.mode == 'contract':
                ip.contracts[u.contract.qual] = u.contract
        for c in getattr(chk, 'stubs', []):
            ip.contracts[c.qual] = c
        for q, c in getattr(self, 'call_site_overrides', {}).items():
            ip.contracts[q] = c
        self.base_contracts = dict(ip.contracts)
        func_summaries = []
        t_start = time.time()
        # property-specific machinery first (bounded native stand-ins, model cross-checks): a function for which a
        # stand-in already replayed a counterexample on the real code is not put through the prover again
        custom_results = []
        for c in chk.customs:
            custom_results.extend(c(ip, self))
        for r in custom_results:
            if r.get('violation'):
                self.violations.append(r['violation'])
            self.violations.extend(r.get('violations', []))
            if r.get('undecided'):
                self.undecided.append(r['undecided'])
            if r.get('bounded'):
                chk.bounded.append(r['bounded'])
        broken_funcs = set(v.func for v in self.violations if v.reproduced)
        t_start = time.time()       # (the generation budget covers VC generation only, not the run time of the bounded stand-ins above)
        # lemmas
        if chk.lemmas:
            prove_lemmas(ip, self.specs, set(chk.lemmas))
        for ui, u in enumerate(chk.units):
            n0 = len(ip.obls)
            ip.cur_unit = ui
            if u.contract.qual in broken_funcs:
                continue
            if time.time() - t_start > self.generate_budget_s:
                self.undecided.append((u.contract.qual, 'not analysed: time budget of the check used up'))
                continue
            try:
                s = verify_function(ip, u.contract)
                s['obligations'] = len(ip.obls) - n0
                func_summaries.append(s)
                if s['obligations'] == 0:
                    self.undecided.append((u.contract.qual, 'generated zero obligations (vacuous contract?)'))
            except StaleContract as e:
                del ip.obls[n0:]
                self.stale.append((u.contract.qual, str(e)))
            except Unsupported as e:
                del ip.obls[n0:]
                self.undecided.append((u.contract.qual, 'unsupported: %s' % e))
            except KeyError as e:
                del ip.obls[n0:]
                self.undecided.append((u.contract.qual, 'contract does not bind to the current source: %s' % e))
        obls = list(ip.obls)
        for lem in sorted(ip.used_lemmas - set(chk.lemmas)):
            self.undecided.append(('lemma:' + lem, 'lemma instance used but the lemma is not proved in this check'))
        # vacuity: every function's precondition must be satisfiable and a normal exit reachable
        vac = self.vacuity(ip, chk)
        solver_wall = discharge(obls, self.specs, ip, tier=self.tier, seed=self.seed, budget_s=self.discharge_budget_s)
        # ground formulas
        ground_results = []
        for g in chk.grounds:
            try:
                res = g.fn(self.repo)
            except Exception as e:
                self.undecided.append(('ground:' + g.name, 'evaluation failed: %r' % (e,)))
                continue
            for inst, ok, detail in res:
                ground_results.append((g, inst, ok, detail))
        # ---- classify
        discharged = [o for o in obls if o.result['verdict'] == 'unsat']
        refuted = [o for o in obls if o.result['verdict'] == 'sat']
        unknown = [o for o in obls if o.result['verdict'] not in ('sat', 'unsat')]
        handled_funcs = set()
        confirmed_funcs = set(broken_funcs)
        t_refute0 = time.time()
        for o in refuted:
            u = chk.units[o.extra['unit']] if o.extra.get('unit') is not None else None
            if o.func.startswith('lemma:'):
                self.undecided.append((o.name, 'lemma refuted: the lemma library is wrong, not the code'))
                continue
            if u is None:
                self.undecided.append((o.name, 'refuted obligation of a function without unit'))
                continue
            if (o.func, o.extra.get('unit')) in handled_funcs:
                continue
            if o.func in confirmed_funcs:
                continue        # one replayed counterexample per function is enough (other case splits are not searched)
            if time.time() - t_refute0 > self.refute_budget_s:
                self.undecided.append((o.name, 'refuted by the solver; counterexample search skipped (time budget of %ds used)' % self.refute_budget_s))
                continue
            has_loops = bool(u.contract.loops) or bool(u.contract.cuts)
            if o.kind in ('ensures', 'raises', 'precondition') and not has_loops:
                self.report_refuted(o, u, o.result['model'], direct=True)
            else:
                handled_funcs.add((o.func, o.extra.get('unit')))
                self.bounded_refute(u, [x for x in refuted if x.func == o.func and x.extra.get('unit') == o.extra.get('unit')])
            if any(v.func == o.func and v.reproduced for v in self.violations):
                confirmed_funcs.add(o.func)
        for o in unknown:
            self.undecided.append((o.name, 'solvers: ' + ', '.join('%s=%s' % (a['solver'], a['result']) for a in o.result['attempts'])))
        for g, inst, ok, detail in ground_results:
            if not ok:
                name = 'ground:%s[%s]' % (g.name, inst)
                rp = self.write_replay(name, g.clause, 'ground', None, None, detail)
                self.violations.append(Violation(name, g.clause, 'ground:' + g.name, inputs={'instance': inst}, replay=rp, reproduced=True, detail=detail, kind='ground'))
        # ---- known findings
        known, fixed = load_known(self.pid)
        unlisted, listed = [], []
        for v in self.violations:
            e = match_known(known, v)
            if e is not None:
                listed.append((v, e))
            else:
                unlisted.append(v)
        confirmed = set()
        for v, e in listed:
            key = e['what']
            if key not in confirmed:
                confirmed.add(key)
                self.say('KNOWN-FINDING: property=%s %s' % (self.pid, e['what']))
        for v in unlisted:
            tail = '' if v.reproduced else ' no-failing-input-found'
            self.say('VIOLATION property=%s replay=%s%s' % (self.pid, v.replay, tail))
            self.say('  obligation: %s' % v.obligation)
            self.say('  clause: %s' % v.clause)
            if v.inputs is not None:
                self.say('  input: %r' % (v.inputs,))
            if v.detail:
                self.say('  detail: %s' % v.detail[:400])
        if self.stale and not chk.customs:
            # no bounded stand-in covers the function either: nothing decided the property for it in this run
            self.undecided.extend((q, 'contract out of date with the code and no bounded stand-in: %s' % w) for q, w in self.stale)
        for name, why in self.undecided:
            self.say('UNDECIDED property=%s obligation=%s reason=%s' % (self.pid, name, why[:300]))
        for q, why in self.stale:
            self.say('STALE-CONTRACT property=%s function=%s not verified in this run (the bounded stand-ins still ran): %s' % (self.pid, q, why[:300]))
        # ---- evidence
        nground = len(ground_results)
        ncustom = sum(r.get('obligations', 0) for r in custom_results)
        ncustom_ok = sum(r.get('discharged', 0) for r in custom_results)
        total = len(obls) + nground + ncustom
        ndis = len(discharged) + sum(1 for _, _, ok, _ in ground_results if ok) + ncustom_ok
        by_backend = {}
        solver_time = 0.0
        slow = []
        for o in obls:
            att = o.result['attempts']
            for a in att:
                solver_time += a.get('time_s', 0)
            win = [a for a in att if a['result'] == o.result['verdict']]
            if win:
                by_backend[win[0]['solver']] = by_backend.get(win[0]['solver'], 0) + 1
                if win[0]['time_s'] > 5:
                    slow.append({'obligation': o.name, 'solver': win[0]['solver'], 'time_s': win[0]['time_s']})
        if nground:
            by_backend['ground-evaluation'] = nground
        for r in custom_results:
            for k, n in (r.get('by_backend') or {}).items():
                by_backend[k] = by_backend.get(k, 0) + n
        samples = []
        for o in obls[:3] + obls[len(obls) // 2: len(obls) // 2 + 2] + obls[-2:]:
            samples.append({'obligation': o.name, 'kind': o.kind, 'clause': o.clause, 'hypotheses': len(o.hyps),
                            'verdict': o.result['verdict'], 'attempts': o.result['attempts']})
        for g, inst, ok, detail in ground_results[:3]:
            samples.append({'obligation': 'ground:%s[%s]' % (g.name, inst), 'clause': g.clause, 'verdict': 'true' if ok else 'false', 'detail': detail[:200]})
        for r in custom_results:
            samples.extend(r.get('samples', [])[:4])
        held = not unlisted and not self.undecided
        level = chk.level if (ndis == total and total > 0 and not self.undecided and not self.stale) else 'other'
        files = {}
        for u in chk.units:
            try:
                sp = self.repo.span(u.contract.qual)
                files[u.contract.qual] = sp
            except Exception:
                pass
        ev = {
            'property_id': self.pid, 'tier': self.tier, 'seed': self.seed, 'level': level,
            'wall_s': round(time.time() - self.t0, 2), 'violations': len(unlisted),
            'coverage': {
                'obligations': total, 'discharged': ndis,
                'checker_cmd': './check %s --tier %s' % (self.pid, self.tier),
                'trusted_base': ['pyvc encoding of the Python subset (DESIGN.md 2.2)', 'z3 4.8.12 / z3 5.1.0 / cvc5 1.0.3 soundness'] + chk.trusted,
                'explanation': chk.explanation or 'contract-based deductive verification of the real functions (AST -> VCs -> SMT)',
                'samples': samples,
                'functions_under_contract': list(files.values()),
                'inlined_callees': sorted(ip.inlined - set(files)),
                'callee_contracts_used': sorted(ip.used_contracts),
                'lemmas_reproved': sorted(chk.lemmas),
                'by_backend': by_backend, 'solver_time_s': round(solver_time, 2), 'solver_wall_s': round(solver_wall, 2), 'slow_queries': slow,
                'bounded': chk.bounded, 'not_decided_clauses': chk.not_decided,
                'undecided': [{'obligation': n, 'reason': w[:300]} for n, w in self.undecided],
                'stale_contracts': [{'function': q, 'reason': w[:300]} for q, w in self.stale],
                'known_findings_confirmed': sorted(confirmed),
                'vacuity': vac,
                'extraction_dropped': ['type annotations', 'cast() wrappers', 'docstrings/comments', 'decorators kept as calling convention'],
                'exhaustive': bool(getattr(chk, 'exhaustive', False)),
            },
            'assumptions': ['NOT VERIFIED in this run: %s -- its contract no longer binds to the code (%s); only the bounded stand-ins covered it' % (q, w[:200])
                            for q, w in self.stale] + chk.assumptions + sorted(ip.assumed) + [
                'assumed contract (stub, not verified in this check): %s%s' % (c.qual, (' -- ' + c.note) if getattr(c, 'note', None) else '')
                for c in getattr(chk, 'stubs', []) if c.qual in ip.used_contracts and c.qual not in files],
        }
        os.makedirs(os.path.join(VERIF, 'evidence'), exist_ok=True)
        with open(os.path.join(VERIF, 'evidence', '%s.json' % self.pid), 'w') as f:
            json.dump(ev, f, indent=1)
        self.say('%s: %d obligations, %d discharged, %d violations (%d known), %d undecided%s, %.1fs' % (
            self.pid, total, ndis, len(unlisted), len(listed), len(self.undecided), (', %d stale contracts' % len(self.stale)) if self.stale else '', time.time() - self.t0))
        if unlisted:
            return 1
        if self.undecided:
            return 2
        return 0

    # ------------------------------------------------------------------------------------------------ vacuity
    def vacuity(self, ip, chk):
        """the precondition of every function under contract must be satisfiable (else everything holds vacuously)"""
        from .contracts import entry_state
        out = []
        obls = []
        for u in chk.units:
            con = u.contract
            try:
                fnode, module, cls = self.repo.function(con.qual)
                for ci, case in enumerate(con.cases):
                    st, pnames, inputs = entry_state(ip, con, case, fnode, module, cls)
                    o = Obligation('%s#vacuity.case%d' % (con.qual, ci), 'vacuity', st.pc, z3.BoolVal(False), con.qual, clause='requires is satisfiable')
                    o.extra['timeout'] = 5
                    obls.append(o)
            except (Unsupported, KeyError) as e:
                out.append({'function': con.qual, 'requires_satisfiable': 'not checked: %s' % e})
        if obls:
            # here `sat` is the good answer: the entry state has a model
            for o in obls:
                o.goal = z3.BoolVal(False)
            discharge_vac(obls, self.specs, ip, self.seed)
            for o in obls:
                v = o.result['verdict']
                out.append({'function': o.name, 'requires_satisfiable': 'yes' if v == 'sat' else ('NO' if v == 'unsat' else 'unconfirmed (%s)' % v)})
                if v == 'unsat':
                    self.undecided.append((o.name, 'contradictory precondition: every obligation would hold vacuously'))
        return out

    # ------------------------------------------------------------------------------------------------ refutation
    def write_replay(self, obligation, clause, kind, inputs, harness, detail, extra=None):
        d = os.path.join(VERIF, 'replays', self.pid)
        os.makedirs(d, exist_ok=True)
        fn = re.sub(r'[^A-Za-z0-9_.#\[\]-]', '_', obligation)[:150] + '.json'
        path = os.path.join(d, fn)
        rp = {'property': self.pid, 'obligation': obligation, 'clause': clause, 'kind': kind,
              'inputs': {k: encode_value(v) for k, v in (inputs or {}).items()} if inputs is not None else None,
              'harness': harness, 'solver_output': detail}
        if extra:
            rp.update(extra)
        with open(path, 'w') as f:
            json.dump(rp, f, indent=1)
        return os.path.relpath(path, VERIF)

    def report_refuted(self, o, u, model_text, direct):
        con = u.contract
        inputs = model_inputs(o, model_text) if model_text else None
        extra = {}
        kind = 'ensures' if o.kind == 'ensures' else ('raises' if o.kind == 'raises' else 'custom')
        if kind == 'raises':
            extra['allowed_exceptions'] = list((con.raises or {}).keys())
            extra['raise_conditions'] = dict(con.raises or {})
        reproduced = False
        detail = (model_text or '')[:3000]
        extra['let'] = dict(con.let)
        rp = self.write_replay(o.name, o.clause, kind, inputs, u.harness, detail, extra)
        if inputs is not None and u.harness is not None and o.kind in ('ensures', 'raises'):
            verdict = native_replay(os.path.join(VERIF, rp))
            reproduced = bool(verdict.get('reproduced'))
            detail = json.dumps(verdict)
            with open(os.path.join(VERIF, rp)) as f:
                d = json.load(f)
            d['native_verdict'] = verdict
            with open(os.path.join(VERIF, rp), 'w') as f:
                json.dump(d, f, indent=1)
            if not reproduced and direct:
                # a loop-free, contract-free refutation that does not fail natively would expose an encoding error;
                # with callee contracts on the path the witness may simply not be realisable: keep it as unreproduced
                pass
        self.violations.append(Violation(o.name, o.clause, o.func, inputs=inputs, replay=rp, reproduced=reproduced, detail=detail, kind=kind))

    def bounded_refute(self, u, refuted):
        """the proof of u's function broke: search for a concrete input by unrolling from function entry"""
        con = u.contract
        top_refuted = [o for o in refuted if o.kind in ('ensures', 'raises', 'precondition')]
        found = False
        # without a native harness a concrete input could not be replayed anyway: the failed obligation is reported with the solver's output
        ks = [] if not u.harness else ([2, u.bounded_k] if u.bounded_k > 2 else [u.bounded_k])
        for k in ks:
            ip = self.new_interp()
            ip.contracts = dict(self.base_contracts) if hasattr(self, 'base_contracts') else {}
            if hasattr(self, 'configure'):
                self.configure(ip)
            ip.bounded_k = k
            c2 = Contract(con.qual, params=con.params, requires=con.requires, ensures=con.ensures, raises=con.raises, loops={},
                          cases=con.cases, setup=con.setup, ghost=con.ghost, use=())
            try:
                verify_function(ip, c2)
            except Unsupported as e:
                self.undecided.append((con.qual + '#bounded', 'bounded refutation unsupported: %s' % e))
                break
            obls = [o for o in ip.obls if o.kind in ('ensures', 'raises')]
            for o in obls:
                # recursive spec functions must be unfolded as deep as the unrolling goes, or the search invents values for them
                o.extra['fuel'] = o.extra.get('fuel', 0) + k + 2
            discharge(obls, self.specs, ip, tier='quick', seed=self.seed, timeout=20)
            sat = [o for o in obls if o.result['verdict'] == 'sat']
            for o in sat:
                n0 = len(self.violations)
                self.report_refuted(o, u, o.result['model'], direct=False)
                if self.violations[-1].reproduced:
                    found = True
                    break
                else:
                    del self.violations[n0:]
            if found:
                break
        if not found:
            if top_refuted:
                o = top_refuted[0]
                rp = self.write_replay(o.name, o.clause, 'custom', None, u.harness, (o.result.get('model') or '')[:3000])
                self.violations.append(Violation(o.name, o.clause, o.func, inputs=None, replay=rp, reproduced=False,
                                                 detail=('refuted after the loop cut; bounded unrolling (k<=%d) found no concrete input' % u.bounded_k) if ks else
                                                 'refuted after the loop cut; no native harness for this unit, so no concrete input is searched'))
            else:
                loop_free = not u.contract.loops and not u.contract.callee_loops
                cut_fail = [o for o in refuted if o.kind == 'assert_at']
                if loop_free and cut_fail:
                    # an intermediate assertion of a loop-free function is reached from the function's entry on every path through it: its
                    # refutation is not a counterexample to induction but a failed obligation of the proof (the clauses after it were
                    # checked under the assumption that it holds)
                    o = cut_fail[0]
                    rp = self.write_replay(o.name, o.clause, 'custom', None, u.harness, (o.result.get('model') or '')[:3000])
                    self.violations.append(Violation(o.name, o.clause, o.func, inputs=None, replay=rp, reproduced=False,
                                                     detail='intermediate assertion of a loop-free function refuted; no concrete input replayed'))
                else:
                    for o in refuted:
                        self.undecided.append((o.name, 'auxiliary obligation refuted (counterexample to induction); bounded search k<=%d found no failing input' % u.bounded_k))


def main(pid, build, argv=None):
    import argparse
    ap = argparse.ArgumentParser()
    ap.add_argument('--tier', default=os.environ.get('VERIF_TIER', 'quick'))
    ap.add_argument('--replay', default=None)
    a = ap.parse_args(argv)
    seed = int(os.environ.get('VERIF_SEED', '0') or 0)
    if a.replay:
        path = a.replay if os.path.isabs(a.replay) else os.path.join(VERIF, a.replay)
        with open(path) as f:
            rp = json.load(f)
        if rp.get('kind') == 'ground' or rp.get('inputs') is None or not rp.get('harness'):
            # no concrete input to run: re-evaluate the named obligation on the current tree
            r = Runner(pid, build, tier=a.tier, seed=seed)
            r.run()
            hit = [v for v in r.violations if v.obligation == rp.get('obligation')]
            print(json.dumps({'obligation': rp.get('obligation'), 'reproduced': bool(hit)}))
            return 1 if hit else 0
        v = native_replay(path)
        print(json.dumps(v, indent=1))
        return 1 if v.get('reproduced') else 0
    try:
        r = Runner(pid, build, tier=a.tier, seed=seed)
        return r.run()
    except Exception:
        traceback.print_exc()
        print('CHECKER-CRASH property=%s' % pid)
        return 3
