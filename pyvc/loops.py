"""pyvc.loops -- cutting a loop at its contract-supplied invariant (initiation / preservation / exit, variant)."""
import ast
import z3
from .values import (Sym, Ref, LObj, DObj, SetObj, Obj, Unsupported, sort_of, fresh, parse_ty)
from .state import type_of, lift, mk
from . import ops


class LoopSpec:
    def __init__(self, invariant=(), decreases=None, modifies=(), types=None, index='_k', ghost=(), use=(), use_exit=(), use_head=(), header=None):
        self.header = header                # expected text of the loop header (for/while line without the colon): guards against ordinal drift
        self.invariant = [invariant] if isinstance(invariant, str) else list(invariant)
        self.decreases = decreases
        self.modifies = list(modifies)      # expressions naming heap objects the body mutates (beyond the syntactic ones)
        self.types = dict(types or {})      # name -> type for variables that are unbound/None before the loop
        self.index = index
        self.ghost = list(ghost)            # ghost variables the body updates
        self.use = [use] if isinstance(use, str) else list(use)                 # lemma instances assumed at the end of the body
        self.use_exit = [use_exit] if isinstance(use_exit, str) else list(use_exit)   # ... at loop exit
        self.use_head = [use_head] if isinstance(use_head, str) else list(use_head)   # ... at the loop head


MUTATORS = {'append', 'extend', 'insert', 'sort', 'pop', 'remove', 'update', 'add', 'clear', 'reverse'}


def assigned_names(body):
    names = []
    objs = []

    class V(ast.NodeVisitor):
        def visit_FunctionDef(self, n):
            names.append(n.name)

        def visit_Lambda(self, n):
            pass

        def visit_Name(self, n):
            if isinstance(n.ctx, (ast.Store, ast.Del)) and n.id not in names:
                names.append(n.id)

        def visit_Attribute(self, n):
            if isinstance(n.ctx, ast.Store):
                objs.append(n.value)
            self.generic_visit(n)

        def visit_Subscript(self, n):
            if isinstance(n.ctx, (ast.Store, ast.Del)):
                objs.append(n.value)
            self.generic_visit(n)

        def visit_AugAssign(self, n):
            if isinstance(n.target, ast.Name):
                objs.append(n.target)       # `lst += [...]` mutates in place
            self.generic_visit(n)

        def visit_Call(self, n):
            if isinstance(n.func, ast.Attribute) and n.func.attr in MUTATORS:
                objs.append(n.func.value)
            self.generic_visit(n)

        def visit_ListComp(self, n):
            pass

        def visit_GeneratorExp(self, n):
            pass

        def visit_DictComp(self, n):
            pass

        def visit_SetComp(self, n):
            pass
    v = V()
    for st in body:
        v.visit(st)
    return names, objs


def havoc_value(name, cur, st, types):
    if name in types:
        t = parse_ty(types[name])
    else:
        t = type_of(cur, st)
    if t is None or cur is None and name not in types:
        raise Unsupported('cannot havoc %s (value %r): give its type in the loop spec' % (name, cur))
    if isinstance(t, tuple) and t[0] == 'list':
        return st.new_symlist(fresh(name, t).t, t[1])
    return fresh(name, t)


def havoc_object(ip, st, ref, label, types):
    p = st.get(ref)
    if isinstance(p, LObj):
        t = type_of(ref, st)
        if label in types:
            t = parse_ty(types[label])
        if t is None:
            raise Unsupported('cannot havoc list %s: element type unknown (give it in the loop spec)' % label)
        m = st.mut(ref)
        m.items, m.sym, m.elty = None, fresh(label.replace('.', '_'), t).t, t[1]
        return
    if isinstance(p, Obj):
        m = st.mut(ref)
        for k, v in list(m.f.items()):
            key = '%s.%s' % (label, k)
            if isinstance(v, Ref):
                continue
            t = parse_ty(types[key]) if key in types else type_of(v, st)
            if t is None:
                if v is None or isinstance(v, (Obj,)):
                    continue
                continue
            if isinstance(t, tuple) and t[0] == 'list':
                continue
            m.f[k] = fresh(key.replace('.', '_'), t)
        return
    raise Unsupported('cannot havoc %s (%r)' % (label, p))


def eval_invariants(ip, st, spec, env, tag, stmt, kind):
    for n, inv in enumerate(spec.invariant):
        v = ip.eval_spec(inv, st, env)
        t = ip._z(ip.truth(v, st))
        ip.oblige(st, t, '%s#invariant[%d].%s@%d' % (ip.cur_func, n, tag, stmt.lineno), 'invariant-' + tag,
                  clause=inv, line=stmt.lineno)


def assume_invariants(ip, st, spec, env):
    for inv in spec.invariant:
        v = ip.eval_spec(inv, st, env)
        st.assume(ip._z(ip.truth(v, st)))


def cut_loop(ip, stmt, st, spec, kind, it):
    outs = []
    body = stmt.body
    names, objs = assigned_names(body)
    if kind == 'for':
        tnames, _ = assigned_names([ast.Expr(value=stmt.target)]) if False else ([], [])
        for n in ast.walk(stmt.target):
            if isinstance(n, ast.Name) and n.id not in names:
                names.append(n.id)
    # ------------------------------------------------------------ iteration domain
    K = spec.index
    dom = None
    if kind == 'for':
        dom = for_domain(ip, st, it, stmt)
    # ------------------------------------------------------------ values at loop entry (readable as at_entry.<var>)
    from .contracts import snapshot
    snap = {}
    for n, v in st.frame.items():
        if n.startswith('$'):
            continue
        try:
            snap[n] = snapshot(ip, st, v)
        except Unsupported:
            pass
    at_entry = st.new_obj('<entry>', snap)
    # ------------------------------------------------------------ initiation
    env0 = {'at_entry': at_entry}
    if kind == 'for':
        env0[K] = 0
        dom.bind_head(ip, st, stmt.target, 0, env0, init=True)
    s_init = st.clone()
    if kind == 'for':
        dom.bind_head(ip, s_init, stmt.target, 0, env0, init=True, assign=True)
    eval_invariants(ip, s_init, spec, env0, 'init', stmt, kind)
    # ------------------------------------------------------------ head state (havoc + assume invariant)
    head = st.clone()
    fr = head.frame
    for n in names:
        if n in spec.types and spec.types[n] is None:
            fr.pop(n, None)         # declared local to one iteration: unbound at the loop head
            continue
        if n in fr and not isinstance(fr[n], (type(None),)) or n in spec.types:
            cur = fr.get(n)
            from .values import FuncRef
            if isinstance(cur, FuncRef):
                continue
            if isinstance(cur, Ref):
                p = head.get(cur)
                if isinstance(p, LObj):
                    # the name is rebound in the loop: give it a fresh list object
                    t = parse_ty(spec.types[n]) if n in spec.types else type_of(cur, head)
                    if t is None:
                        raise Unsupported('cannot havoc list variable %s' % n)
                    fr[n] = head.new_symlist(fresh(n, t).t, t[1])
                    continue
                raise Unsupported('loop rebinds object variable %s' % n)
            fr[n] = havoc_value(n, cur, head, spec.types)
        elif n in fr and fr[n] is None:
            raise Unsupported('loop assigns %s which is None before the loop: give its type in the loop spec' % n)
    havoced = set()
    for oe in list(objs) + [ast.parse(m, mode='eval').body for m in spec.modifies]:
        try:
            ref = ip.eval(oe, head)
        except Unsupported:
            continue
        except Exception:
            continue
        if isinstance(ref, Ref) and ref.oid not in havoced:
            label = ast.unparse(oe)
            if isinstance(oe, ast.Name) and oe.id in names and oe.id in fr and isinstance(fr[oe.id], Ref) and fr[oe.id].oid != ref.oid:
                continue
            havoc_object(ip, head, ref, label, spec.types)
            havoced.add(ref.oid)
    for g in spec.ghost:
        cur = head.ghost.get(g)
        t = type_of(cur, head)
        if t is None:
            raise Unsupported('cannot havoc ghost %s' % g)
        head.ghost[g] = fresh('ghost_' + g, t) if not (isinstance(t, tuple) and t[0] == 'list') else head.new_symlist(fresh('ghost_' + g, t).t, t[1])
    envh = {'at_entry': at_entry}
    if kind == 'for':
        k = fresh(K, 'int')
        envh[K] = k
        head.assume(k.t >= 0)
        dom.assume_head(ip, head, k)
        dom.bind_head(ip, head, stmt.target, k, envh, assign=True, prehead=True)
    assume_invariants(ip, head, spec, envh)
    if spec.use_head:
        from .specs import use_lemmas
        use_lemmas(ip, head, spec.use_head, dict(envh))
    head_snapshot = head.clone()
    # ------------------------------------------------------------ preservation
    if kind == 'for':
        s = head.clone()
        s.assume(dom.has_next(ip, s, envh[K]))
        dom.bind_head(ip, s, stmt.target, envh[K], envh, assign=True)
        body_starts = [(s, None)]
    else:
        body_starts = []
        for k1, s1, c in ip.run_simple(head, lambda ss: ('cond', ip.truth(ip.eval(stmt.test, ss), ss))):
            if k1 == 'raise':
                outs.append((k1, s1, c))
                continue
            if isinstance(c, bool):
                if c:
                    body_starts.append((s1, None))
            else:
                s2 = s1.clone()
                s2.assume(c)
                body_starts.append((s2, None))
    var0 = None
    for s, _ in body_starts:
        if spec.decreases is not None:
            var0 = ip.eval_spec(spec.decreases, s, dict(envh))
            ip.oblige(s, ops.I(var0) >= 0, '%s#variant.nonneg@%d' % (ip.cur_func, stmt.lineno), 'variant', clause=spec.decreases, line=stmt.lineno)
        for k2, s2, v2 in ip.exec_block(body, s):
            if k2 in ('next', 'continue'):
                check_frame(ip, head_snapshot, s2, names, havoced, stmt, spec)
                if spec.use:
                    from .specs import use_lemmas
                    use_lemmas(ip, s2, spec.use, dict(envh))
                env2 = dict(envh)
                if kind == 'for':
                    env2[K] = ops.binop(ip, s2, ast.Add(), envh[K], 1)
                    dom.bind_head(ip, s2, stmt.target, env2[K], env2, assign=True, prehead=True)
                eval_invariants(ip, s2, spec, env2, 'preserve', stmt, kind)
                if spec.decreases is not None:
                    var1 = ip.eval_spec(spec.decreases, s2, env2)
                    ip.oblige(s2, ops.I(var1) < ops.I(var0), '%s#variant.decreases@%d' % (ip.cur_func, stmt.lineno), 'variant', clause=spec.decreases, line=stmt.lineno)
            elif k2 == 'break':
                check_frame(ip, head_snapshot, s2, names, havoced, stmt, spec, strict=False)
                outs.append(('next', s2, None))
            else:
                outs.append((k2, s2, v2))
    # ------------------------------------------------------------ exit
    if kind == 'for':
        s = head.clone()
        s.assume(ip.znot(dom.has_next(ip, s, envh[K])) if not isinstance(dom.has_next(ip, s, envh[K]), bool) else z3.BoolVal(not dom.has_next(ip, s, envh[K])))
        dom.bind_exit(ip, s, stmt.target, envh[K])
        exits = [s]
    else:
        exits = []
        for k1, s1, c in ip.run_simple(head, lambda ss: ('cond', ip.truth(ip.eval(stmt.test, ss), ss))):
            if k1 == 'raise':
                continue        # already reported above
            if isinstance(c, bool):
                if not c:
                    exits.append(s1)
            else:
                s1.assume(z3.Not(c))
                exits.append(s1)
    for s in exits:
        if spec.use_exit:
            from .specs import use_lemmas
            use_lemmas(ip, s, spec.use_exit, dict(envh))
        outs.extend(ip.exec_block(stmt.orelse, s) if stmt.orelse else [('next', s, None)])
    return outs


def check_frame(ip, head, post, names, havoced, stmt, spec, strict=True):
    """nothing outside the havoc set may have changed during one iteration"""
    fh, fp = head.frame, post.frame
    for k, v in fh.items():
        if k.startswith('$') or k in names:
            continue
        if k in fp and not _same(v, fp[k]):
            raise Unsupported('loop at line %d modifies %s, which is not in its havoc set' % (stmt.lineno, k))
    for oid, p in head.heap.items():
        if oid in havoced:
            continue
        q = post.heap.get(oid)
        if q is not None and q is not p:
            if _payload_same(p, q):
                continue
            raise Unsupported('loop at line %d modifies heap object #%d (%r), which is not in its havoc set; name it under modifies' % (stmt.lineno, oid, p))
    if not strict:
        # a path that leaves the loop (break): what it changed after the head is real on that path; the head itself is justified by the
        # check of the paths that go round again
        return
    for g, v in head.ghost.items():
        if g.startswith('$') or g in spec.ghost:
            continue
        if g in post.ghost and not _same(v, post.ghost[g]):
            raise Unsupported('loop at line %d modifies ghost %s' % (stmt.lineno, g))


def _same(a, b):
    from .state import values_equal
    return values_equal(a, b)


def _payload_same(p, q):
    if type(p) is not type(q):
        return False
    if isinstance(p, LObj):
        if p.items is not None and q.items is not None:
            return len(p.items) == len(q.items) and all(_same(x, y) for x, y in zip(p.items, q.items))
        if p.sym is not None and q.sym is not None:
            return p.sym.eq(q.sym)
        return False
    if isinstance(p, DObj):
        return list(p.d.keys()) == list(q.d.keys()) and all(_same(p.d[k], q.d[k]) for k in p.d)
    if isinstance(p, Obj):
        return p.cls == q.cls and set(p.f) == set(q.f) and all(_same(p.f[k], q.f[k]) for k in p.f)
    if isinstance(p, SetObj):
        return p.s == q.s
    return False


# ---------------------------------------------------------------------------------------------------- for-loop domains
class RangeDom:
    def __init__(self, start, stop, step):
        self.start, self.stop, self.step = start, stop, step
        if ops.is_sym(step) or step <= 0:
            raise Unsupported('range with symbolic or non-positive step')

    def value(self, k):
        return ops.I(self.start) + ops.I(k) * self.step

    def assume_head(self, ip, st, k):
        pass

    def has_next(self, ip, st, k):
        return self.value(k) < ops.I(self.stop)

    def bind_head(self, ip, st, target, k, env, init=False, assign=False, prehead=False):
        if assign and isinstance(target, ast.Name):
            st.frame[target.id] = mk(z3.simplify(self.value(k)), 'int')

    def bind_exit(self, ip, st, target, k):
        # after the loop the variable keeps its last value (if any iteration ran); unused afterwards in this code base
        if isinstance(target, ast.Name):
            st.frame[target.id] = mk(z3.simplify(self.value(k) - self.step), 'int')


class SeqDom:
    def __init__(self, term, elty, enum_start=None):
        self.term, self.elty, self.enum_start = term, elty, enum_start

    def assume_head(self, ip, st, k):
        st.assume(k.t <= z3.Length(self.term))

    def has_next(self, ip, st, k):
        return ops.I(k) < z3.Length(self.term)

    def elem(self, st, k):
        kk = ops.I(k)
        if self.elty == 'char':
            return mk(z3.SubString(self.term, kk, 1), 'str')
        if self.elty == 'byte':
            return mk(ops.code_at(st, self.term, kk, 'bytes'), 'int')
        return mk(self.term[kk], self.elty)

    def bind_head(self, ip, st, target, k, env, init=False, assign=False, prehead=False):
        if assign and not prehead:
            x = self.elem(st, k)
            if self.enum_start is not None:
                x = (ops.binop(ip, st, ast.Add(), k, self.enum_start), x)
            ip.assign(target, x, st)

    def bind_exit(self, ip, st, target, k):
        # helpful (sound) facts at exit: all elements were consumed, so the processed prefix is the whole sequence
        kk = ops.I(k)
        st.assume(kk == z3.Length(self.term))
        if self.elty in ('char', 'byte'):
            st.assume(z3.SubString(self.term, 0, kk) == self.term)
        else:
            st.assume(z3.Extract(self.term, z3.IntVal(0), kk) == self.term)


def for_domain(ip, st, it, stmt):
    if isinstance(it, Ref):
        p = st.get(it)
        if isinstance(p, Obj) and p.cls == '<range>':
            return RangeDom(p.f['start'], p.f['stop'], p.f['step'])
        if isinstance(p, Obj) and p.cls == '<enumerate>':
            sv = ops.seq_view(ip, st, p.f['it'])
            if sv is None:
                raise Unsupported('enumerate over %r' % (p.f['it'],))
            return SeqDom(sv[0], sv[1], enum_start=p.f['start'])
    if isinstance(it, range):
        return RangeDom(it.start, it.stop, it.step)
    sv = ops.seq_view(ip, st, it)
    if sv is None:
        raise Unsupported('for loop over %r' % (it,))
    return SeqDom(sv[0], sv[1])
