"""pyvc.ops -- models of Python's primitive operations, builtins, and the library functions ssh-audit uses.

Rule: when every operand is a concrete Python value the operation is executed by CPython itself (exact by
construction); otherwise the z3 encoding documented next to each case is used.  Anything not listed raises
`Unsupported` (the function becomes undecided).
"""
import ast
import z3
from .values import (Sym, Ref, LObj, DObj, SetObj, Obj, Unsupported, sort_of, zstr, is_opt, opt_none, opt_some,
                     opt_is_none, opt_val, FuncRef, BoundMethod, ClassRef, Builtin, ModuleRef, ExcVal, fresh,
                     parse_ty)
from .state import type_of, lift, mk, values_equal, unify_ty

BUILTINS = {'len', 'range', 'ord', 'chr', 'int', 'str', 'bool', 'bytes', 'bytearray', 'isinstance', 'max', 'min',
            'sorted', 'enumerate', 'list', 'tuple', 'dict', 'set', 'any', 'all', 'getattr', 'print', 'repr', 'abs',
            'sum', 'zip', 'hasattr', 'type', 'float', 'bin', 'hex', 'reversed', 'map', 'filter', 'open', 'id',
            'implies', 'iff', 'old', 'True', 'False', 'None', 'object', 'divmod', 'pow', 'round', 'callable',
            'Exception', 'frozenset', 'iter', 'next', 'super', 'format', 'setattr', 'chr8', 'all_bytes', 'ghost', 'is_blank', 'latin', 'in_ascii'}

MODULE_CONSTS = {
    'sys.maxsize': 2 ** 63 - 1,
    'sys.platform': 'linux',
    'os.name': 'posix',
    'socket.AF_INET': 2, 'socket.AF_INET6': 10, 'socket.AF_UNSPEC': 0, 'socket.SOCK_STREAM': 1,
    'socket.SOL_SOCKET': 1, 'socket.SO_REUSEADDR': 2, 'socket.IPPROTO_IPV6': 41, 'socket.IPV6_V6ONLY': 26,
    'errno.EINPROGRESS': 115, 'errno.EAGAIN': 11, 'errno.EWOULDBLOCK': 11, 'errno.EINTR': 4,
}


def install(interp):
    pass


# ------------------------------------------------------------------------------------------------ term helpers
def is_sym(v):
    return isinstance(v, Sym)


def I(v, st=None):
    if isinstance(v, Sym):
        if v.ty == 'int':
            return v.t
        if v.ty == 'bool':
            return z3.If(v.t, 1, 0)
        raise Unsupported('expected int, got %r' % (v,))
    if isinstance(v, bool):
        return z3.IntVal(int(v))
    if isinstance(v, int):
        return z3.IntVal(v)
    raise Unsupported('expected int, got %r' % (v,))


def S(v):
    if isinstance(v, Sym):
        if v.ty in ('str', 'bytes'):
            return v.t
        raise Unsupported('expected str/bytes, got %r' % (v,))
    if isinstance(v, (str, bytes)):
        return zstr(v)
    raise Unsupported('expected str/bytes, got %r' % (v,))


def B(v):
    if isinstance(v, Sym):
        if v.ty == 'bool':
            return v.t
        raise Unsupported('expected bool, got %r' % (v,))
    if isinstance(v, bool):
        return z3.BoolVal(v)
    raise Unsupported('expected bool, got %r' % (v,))


def sty(v):
    """'str' or 'bytes' tag of a string-like value"""
    if isinstance(v, Sym):
        return v.ty
    return 'bytes' if isinstance(v, bytes) else 'str'


def zmax(a, b):
    return z3.If(a >= b, a, b)


def zmin(a, b):
    return z3.If(a <= b, a, b)


def code_at(st, s, j, ty):
    """code of the j-th char (z3 terms); for bytes adds the type-invariant range fact"""
    c = z3.StrToCode(z3.SubString(s, j, 1))
    if ty == 'bytes' and st is not None:
        st.pc.append(z3.Implies(z3.And(j >= 0, j < z3.Length(s)), z3.And(c >= 0, c < 256)))
    return c


def pyint_str(t):
    """str(int) for a z3 Int"""
    return z3.If(t >= 0, z3.IntToStr(t), z3.Concat(z3.StringVal('-'), z3.IntToStr(-t)))


# ------------------------------------------------------------------------------------------------ binop
def binop(ip, st, op, a, b):
    if isinstance(op, ast.Mod) and isinstance(a, str):
        return percent_format(ip, st, a, b)        # '%s' % None is fine: no unwrapping of Optional arguments
    if (isinstance(a, Sym) and is_opt(a.ty)) or (isinstance(b, Sym) and is_opt(b.ty)):
        from .lib import unwrap_opt
        a, b = unwrap_opt(ip, st, a), unwrap_opt(ip, st, b)
    if not is_sym(a) and not is_sym(b) and not isinstance(a, Ref) and not isinstance(b, Ref):
        return concrete_binop(ip, st, op, a, b)
    # list operations
    if isinstance(a, Ref) or isinstance(b, Ref) or _is_listy(a, st) or _is_listy(b, st):
        return list_binop(ip, st, op, a, b)
    ta, tb = type_of(a, st), type_of(b, st)
    if ta in ('str', 'bytes') or tb in ('str', 'bytes'):
        return str_binop(ip, st, op, a, b, ta, tb)
    if ta in ('int', 'bool') and tb in ('int', 'bool'):
        return int_binop(ip, st, op, a, b)
    if isinstance(a, tuple) and isinstance(b, tuple) and isinstance(op, ast.Add):
        return a + b
    raise Unsupported('binop %s on %r, %r' % (type(op).__name__, a, b))


def concrete_binop(ip, st, op, a, b):
    try:
        if isinstance(op, ast.Add):
            return a + b
        if isinstance(op, ast.Sub):
            return a - b
        if isinstance(op, ast.Mult):
            return a * b
        if isinstance(op, ast.FloorDiv):
            return a // b
        if isinstance(op, ast.Div):
            return a / b
        if isinstance(op, ast.Mod):
            if isinstance(a, (str, bytes)):
                return percent_format(ip, st, a, b)
            return a % b
        if isinstance(op, ast.Pow):
            if isinstance(b, int) and b > 100000:
                raise Unsupported('huge power')
            return a ** b
        if isinstance(op, ast.LShift):
            if b > 1 << 20:
                raise Unsupported('huge shift')
            return a << b
        if isinstance(op, ast.RShift):
            return a >> b
        if isinstance(op, ast.BitAnd):
            return a & b
        if isinstance(op, ast.BitOr):
            return a | b
        if isinstance(op, ast.BitXor):
            return a ^ b
    except ZeroDivisionError:
        from .interp import Raise
        raise Raise(ExcVal('ZeroDivisionError', ()))
    except TypeError as e:
        if isinstance(a, tuple) or isinstance(b, tuple):
            # tuple with symbolic parts in a % format
            if isinstance(op, ast.Mod) and isinstance(a, str):
                return percent_format(ip, st, a, b)
        raise Unsupported('concrete binop type error: %s' % e)
    raise Unsupported('binop %s' % type(op).__name__)


def pow2_of(v):
    """k if v is the concrete int 2**k else None"""
    if isinstance(v, int) and not isinstance(v, bool) and v > 0 and v & (v - 1) == 0:
        return v.bit_length() - 1
    return None


BOR = z3.Function('py_bor', z3.IntSort(), z3.IntSort(), z3.IntSort())
BXOR = z3.Function('py_bxor', z3.IntSort(), z3.IntSort(), z3.IntSort())
BAND = z3.Function('py_band', z3.IntSort(), z3.IntSort(), z3.IntSort())
POW2 = z3.Function('pow2', z3.IntSort(), z3.IntSort())


def int_binop(ip, st, op, a, b):
    from .interp import Raise
    x, y = I(a), I(b)
    if isinstance(op, ast.Add):
        return mk(x + y, 'int')
    if isinstance(op, ast.Sub):
        return mk(x - y, 'int')
    if isinstance(op, ast.Mult):
        return mk(x * y, 'int')
    if isinstance(op, ast.Div):
        # true division of ints by a positive concrete int: kept as an exact quotient (value of type 'ratio' = (numerator term, divisor)); only
        # int() consumes it.  Exact w.r.t. CPython's float result while |numerator| < 2**53: that bound is a proof obligation here.
        if isinstance(b, int) and not isinstance(b, bool) and b > 0:
            ip.oblige(st, z3.And(x < 2 ** 53, x > -(2 ** 53)), '%s#float-exact@%d' % (ip.cur_func, getattr(ip, 'cur_line', 0) or 0), 'arith',
                      clause='int / %d is exact in double precision (|numerator| < 2**53)' % b)
            return Sym((x, b), 'ratio')
        raise Unsupported('true division with a symbolic or non-positive divisor')
    if isinstance(op, (ast.FloorDiv, ast.Mod)):
        # Python floor semantics.  z3's div/mod are Euclidean: identical for a positive divisor.
        if isinstance(b, int):
            if b == 0:
                raise Raise(ExcVal('ZeroDivisionError', ()))
            if b > 0:
                return mk(x / y if isinstance(op, ast.FloorDiv) else x % y, 'int')
            # negative concrete divisor: a // b == (-a) // (-b) ; a % b == -((-a) % (-b))
            if isinstance(op, ast.FloorDiv):
                return mk((-x) / (-y), 'int')
            return mk(-((-x) % (-y)), 'int')
        ip.cond_raise(st, y == 0, 'ZeroDivisionError')
        q = z3.If(y > 0, x / y, (-x) / (-y))
        if isinstance(op, ast.FloorDiv):
            return mk(q, 'int')
        return mk(x - q * y, 'int')
    if isinstance(op, ast.LShift):
        if isinstance(b, int):
            if b < 0:
                raise Raise(ExcVal('ValueError', ('negative shift count',)))
            return mk(x * (2 ** b), 'int')
        ip.cond_raise(st, y < 0, 'ValueError', 'negative shift count')
        st.pc.append(POW2(y) >= 1)
        return mk(x * POW2(y), 'int')
    if isinstance(op, ast.RShift):
        if isinstance(b, int):
            if b < 0:
                raise Raise(ExcVal('ValueError', ('negative shift count',)))
            return mk(x / (2 ** b), 'int')
        ip.cond_raise(st, y < 0, 'ValueError', 'negative shift count')
        st.pc.append(POW2(y) >= 1)
        return mk(x / POW2(y), 'int')
    if isinstance(op, ast.BitAnd):
        # x & (2^k - 1) == x mod 2^k (any sign of x);  x & 2^k == ((x div 2^k) mod 2) * 2^k
        for u, v in ((a, b), (b, a)):
            if isinstance(v, int) and not isinstance(v, bool):
                if v >= 0 and pow2_of(v + 1) is not None:
                    return mk(I(u) % (v + 1), 'int')
                k = pow2_of(v)
                if k is not None:
                    return mk(((I(u) / v) % 2) * v, 'int')
        r = BAND(x, y)
        return mk(r, 'int')
    if isinstance(op, ast.BitOr):
        r = BOR(x, y)
        # sound facts about | (lemma L-OR, proved with bit-vectors in lemmas.py and cross-checked on CPython)
        for k in (8, 16, 32, 64):
            m = 2 ** k
            st.pc.append(z3.Implies(z3.And(x % m == 0, y >= 0, y < m), r == x + y))
            st.pc.append(z3.Implies(z3.And(x % m == 0, y < 0, y >= -m), r == y))
            st.pc.append(z3.Implies(z3.And(y % m == 0, x >= 0, x < m), r == x + y))
        return mk(r, 'int')
    if isinstance(op, ast.BitXor):
        return mk(BXOR(x, y), 'int')
    if isinstance(op, ast.Pow):
        if isinstance(a, int) and a == 2:
            ip.cond_raise(st, y < 0, 'ValueError')
            st.pc.append(POW2(y) >= 1)
            return mk(POW2(y), 'int')
        if isinstance(b, int) and 0 <= b <= 4:
            r = z3.IntVal(1)
            for _ in range(b):
                r = r * x
            return mk(r, 'int')
        raise Unsupported('symbolic power')
    raise Unsupported('int binop %s' % type(op).__name__)


def str_binop(ip, st, op, a, b, ta, tb):
    if isinstance(op, ast.Add):
        if ta != tb:
            raise Unsupported('str + bytes')
        return mk(z3.Concat(S(a), S(b)), ta)
    if isinstance(op, ast.Mult):
        # str * int
        s, n = (a, b) if ta in ('str', 'bytes') else (b, a)
        t = sty(s)
        if isinstance(n, int):
            if n <= 0:
                return '' if t == 'str' else b''
            parts = [S(s)] * n
            return mk(parts[0] if n == 1 else z3.Concat(*parts), t)
        if isinstance(s, (str, bytes)) and len(s) == 1:
            # single char repeated a symbolic number of times: the recursive spec function rep / rep_s; its length
            # (lemma rep_len, proved in the lemma library of every check that gets here) is stated at creation
            r = ip.specs.call(ip, st, 'rep' if t == 'bytes' else 'rep_s', [s, n], {})
            nn = I(n)
            st.pc.append(z3.Length(S(r)) == z3.If(nn > 0, nn, 0))
            ip.used_lemmas.add('rep_len' if t == 'bytes' else 'rep_s_len')
            return r
        raise Unsupported('symbolic string repetition')
    if isinstance(op, ast.Mod):
        if isinstance(a, (str,)):
            return percent_format(ip, st, a, b)
        raise Unsupported('symbolic format string')
    raise Unsupported('str binop %s' % type(op).__name__)


def _is_listy(v, st):
    if isinstance(v, Sym):
        return isinstance(v.ty, tuple) and v.ty[0] == 'list'
    return isinstance(v, Ref) and isinstance(st.get(v), LObj)


def list_binop(ip, st, op, a, b):
    if isinstance(op, ast.Add) and _is_listy(a, st) and _is_listy(b, st) and (isinstance(a, Sym) or isinstance(b, Sym)):
        ta, tb = type_of(a, st), type_of(b, st)
        t = ta or tb
        if ta is not None and tb is not None and ta != tb:
            e = unify_ty(ta[1], tb[1])
            t = ('list', e) if e is not None else None
        if t is None:
            raise Unsupported('list + list of unknown element type')
        return st.new_symlist(z3.Concat(lift(a, st, t), lift(b, st, t)), t[1])
    if isinstance(op, ast.Add) and isinstance(a, Ref) and isinstance(b, Ref):
        pa, pb = st.get(a), st.get(b)
        if isinstance(pa, LObj) and isinstance(pb, LObj):
            if pa.items is not None and pb.items is not None:
                return st.new_list(pa.items + pb.items, pa.elty or pb.elty)
            ta, tb = type_of(a, st), type_of(b, st)
            t = ta or tb
            if t is None:
                raise Unsupported('list + list of unknown type')
            return st.new_symlist(z3.Concat(lift(a, st, t), lift(b, st, t)), t[1])
    if isinstance(op, ast.Mult):
        l, n = (a, b) if isinstance(a, Ref) else (b, a)
        p = st.get(l)
        if isinstance(p, LObj) and p.items is not None and isinstance(n, int):
            return st.new_list(p.items * n, p.elty)
        if isinstance(p, LObj) and p.items is not None and len(p.items) == 1 and is_sym(n):
            # [x] * n with symbolic n : sequence of length max(n,0) whose every element is x
            x = p.items[0]
            tx = type_of(x, st)
            if tx is None:
                raise Unsupported('[x]*n element type')
            r = z3.Const(fresh('rep', 'int').t.decl().name() + '_l', z3.SeqSort(sort_of(tx)))
            nn = I(n)
            j = z3.Int('j!rep')
            st.pc.append(z3.Length(r) == z3.If(nn > 0, nn, 0))
            st.pc.append(z3.ForAll([j], z3.Implies(z3.And(j >= 0, j < z3.Length(r)), r[j] == lift(x, st, tx))))
            return st.new_symlist(r, tx)
    if isinstance(op, ast.Mod) and isinstance(a, str):
        return percent_format(ip, st, a, b)
    raise Unsupported('list binop %s' % type(op).__name__)


# ------------------------------------------------------------------------------------------------ formatting
def to_str(ip, st, v):
    """str(v) as python str or Sym str"""
    if isinstance(v, Sym):
        if v.ty == 'str':
            return v
        if v.ty == 'int':
            return mk(pyint_str(v.t), 'str')
        if v.ty == 'bool':
            return mk(z3.If(v.t, z3.StringVal('True'), z3.StringVal('False')), 'str')
        if is_opt(v.ty) and v.ty[1] == 'str':
            return mk(z3.If(opt_is_none(v.ty, v.t), z3.StringVal('None'), opt_val(v.ty, v.t)), 'str')
        return opaque_str(st, 'str', v)
    if isinstance(v, (int, str, bool, float)) or v is None:
        return str(v)
    if isinstance(v, bytes):
        return str(v)
    if isinstance(v, Ref):
        p = st.get(v)
        if isinstance(p, Obj) and not p.cls.startswith('<'):
            ent = ip.repo.class_member(p.cls, '__str__')
            if ent is not None:
                return ip.call_method(v, '__str__', [], {}, st)
        if isinstance(p, LObj) and p.items is not None and all(not is_sym(x) and not isinstance(x, Ref) for x in p.items):
            return str(list(p.items))
        return opaque_str(st, 'str', v)
    if isinstance(v, tuple):
        if all(not is_sym(x) and not isinstance(x, Ref) for x in v):
            return str(v)
        return opaque_str(st, 'str', v)
    if isinstance(v, ExcVal):
        if len(v.args) == 1:
            return to_str(ip, st, v.args[0])
        if len(v.args) == 0:
            return ''
        return opaque_str(st, 'str', v)
    raise Unsupported('str() of %r' % (v,))


_opaque_n = [0]


def opaque_str(st, what, v):
    """an unconstrained fresh string standing for a rendering this model does not define (repr(), %r, str(list)...)"""
    return fresh('opaque_' + what, 'str')


def to_repr(ip, st, v):
    if not is_sym(v) and not isinstance(v, (Ref, tuple)):
        return repr(v)
    if isinstance(v, tuple) and all(not is_sym(x) and not isinstance(x, Ref) for x in v):
        return repr(v)
    return opaque_str(st, 'repr', v)


def concat_strs(ip, st, parts):
    if all(isinstance(p, str) for p in parts):
        return ''.join(parts)
    ts = []
    for p in parts:
        if isinstance(p, str) and p == '':
            continue
        ts.append(S(p))
    if not ts:
        return ''
    return mk(ts[0] if len(ts) == 1 else z3.Concat(*ts), 'str')


def percent_format(ip, st, fmt, arg):
    """'...%s...%d' % args  for a concrete format string"""
    if isinstance(fmt, bytes):
        raise Unsupported('bytes % format')
    if isinstance(arg, tuple):
        args = list(arg)
    else:
        args = [arg]
    if all(not is_sym(a) and not isinstance(a, Ref) and not isinstance(a, ExcVal) for a in args):
        try:
            return fmt % (tuple(args) if isinstance(arg, tuple) else arg)
        except (TypeError, ValueError) as e:
            from .interp import Raise
            raise Raise(ExcVal(type(e).__name__, (str(e),)))
    parts = []
    i = 0
    ai = 0
    lit = ''
    while i < len(fmt):
        ch = fmt[i]
        if ch != '%':
            lit += ch
            i += 1
            continue
        if i + 1 >= len(fmt):
            raise Unsupported('bad format')
        c2 = fmt[i + 1]
        if c2 == '%':
            lit += '%'
            i += 2
            continue
        if c2 not in 'sdur':
            raise Unsupported('format directive %%%s with symbolic argument' % c2)
        if ai >= len(args):
            from .interp import Raise
            raise Raise(ExcVal('TypeError', ('not enough arguments for format string',)))
        parts.append(lit)
        lit = ''
        a = args[ai]
        ai += 1
        if c2 == 's':
            parts.append(to_str(ip, st, a))
        elif c2 in 'du':
            if type_of(a, st) not in ('int', 'bool'):
                from .interp import Raise
                raise Raise(ExcVal('TypeError', ('%d format: a number is required',)))
            parts.append(to_str(ip, st, a) if not isinstance(a, bool) else str(int(a)))
        else:
            parts.append(to_repr(ip, st, a))
        i += 2
    parts.append(lit)
    if ai != len(args):
        from .interp import Raise
        raise Raise(ExcVal('TypeError', ('not all arguments converted during string formatting',)))
    return concat_strs(ip, st, parts)


def str_format(ip, st, fmt, args, kwargs):
    """'{} {0} {name}'.format(...)  for a concrete format string, plain fields only"""
    if all(not is_sym(a) and not isinstance(a, (Ref, ExcVal)) and not (isinstance(a, tuple) and any(is_sym(x) for x in a)) for a in list(args) + list(kwargs.values())):
        try:
            return fmt.format(*args, **kwargs)
        except (IndexError, KeyError, ValueError) as e:
            from .interp import Raise
            raise Raise(ExcVal(type(e).__name__, (str(e),)))
    parts = []
    lit = ''
    i = 0
    auto = 0
    while i < len(fmt):
        ch = fmt[i]
        if ch == '{':
            if i + 1 < len(fmt) and fmt[i + 1] == '{':
                lit += '{'
                i += 2
                continue
            j = fmt.index('}', i)
            field = fmt[i + 1:j]
            int_only = False
            if field.endswith(':d') and not any(c in field[:-2] for c in ':!.['):
                # '{:d}' / '{0:d}': decimal rendering of an int (same text as '{}' for an int; anything else raises ValueError in CPython)
                field, int_only = field[:-2], True
            if ':' in field or '!' in field or '.' in field or '[' in field:
                raise Unsupported('format field %r with symbolic argument' % field)
            if field == '':
                a = args[auto]
                auto += 1
            elif field.isdigit():
                a = args[int(field)]
            else:
                a = kwargs[field]
            parts.append(lit)
            lit = ''
            if int_only and not (isinstance(a, int) or (isinstance(a, Sym) and a.ty in ('int', 'bool'))):
                raise Unsupported("format field ':d' with a non-integer argument")
            parts.append(to_str(ip, st, a) if not isinstance(a, bool) else str(int(a)))
            i = j + 1
            continue
        if ch == '}':
            if i + 1 < len(fmt) and fmt[i + 1] == '}':
                lit += '}'
                i += 2
                continue
            raise Unsupported('bad format string')
        lit += ch
        i += 1
    parts.append(lit)
    return concat_strs(ip, st, parts)


# ------------------------------------------------------------------------------------------------ compare
def compare(ip, st, op, a, b):
    if isinstance(op, (ast.Is, ast.IsNot)):
        r = is_same(ip, st, a, b)
        if isinstance(op, ast.IsNot):
            r = (not r) if isinstance(r, bool) else mk(z3.Not(r.t), 'bool')
        return r
    if isinstance(op, (ast.In, ast.NotIn)):
        r = contains(ip, st, b, a)
        if isinstance(op, ast.NotIn):
            r = (not r) if isinstance(r, bool) else mk(z3.Not(B(r)), 'bool')
        return r
    if isinstance(op, (ast.Eq, ast.NotEq)):
        r = equals(ip, st, a, b)
        if isinstance(op, ast.NotEq):
            r = (not r) if isinstance(r, bool) else mk(z3.Not(B(r)), 'bool')
        return r
    # ordering
    if not is_sym(a) and not is_sym(b) and not isinstance(a, Ref) and not isinstance(b, Ref):
        try:
            if isinstance(op, ast.Lt):
                return a < b
            if isinstance(op, ast.LtE):
                return a <= b
            if isinstance(op, ast.Gt):
                return a > b
            if isinstance(op, ast.GtE):
                return a >= b
        except TypeError:
            pass
    ta, tb = type_of(a, st), type_of(b, st)
    if ta in ('int', 'bool') and tb in ('int', 'bool'):
        x, y = I(a), I(b)
        if isinstance(op, ast.Lt):
            return mk(x < y, 'bool')
        if isinstance(op, ast.LtE):
            return mk(x <= y, 'bool')
        if isinstance(op, ast.Gt):
            return mk(x > y, 'bool')
        if isinstance(op, ast.GtE):
            return mk(x >= y, 'bool')
    if ta == 'str' and tb == 'str':
        # code point lexicographic order == CPython's str ordering
        x, y = S(a), S(b)
        if isinstance(op, ast.Lt):
            return mk(x < y, 'bool')
        if isinstance(op, ast.LtE):
            return mk(x <= y, 'bool')
        if isinstance(op, ast.Gt):
            return mk(y < x, 'bool')
        if isinstance(op, ast.GtE):
            return mk(y <= x, 'bool')
    if isinstance(a, tuple) and isinstance(b, tuple):
        # lexicographic tuple ordering; when one is a proper prefix of the other the shorter one is smaller
        lt = ast.Lt() if isinstance(op, (ast.Lt, ast.LtE)) else ast.Gt()
        n = min(len(a), len(b))
        if len(a) == len(b):
            res = isinstance(op, (ast.LtE, ast.GtE))
        elif len(a) < len(b):
            res = isinstance(op, (ast.Lt, ast.LtE))
        else:
            res = isinstance(op, (ast.Gt, ast.GtE))
        for i in range(n - 1, -1, -1):
            s_lt = compare(ip, st, lt, a[i], b[i])
            s_eq = equals(ip, st, a[i], b[i])
            res = zor(s_lt, zand(s_eq, res))
        return res
    raise Unsupported('ordering comparison of %r and %r' % (a, b))


def zand(a, b):
    if isinstance(a, bool):
        return b if a else False
    if isinstance(b, bool):
        return a if b else False
    return mk(z3.And(B(a), B(b)), 'bool')


def zor(a, b):
    if isinstance(a, bool):
        return True if a else b
    if isinstance(b, bool):
        return True if b else a
    return mk(z3.Or(B(a), B(b)), 'bool')


def znot(a):
    if isinstance(a, bool):
        return not a
    return mk(z3.Not(B(a)), 'bool')


def is_same(ip, st, a, b):
    if b is None or a is None:
        x = a if b is None else b
        if x is None:
            return True
        if isinstance(x, Sym) and is_opt(x.ty):
            return mk(opt_is_none(x.ty, x.t), 'bool')
        return False
    if isinstance(a, bool) or isinstance(b, bool):
        # `x is False` / `x is True`
        x, c = (a, b) if isinstance(b, bool) else (b, a)
        if isinstance(x, bool):
            return x == c
        if isinstance(x, Sym) and x.ty == 'bool':
            return mk(x.t if c else z3.Not(x.t), 'bool')
        return False
    if isinstance(a, Ref) and isinstance(b, Ref):
        return a.oid == b.oid
    if isinstance(a, (ClassRef, Builtin, FuncRef)) and isinstance(b, (ClassRef, Builtin, FuncRef)):
        return a == b
    raise Unsupported('`is` on %r, %r' % (a, b))


def equals(ip, st, a, b):
    if not is_sym(a) and not is_sym(b) and not isinstance(a, (Ref, tuple)) and not isinstance(b, (Ref, tuple)):
        if isinstance(a, (ClassRef, Builtin, FuncRef, BoundMethod, ModuleRef, ExcVal)) or \
                isinstance(b, (ClassRef, Builtin, FuncRef, BoundMethod, ModuleRef, ExcVal)):
            return values_equal(a, b)
        return a == b
    if a is None or b is None:
        x = a if b is None else b
        if isinstance(x, Sym) and is_opt(x.ty):
            return mk(opt_is_none(x.ty, x.t), 'bool')
        return x is None
    if isinstance(a, tuple) or isinstance(b, tuple):
        if not (isinstance(a, tuple) and isinstance(b, tuple)):
            if isinstance(a, Sym) or isinstance(b, Sym):
                raise Unsupported('tuple == symbolic')
            return False
        if len(a) != len(b):
            return False
        r = True
        for x, y in zip(a, b):
            r = zand(r, equals(ip, st, x, y))
            if r is False:
                return False
        return r
    if isinstance(a, Ref) or isinstance(b, Ref):
        if isinstance(a, Ref) and isinstance(b, Ref):
            if a.oid == b.oid:
                return True
            pa, pb = st.get(a), st.get(b)
            if isinstance(pa, LObj) and isinstance(pb, LObj):
                if pa.items is not None and pb.items is not None:
                    if len(pa.items) != len(pb.items):
                        return False
                    r = True
                    for x, y in zip(pa.items, pb.items):
                        r = zand(r, equals(ip, st, x, y))
                        if r is False:
                            return False
                    return r
                ta, tb = type_of(a, st), type_of(b, st)
                t = ta or tb
                if ta is not None and tb is not None and ta != tb:
                    t = ('list', unify_ty(ta[1], tb[1]))
                    if t[1] is None:
                        raise Unsupported('list == list of different element types')
                if t is None:
                    raise Unsupported('list == list of unknown type')
                return mk(lift(a, st, t) == lift(b, st, t), 'bool')
            if isinstance(pa, DObj) and isinstance(pb, DObj):
                if set(pa.d.keys()) != set(pb.d.keys()):
                    return False
                r = True
                for k in pa.d:
                    r = zand(r, equals(ip, st, pa.d[k], pb.d[k]))
                    if r is False:
                        return False
                return r
            if isinstance(pa, Obj) and isinstance(pb, Obj):
                return False
            return False
        # list vs Sym list
        l, o = (a, b) if isinstance(a, Ref) else (b, a)
        if isinstance(o, Sym) and isinstance(o.ty, tuple) and o.ty[0] == 'list':
            return mk(lift(l, st, o.ty) == o.t, 'bool')
        return False
    ta, tb = type_of(a, st), type_of(b, st)
    if ta in ('int', 'bool') and tb in ('int', 'bool'):
        if ta == 'bool' and tb == 'bool':
            return mk(B(a) == B(b), 'bool')
        return mk(I(a) == I(b), 'bool')
    if ta == tb and ta is not None:
        return mk(lift(a, st, ta) == lift(b, st, tb), 'bool')
    t = unify_ty(ta, tb)
    if t is not None:
        return mk(lift(a, st, t) == lift(b, st, t), 'bool')
    if ta is not None and tb is not None:
        if {ta, tb} <= {'str', 'bytes'}:
            return False
        return False
    raise Unsupported('== on %r, %r' % (a, b))


def contains(ip, st, container, x):
    if isinstance(container, Builtin) and container.name == 'sys.modules':
        return False        # posix without optional modules (stated assumption)
    if isinstance(container, (str, bytes)) and isinstance(x, (str, bytes)):
        return x in container
    if isinstance(container, (str, bytes, Sym)) and type_of(container, st) in ('str', 'bytes'):
        if type_of(container, st) == 'bytes' and type_of(x, st) == 'int':
            raise Unsupported('int in bytes')
        return mk(z3.Contains(S(container), S(x)), 'bool')
    if isinstance(container, tuple):
        r = False
        for y in container:
            r = zor(r, equals(ip, st, x, y))
            if r is True:
                return True
        return r
    if isinstance(container, Sym) and isinstance(container.ty, tuple) and container.ty[0] == 'list':
        return mk(z3.Contains(container.t, z3.Unit(lift(x, st, container.ty[1]))), 'bool')
    if isinstance(container, Ref):
        p = st.get(container)
        if isinstance(p, LObj):
            if p.items is not None:
                r = False
                for y in p.items:
                    r = zor(r, equals(ip, st, x, y))
                    if r is True:
                        return True
                return r
            return mk(z3.Contains(p.sym, z3.Unit(lift(x, st, p.elty))), 'bool')
        if isinstance(p, DObj):
            if not is_sym(x):
                try:
                    return x in p.d
                except TypeError:
                    return False
            r = False
            for k in p.d:
                r = zor(r, equals(ip, st, x, k))
            return r
        if isinstance(p, SetObj):
            r = False
            for k in p.s:
                r = zor(r, equals(ip, st, x, k))
                if r is True:
                    return True
            return r
        if isinstance(p, Obj):
            if not p.cls.startswith('<') and ip.repo.class_member(p.cls, '__contains__'):
                return ip.call_method(container, '__contains__', [x], {}, st)
            mm = ip.method_models.get((p.cls, '__contains__'))
            if mm is not None:
                return mm(ip, st, container, [x], {})
    raise Unsupported('`in` on %r' % (container,))


# ------------------------------------------------------------------------------------------------ subscripts
def norm_index(i, n, st=None):
    """python index normalisation for z3 ints: i if i >= 0 else n + i"""
    if nonneg(i, st):
        return i
    return z3.If(i < 0, n + i, i)


def nonneg(t, st, depth=0, memo=None):
    """cheap syntactic sign analysis: True if the z3 Int term is certainly >= 0 under the path condition
    (memoised per top-level call, with a budget of visited nodes: giving up answers False, which only makes terms larger)"""
    if memo is None:
        memo = {'$n': 0}
    key = t.get_id()
    if key in memo:
        return memo[key]
    memo['$n'] += 1
    if memo['$n'] > 300:
        return False
    r = _nonneg(t, st, depth, memo)
    memo[key] = r
    return r


def _nonneg(t, st, depth, memo):
    if depth > 6:
        return False
    if z3.is_int_value(t):
        return t.as_long() >= 0
    if z3.is_app(t):
        k = t.decl().kind()
        if k == z3.Z3_OP_SEQ_LENGTH:
            return True
        if k == z3.Z3_OP_ADD or k == z3.Z3_OP_MUL:
            return all(nonneg(c, st, depth + 1, memo) for c in t.children())
        if k in (z3.Z3_OP_MOD,):
            return True
        if k == z3.Z3_OP_ITE:
            return nonneg(t.arg(1), st, depth + 1, memo) and nonneg(t.arg(2), st, depth + 1, memo)
        if k == z3.Z3_OP_IDIV:
            return nonneg(t.arg(0), st, depth + 1, memo) and nonneg(t.arg(1), st, depth + 1, memo)
    if st is not None and depth <= 3:
        for f in st.pc[-80:]:
            if _states_nonneg(f, t):
                return True
    return False


def _states_nonneg(f, t):
    if z3.is_and(f):
        return any(_states_nonneg(c, t) for c in f.children())
    if z3.is_app(f) and f.num_args() == 2:
        k = f.decl().kind()
        a, b = f.arg(0), f.arg(1)
        if k == z3.Z3_OP_GE and a.eq(t) and z3.is_int_value(b) and b.as_long() >= 0:
            return True
        if k == z3.Z3_OP_GT and a.eq(t) and z3.is_int_value(b) and b.as_long() >= -1:
            return True
        if k == z3.Z3_OP_LE and b.eq(t) and z3.is_int_value(a) and a.as_long() >= 0:
            return True
        if k == z3.Z3_OP_LT and b.eq(t) and z3.is_int_value(a) and a.as_long() >= -1:
            return True
    return False


def slice_bounds(lo, hi, n, st=None):
    """-> (start, end) z3 Ints after python's negative-index adjustment (clamping at n is left to substr/extract,
    which truncate at the end of the sequence and return the empty sequence for an empty or inverted range)"""
    if lo is None:
        start = z3.IntVal(0)
    elif isinstance(lo, int):
        start = z3.IntVal(lo) if lo >= 0 else zmax(n + lo, z3.IntVal(0))
    else:
        l = I(lo)
        start = l if nonneg(l, st) else z3.If(l < 0, zmax(n + l, z3.IntVal(0)), l)
    if hi is None:
        end = n
    elif isinstance(hi, int):
        end = z3.IntVal(hi) if hi >= 0 else n + hi      # may be negative: substr/extract then yield the empty sequence, as python does
    else:
        h = I(hi)
        end = h if nonneg(h, st) else z3.If(h < 0, n + h, h)
    return start, end


def getitem(ip, st, obj, idx):
    from .interp import Raise
    from .lib import unwrap_opt
    obj = unwrap_opt(ip, st, obj)
    if isinstance(idx, tuple) and len(idx) == 4 and idx[0] == 'slice':
        _, lo, hi, step = idx
        if step is not None:
            if not is_sym(obj) and not isinstance(obj, Ref) and not is_sym(lo) and not is_sym(hi) and not is_sym(step):
                return obj[lo:hi:step]
            raise Unsupported('slice step')
        if isinstance(obj, (str, bytes, tuple)) and not is_sym(lo) and not is_sym(hi):
            return obj[lo:hi]
        if isinstance(obj, tuple):
            raise Unsupported('symbolic tuple slice')
        t = type_of(obj, st)
        if t in ('str', 'bytes'):
            s = S(obj)
            start, end = slice_bounds(lo, hi, z3.Length(s), st)
            return mk(z3.SubString(s, start, end - start), t)
        if isinstance(obj, Ref):
            p = st.get(obj)
            if isinstance(p, LObj):
                if p.items is not None and not is_sym(lo) and not is_sym(hi):
                    return st.new_list(p.items[lo:hi], p.elty)
                tl = type_of(obj, st)
                if tl is None:
                    raise Unsupported('slice of untyped list')
                q = lift(obj, st, tl)
                start, end = slice_bounds(lo, hi, z3.Length(q), st)
                return st.new_symlist(z3.Extract(q, start, end - start), tl[1])
            if isinstance(p, Obj) and p.cls == '<bytearray>':
                return getitem(ip, st, p.f['val'], idx)
        if isinstance(obj, Sym) and isinstance(obj.ty, tuple) and obj.ty[0] == 'list':
            start, end = slice_bounds(lo, hi, z3.Length(obj.t), st)
            return Sym(z3.Extract(obj.t, start, end - start), obj.ty)
        raise Unsupported('slice of %r' % (obj,))
    # plain index
    if isinstance(obj, (str, bytes, tuple)) and not is_sym(idx):
        try:
            return obj[idx]
        except IndexError:
            raise Raise(ExcVal('IndexError', ()))
        except TypeError:
            raise Unsupported('index type')
    if isinstance(obj, tuple):
        # symbolic index into a concrete tuple: ite chain
        i = I(idx)
        n = len(obj)
        ip.cond_raise(st, z3.Or(i < -n, i >= n), 'IndexError')
        t = None
        for x in obj:
            t = unify_ty(t, type_of(x, st)) if t is not None else type_of(x, st)
        if t is None:
            raise Unsupported('symbolic index into heterogeneous tuple')
        ii = norm_index(i, n, st)
        term = lift(obj[-1], st, t)
        for k in range(n - 2, -1, -1):
            term = z3.If(ii == k, lift(obj[k], st, t), term)
        return mk(term, t)
    t = type_of(obj, st)
    if t in ('str', 'bytes'):
        s = S(obj)
        n = z3.Length(s)
        i = I(idx)
        ip.cond_raise(st, z3.Or(i < -n, i >= n), 'IndexError')
        ii = norm_index(i, n, st)
        if t == 'bytes':
            return mk(code_at(st, s, ii, 'bytes'), 'int')
        return mk(z3.SubString(s, ii, 1), 'str')
    if isinstance(obj, Ref):
        p = st.get(obj)
        if isinstance(p, LObj):
            if p.items is not None:
                if not is_sym(idx):
                    try:
                        return p.items[idx]
                    except IndexError:
                        raise Raise(ExcVal('IndexError', ()))
                    except TypeError:
                        raise Unsupported('list index type %r' % (idx,))
                i = I(idx)
                n = len(p.items)
                ip.cond_raise(st, z3.Or(i < -n, i >= n), 'IndexError')
                tl = type_of(obj, st)
                if tl is None:
                    # fork over positions
                    k = ip.choose(st, n)
                    st.pc.append(norm_index(i, n) == k)
                    return p.items[k]
                ii = norm_index(i, n, st)
                term = lift(p.items[-1], st, tl[1])
                for k in range(n - 2, -1, -1):
                    term = z3.If(ii == k, lift(p.items[k], st, tl[1]), term)
                return mk(term, tl[1])
            i = I(idx)
            n = z3.Length(p.sym)
            ip.cond_raise(st, z3.Or(i < -n, i >= n), 'IndexError')
            ii = norm_index(i, n, st)
            return mk(p.sym[ii], p.elty)
        if isinstance(p, DObj):
            if not is_sym(idx):
                try:
                    if idx in p.d:
                        return p.d[idx]
                except TypeError:
                    raise Unsupported('unhashable key')
                raise Raise(ExcVal('KeyError', (idx,)))
            # symbolic key into a dict with concrete keys: KeyError unless equal to some key; fork over keys
            keys = list(p.d.keys())
            ty = type_of(idx, st)
            cands = [k for k in keys if type_of(k, st) == ty]
            none_eq = z3.And([lift(idx, st, ty) != lift(k, st, ty) for k in cands]) if cands else z3.BoolVal(True)
            ip.cond_raise(st, none_eq, 'KeyError', idx)
            vals = [p.d[k] for k in cands]
            tv = None
            ok = True
            for v in vals:
                t1 = type_of(v, st)
                if t1 is None or (isinstance(t1, tuple) and t1[0] == 'list'):
                    ok = False
                    break
                tv = t1 if tv is None else unify_ty(tv, t1)
                if tv is None:
                    ok = False
                    break
            if ok and vals:
                term = lift(vals[-1], st, tv)
                for k, v in zip(reversed(cands[:-1]), reversed(vals[:-1])):
                    term = z3.If(lift(idx, st, ty) == lift(k, st, ty), lift(v, st, tv), term)
                return mk(term, tv)
            c = ip.choose(st, len(cands))
            st.pc.append(lift(idx, st, ty) == lift(cands[c], st, ty))
            return vals[c]
        if isinstance(p, Obj):
            if p.cls == '<bytearray>':
                return getitem(ip, st, p.f['val'], idx)
            mm = ip.method_models.get((p.cls, '__getitem__'))
            if mm is not None:
                return mm(ip, st, obj, [idx], {})
            if not p.cls.startswith('<') and ip.repo.class_member(p.cls, '__getitem__'):
                return ip.call_method(obj, '__getitem__', [idx], {}, st)
    if isinstance(obj, Sym) and isinstance(obj.ty, tuple) and obj.ty[0] == 'list':
        i = I(idx)
        n = z3.Length(obj.t)
        ip.cond_raise(st, z3.Or(i < -n, i >= n), 'IndexError')
        ii = norm_index(i, n, st)
        return mk(obj.t[ii], obj.ty[1])
    raise Unsupported('subscript of %r' % (obj,))


def setitem(ip, st, obj, idx, v):
    from .interp import Raise
    if isinstance(idx, tuple) and len(idx) == 4 and idx[0] == 'slice':
        raise Unsupported('slice assignment')
    if isinstance(obj, Ref):
        p = st.get(obj)
        if isinstance(p, LObj):
            if p.items is not None and not is_sym(idx):
                try:
                    p.items[idx]
                except IndexError:
                    raise Raise(ExcVal('IndexError', ()))
                st.mut(obj).items[idx] = v
                return
            tl = type_of(obj, st)
            if tl is None:
                raise Unsupported('store into untyped list at symbolic index')
            q = lift(obj, st, tl)
            i = I(idx)
            n = z3.Length(q)
            ip.cond_raise(st, z3.Or(i < -n, i >= n), 'IndexError')
            ii = norm_index(i, n, st)
            new = z3.Concat(z3.Extract(q, z3.IntVal(0), ii), z3.Unit(lift(v, st, tl[1])), z3.Extract(q, ii + 1, n - ii - 1))
            m = st.mut(obj)
            m.items, m.sym, m.elty = None, new, tl[1]
            return
        if isinstance(p, DObj):
            if is_sym(idx):
                raise Unsupported('store at symbolic dict key')
            st.mut(obj).d[idx] = v
            return
        if isinstance(p, Obj):
            mm = ip.method_models.get((p.cls, '__setitem__'))
            if mm is not None:
                return mm(ip, st, obj, [idx, v], {})
    raise Unsupported('item assignment on %r' % (obj,))


def delitem(ip, st, obj, idx):
    from .interp import Raise
    if isinstance(obj, Ref):
        p = st.get(obj)
        if isinstance(p, DObj) and not is_sym(idx):
            if idx not in p.d:
                raise Raise(ExcVal('KeyError', (idx,)))
            del st.mut(obj).d[idx]
            return
        if isinstance(p, LObj) and p.items is not None and not is_sym(idx) and not isinstance(idx, tuple):
            try:
                del st.mut(obj).items[idx]
            except IndexError:
                raise Raise(ExcVal('IndexError', ()))
            return
        if isinstance(p, Obj):
            mm = ip.method_models.get((p.cls, '__delitem__'))
            if mm is not None:
                return mm(ip, st, obj, [idx], {})
    raise Unsupported('del item on %r' % (obj,))


def unpack(ip, st, v, n):
    from .interp import Raise
    if isinstance(v, tuple):
        if len(v) != n:
            raise Raise(ExcVal('ValueError', ('unpack: expected %d values, got %d' % (n, len(v)),)))
        return list(v)
    if isinstance(v, Ref):
        p = st.get(v)
        if isinstance(p, LObj):
            if p.items is not None:
                if len(p.items) != n:
                    raise Raise(ExcVal('ValueError', ('unpack: expected %d values, got %d' % (n, len(p.items)),)))
                return list(p.items)
            ip.cond_raise(st, z3.Length(p.sym) != n, 'ValueError', 'unpack')
            return [mk(p.sym[k], p.elty) for k in range(n)]
    if isinstance(v, Sym) and isinstance(v.ty, tuple) and v.ty[0] == 'tuple':
        return list(mk(v.t, v.ty))
    if isinstance(v, (str, bytes)) and len(v) == n:
        return list(v)
    raise Unsupported('unpack of %r' % (v,))


def concrete_iter(ip, st, it):
    """python list of the elements if the iterable has a concrete spine, else None"""
    if isinstance(it, (tuple, list)):
        return list(it)
    if isinstance(it, range):
        return list(it)
    if isinstance(it, str):
        return list(it)
    if isinstance(it, bytes):
        return list(it)
    if isinstance(it, Ref):
        p = st.get(it)
        if isinstance(p, LObj):
            return list(p.items) if p.items is not None else None
        if isinstance(p, DObj):
            return list(p.d.keys())
        if isinstance(p, SetObj):
            if len(p.s) <= 1:
                return list(p.s)
            raise Unsupported('iteration over a set: order unspecified')
        if isinstance(p, Obj):
            if p.cls == '<range>':
                a, b, c = p.f['start'], p.f['stop'], p.f['step']
                if not is_sym(a) and not is_sym(b) and not is_sym(c):
                    return list(range(a, b, c))
                return None
            if p.cls == '<enumerate>':
                inner = concrete_iter(ip, st, p.f['it'])
                if inner is None:
                    return None
                return [(i + p.f['start'], x) for i, x in enumerate(inner)]
            if p.cls == '<bytearray>':
                return concrete_iter(ip, st, p.f['val'])
            if p.cls in ('<dict_items>',):
                d = st.get(p.f['d'])
                return [(k, v) for k, v in d.d.items()]
            if p.cls in ('<dict_values>',):
                d = st.get(p.f['d'])
                return list(d.d.values())
            if p.cls in ('<dict_keys>',):
                d = st.get(p.f['d'])
                return list(d.d.keys())
            if p.cls == '<zip>':
                parts = [concrete_iter(ip, st, x) for x in p.f['its']]
                if any(x is None for x in parts):
                    return None
                return list(zip(*parts))
    if isinstance(it, Sym):
        return None
    raise Unsupported('iteration over %r' % (it,))


def iter_values(ip, st, it):
    seq = concrete_iter(ip, st, it)
    if seq is None:
        raise Unsupported('expected a concrete iterable, got %r' % (it,))
    return seq


def seq_view(ip, st, it):
    """(z3 Seq term, element type) of a symbolic iterable, or None"""
    if isinstance(it, Ref):
        p = st.get(it)
        if isinstance(p, LObj):
            t = type_of(it, st)
            if t is None:
                return None
            return lift(it, st, t), t[1]
    if isinstance(it, Sym):
        if isinstance(it.ty, tuple) and it.ty[0] == 'list':
            return it.t, it.ty[1]
        if it.ty == 'str':
            return it.t, 'char'
        if it.ty == 'bytes':
            return it.t, 'byte'
    return None


def list_extend(ip, st, lref, other):
    p = st.get(lref)
    seq = concrete_iter(ip, st, other)
    if p.items is not None and seq is not None:
        st.mut(lref).items.extend(seq)
        return
    tl = type_of(lref, st)
    to = type_of(other, st)
    t = tl or to
    if t is None:
        raise Unsupported('extend of untyped lists')
    if tl is None and p.items is not None and len(p.items) == 0:
        tl = t
    new = z3.Concat(lift(lref, st, t), lift(other, st, t))
    m = st.mut(lref)
    m.items, m.sym, m.elty = None, new, t[1]


def list_append(ip, st, lref, v):
    p = st.get(lref)
    if p.items is not None:
        st.mut(lref).items.append(v)
        return
    new = z3.Concat(p.sym, z3.Unit(lift(v, st, p.elty)))
    st.mut(lref).sym = new


# ------------------------------------------------------------------------------------------------ quantifiers (spec only)
def quantifier(ip, st, e):
    """forall(lambda j: P) / exists(lambda j: P): integer-quantified formula in a spec expression;
    forall(x in xs, P) is not python syntax -- use forall(lambda j: implies(0 <= j < len(xs), P(xs[j])))"""
    lam = e.args[0]
    if not isinstance(lam, ast.Lambda):
        raise Unsupported('quantifier needs a lambda')
    names = [a.arg for a in lam.args.args]
    vs = [z3.Int('%s!q%d' % (n, lam.lineno * 1000 + lam.col_offset)) for n in names]
    meta = st.frame['$meta']
    st.push_frame({n: Sym(v, 'int') for n, v in zip(names, vs)},
                  {'module': '$spec', 'cls': None, 'qual': '<quant>', 'closure': tuple(meta.get('closure', ())) + (st.stack[-1],)})
    n0 = len(st.pc)
    try:
        body = ip.truth(ip.eval(lam.body, st), st)
    finally:
        st.pop_frame()
    extra = st.pc[n0:]
    del st.pc[n0:]
    body = z3.BoolVal(body) if isinstance(body, bool) else body
    if extra:
        body = z3.Implies(z3.And(extra), body) if e.func.id == 'forall' else z3.And(z3.And(extra), body)
    if e.func.id == 'forall':
        return mk(z3.ForAll(vs, body), 'bool')
    return mk(z3.Exists(vs, body), 'bool')


# the rest (builtins, methods, library models) lives in lib.py to keep this file readable
from .lib import call_builtin, call_method  # noqa: E402,F401
