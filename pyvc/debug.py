"""developer tool: python3-vt -m pyvc.debug <PID> <function qual> [obligation substring] [--timeout N] [--show]"""
import importlib
import sys
import z3
from .driver import Runner, CheckDef
from .contracts import verify_function
from .specs import prove_lemmas
from .solve import discharge


def main():
    pid, qual = sys.argv[1], sys.argv[2]
    sub = sys.argv[3] if len(sys.argv) > 3 and not sys.argv[3].startswith('--') else ''
    timeout = 30
    if '--trace-after' in sys.argv:
        import faulthandler
        faulthandler.dump_traceback_later(int(sys.argv[sys.argv.index('--trace-after') + 1]), exit=True)
    if '--timeout' in sys.argv:
        timeout = int(sys.argv[sys.argv.index('--timeout') + 1])
    mod = importlib.import_module('checks.' + pid.lower())
    r = Runner(pid, mod.build)
    chk = CheckDef(pid)
    ip = r.new_interp()
    mod.build(chk, ip, r)
    for u in chk.units:
        if u.contract.mode == 'contract':
            ip.contracts[u.contract.qual] = u.contract
    for c in chk.stubs:
        ip.contracts[c.qual] = c
    for q, c in getattr(r, 'call_site_overrides', {}).items():
        ip.contracts[q] = c
    if qual.startswith('lemma:'):
        prove_lemmas(ip, r.specs, {qual[6:]})
    else:
        us = [u for u in chk.units if u.contract.qual == qual]
        if '--unit' in sys.argv:
            us = [us[int(sys.argv[sys.argv.index('--unit') + 1])]]
        for u in us:
            print(verify_function(ip, u.contract))
    obls = [o for o in ip.obls if sub in o.name]
    discharge(obls, r.specs, ip, keep='/tmp/pyvc_debug', timeout=timeout)
    for i, o in enumerate(obls):
        print(i, o.name, o.result['verdict'], o.result['attempts'])
        if '--show' in sys.argv or ('--show-bad' in sys.argv and o.result['verdict'] != 'unsat'):
            s = z3.Solver()
            s.from_string(o.smt2)
            for a in s.assertions():
                print('    ', str(z3.simplify(a))[:600].replace('\n', ' '))
            if o.result['model']:
                print(o.result['model'][:3000])


if __name__ == '__main__':
    main()
