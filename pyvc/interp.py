"""pyvc.interp -- symbolic executor for the Python subset used by ssh-audit (see DESIGN.md section 2.2).

Forward execution with state merging at `if` joins (fall back: path forking), loops cut at contract-supplied
invariants or fully unrolled when the iterable is concrete, calls either inlined (body executed in place) or
replaced by the callee's contract.  Everything outside the modelled subset raises `Unsupported`.
"""
import ast
import z3
from .values import (Sym, Ref, LObj, DObj, SetObj, Obj, Unsupported, StaleContract, sort_of, zstr, is_opt, opt_none, opt_some,
                     opt_is_none, opt_val, FuncRef, BoundMethod, ClassRef, Builtin, ModuleRef, ExcVal, fresh,
                     parse_ty)
from .state import State, MergeFail, merge_states, merge_value, type_of, lift, mk, values_equal, unify_ty
from .source import mangle
from . import ops

EXC_PARENTS = {
    'BaseException': None, 'Exception': 'BaseException', 'SystemExit': 'BaseException',
    'KeyboardInterrupt': 'BaseException', 'ValueError': 'Exception', 'UnicodeError': 'ValueError',
    'UnicodeDecodeError': 'UnicodeError', 'UnicodeEncodeError': 'UnicodeError', 'TypeError': 'Exception',
    'KeyError': 'LookupError', 'IndexError': 'LookupError', 'LookupError': 'Exception',
    'AttributeError': 'Exception', 'RuntimeError': 'Exception', 'NotImplementedError': 'RuntimeError',
    'OSError': 'Exception', 'socket.error': 'Exception', 'socket.timeout': 'socket.error',
    'socket.gaierror': 'socket.error', 'ConnectionResetError': 'socket.error', 'PermissionError': 'socket.error',
    'ConnectionRefusedError': 'socket.error', 'TimeoutError': 'socket.error',
    'struct.error': 'Exception', 'ZeroDivisionError': 'ArithmeticError', 'ArithmeticError': 'Exception',
    'OverflowError': 'ArithmeticError', 'AssertionError': 'Exception', 'StopIteration': 'Exception',
    'KexDHException': 'Exception', 'InsufficientReadException': 'Exception', 'ipaddress.AddressValueError': 'ValueError',
    'json.JSONDecodeError': 'ValueError', 'binascii.Error': 'ValueError',
}
EXC_ALIASES = {'OSError': 'socket.error', 'IOError': 'socket.error', 'error': 'struct.error',
               'SSH_Socket.InsufficientReadException': 'InsufficientReadException',
               'socket.herror': 'socket.error', 'EnvironmentError': 'socket.error'}


def exc_is(cls, handler):
    cls = EXC_ALIASES.get(cls, cls)
    handler = EXC_ALIASES.get(handler, handler)
    while cls is not None:
        if cls == handler:
            return True
        cls = EXC_PARENTS.get(cls)
    return False


def term_size(t, cap):
    n = 0
    stack = [t]
    while stack and n < cap:
        x = stack.pop()
        n += 1
        if z3.is_app(x):
            stack.extend(x.children())
    return n


def heap_unchanged(base, other):
    """every object of `base` is untouched in `other` (objects allocated since do not count)"""
    oh = other.heap
    for oid, p in base.heap.items():
        if oh.get(oid) is not p:
            return False
    return True


class Raise(Exception):
    """unconditional raise during expression evaluation"""

    def __init__(self, exc):
        self.exc = exc


class Infeasible(Exception):
    pass


class Obligation:
    def __init__(self, name, kind, hyps, goal, func, line=None, clause='', top=False, extra=None):
        self.name = name
        self.kind = kind
        self.hyps = list(hyps)
        self.goal = goal
        self.func = func
        self.line = line
        self.clause = clause
        self.top = top              # encodes a sentence of the property (vs. scaffolding)
        self.extra = extra or {}
        self.result = None          # filled by solver

    def __repr__(self):
        return 'Obligation(%s)' % self.name


class Interp:
    def __init__(self, repo, contracts=None, specs=None):
        self.repo = repo
        self.contracts = contracts or {}      # qual -> Contract (used at call sites when mode == 'contract')
        self.specs = specs                    # SpecRegistry or None
        self.models = {}                      # dotted name -> python callable(interp, st, args, kwargs)
        self.method_models = {}               # (class name, method) -> callable(interp, st, recv, args, kwargs)
        self.obls = []
        self.cur_func = '?'
        self.cur_inputs = None
        self.cur_opaque = ()
        self.cur_unit = None
        self.inlined = set()
        self.used_contracts = set()
        self.used_lemmas = set()
        self.assumed = set()
        self.max_unroll = 4096
        self.naming = False
        self.merge_states_enabled = True
        self.concretizations = 0
        self.bounded_k = None                 # bounded stand-in mode: unroll symbolic loops at most k times
        self.bounded_cut = 0
        self.depth = 0
        self.loop_specs = {}                  # id(loop node) -> LoopSpec  (filled by verify for the function under proof)
        self.cuts = {}                        # statement text -> list of exprs  (assert_at)
        self.safety = True                    # generate run-time-error obligations instead of exceptional paths?
        self.class_attr_cache = {}
        self.on_unsupported_call = None
        ops.install(self)

    # ================================================================================================ obligations
    def oblige(self, st, goal, name, kind, clause='', line=None, top=False, extra=None):
        if isinstance(goal, Sym):
            goal = goal.t
        if isinstance(goal, bool):
            if goal:
                goal = z3.BoolVal(True)
            else:
                goal = z3.BoolVal(False)
        extra = dict(extra or {})
        if self.cur_inputs is not None:
            extra.setdefault('inputs', self.cur_inputs)
        if self.cur_opaque:
            extra.setdefault('opaque', self.cur_opaque)
        if self.cur_unit is not None:
            extra.setdefault('unit', self.cur_unit)
        o = Obligation(name, kind, st.pc, goal, self.cur_func, line, clause, top, extra)
        self.obls.append(o)
        return o

    # ================================================================================================ truthiness
    def truth(self, v, st):
        """-> python bool or z3 Bool"""
        if isinstance(v, bool):
            return v
        if v is None:
            return False
        if isinstance(v, (int, str, bytes, tuple)):
            return bool(v)
        if isinstance(v, Sym):
            if v.ty == 'bool':
                return v.t
            if v.ty == 'int':
                return v.t != 0
            if v.ty in ('str', 'bytes'):
                return z3.Length(v.t) != 0
            if is_opt(v.ty):
                inner = v.ty[1]
                some = z3.Not(opt_is_none(v.ty, v.t))
                val = Sym(opt_val(v.ty, v.t), inner)
                return z3.And(some, self._z(self.truth(val, st)))
            if isinstance(v.ty, tuple) and v.ty[0] == 'list':
                return z3.Length(v.t) != 0
            raise Unsupported('truth of %r' % (v,))
        if isinstance(v, Ref):
            p = st.get(v)
            if isinstance(p, LObj):
                if p.items is not None:
                    return len(p.items) != 0
                return z3.Length(p.sym) != 0
            if isinstance(p, DObj):
                return len(p.d) != 0
            if isinstance(p, SetObj):
                return len(p.s) != 0
            if isinstance(p, Obj):
                if p.cls == '<bytearray>':
                    return self.truth(p.f['val'], st)
                return True
        if isinstance(v, (FuncRef, BoundMethod, ClassRef, Builtin, ModuleRef)):
            return True
        raise Unsupported('truth of %r' % (v,))

    @staticmethod
    def _z(b):
        return z3.BoolVal(b) if isinstance(b, bool) else b

    def znot(self, b):
        return (not b) if isinstance(b, bool) else z3.Not(b)

    # ================================================================================================ choose / raise
    def choose(self, st, n):
        if n <= 1:
            return 0
        if st.tpos < len(st.trail):
            c = st.trail[st.tpos]
        else:
            c = 0
            for k in range(1, n):
                st.alts.append(st.trail[:st.tpos] + [k])
            st.trail.append(0)
        st.tpos += 1
        return c

    def cond_raise(self, st, cond, exc_cls, *args):
        """raise exc when cond (python bool or z3 Bool); continue under not cond."""
        if isinstance(cond, Sym):
            cond = cond.t
        if isinstance(cond, bool):
            if cond:
                raise Raise(ExcVal(exc_cls, args))
            return
        if st.stack and st.frame['$meta'].get('module') == '$spec':
            # specification functions are total: a partial primitive outside its domain yields an unspecified value
            return
        s2 = st.clone()
        s2.pc.append(cond)
        st.pend.append((s2, ExcVal(exc_cls, args)))
        st.pc.append(z3.Not(cond))

    def concretize(self, st, v):
        """a symbolic value that is an if-then-else over literals: fork until it is a literal"""
        while isinstance(v, Sym) and z3.is_app(v.t) and v.t.decl().kind() == z3.Z3_OP_ITE:
            c, a, b = v.t.children()
            if self.branch(st, c):
                v = mk(a, v.ty)
            else:
                v = mk(b, v.ty)
        if isinstance(v, Sym) and v.ty == 'str' and z3.is_string_value(v.t):
            return v.t.as_string()
        return v

    def concretize_seq(self, st, it):
        """a symbolic sequence whose length the path condition determines: its elements as a python list"""
        sv = ops.seq_view(self, st, it)
        if sv is None or sv[1] in ('char', 'byte'):
            return None
        term, elty = sv
        from .solve import unique_int_value
        hyps = list(st.pc)
        if self.specs is not None:
            hyps += self.specs.unfold(self, hyps + [z3.Length(term) >= 0])
        n = unique_int_value(hyps, z3.Length(term))
        self.concretizations += 1
        if n is None or n > 64:
            return None
        return [mk(term[k], elty) for k in range(n)]

    def branch(self, st, cond):
        """fork the evaluation on a symbolic condition; returns python bool for this path"""
        if isinstance(cond, Sym):
            cond = cond.t
        if isinstance(cond, bool):
            return cond
        c = self.choose(st, 2)
        if c == 0:
            st.pc.append(cond)
            return True
        st.pc.append(z3.Not(cond))
        return False

    # ================================================================================================ statements
    def run_simple(self, st, fn):
        """run fn(state) -> (kind, value) under all evaluation-level forks; returns outcomes"""
        results = []
        work = [None]
        base = st
        first = True
        while work:
            trail = work.pop()
            if first:
                s = base.clone()
                s.trail, s.tpos, s.alts, s.pend = [], 0, [], []
                first = False
            else:
                s = base.clone()
                s.trail, s.tpos, s.alts, s.pend = list(trail), 0, [], []
            try:
                kind, val = fn(s)
            except Raise as r:
                kind, val = 'raise', r.exc
            except Infeasible:
                kind, val = None, None
            for ps, ex in s.pend:
                ps.pend, ps.alts = [], []
                results.append(('raise', ps, ex))
            if kind is not None:
                s.pend = []
                results.append((kind, s, val))
            work.extend(s.alts)
            s.alts = []
        return results

    def exec_block(self, stmts, st):
        """-> list of (kind, state, value) ; kind in next|return|break|continue|raise"""
        cur = [st]
        done = []
        for stmt in stmts:
            nxt = []
            for s in cur:
                for kind, s2, val in self.exec_stmt(stmt, s):
                    if kind == 'next':
                        nxt.append(s2)
                    else:
                        done.append((kind, s2, val))
            cur = nxt
            if not cur:
                break
            if len(cur) > 1:
                cur = self.try_merge_all(cur)
        return done + [('next', s, None) for s in cur]

    def try_merge_all(self, states):
        return states

    def exec_stmt(self, stmt, st):
        key = None
        if self.cuts:
            try:
                key = ast.unparse(stmt).split('\n')[0].strip()
            except Exception:
                key = None
            if key in self.cuts:
                self.do_cut(stmt, st, self.cuts[key])
        m = getattr(self, 'st_' + type(stmt).__name__, None)
        if m is None:
            raise Unsupported('statement %s at line %s' % (type(stmt).__name__, getattr(stmt, 'lineno', '?')))
        return m(stmt, st)

    def do_cut(self, stmt, st, exprs):
        for i, e in enumerate(exprs):
            v = self.eval_spec(e, st, {})
            self.oblige(st, self._z(self.truth(v, st)), '%s#assert_at[%s]@%d' % (self.cur_func, i, stmt.lineno),
                        'assert_at', clause=e, line=stmt.lineno)
            st.assume(self._z(self.truth(v, st)))

    # ---- simple statements
    def st_Expr(self, stmt, st):
        if isinstance(stmt.value, ast.Constant):
            return [('next', st, None)]

        def fn(s):
            self.eval(stmt.value, s)
            return 'next', None
        return self.run_simple(st, fn)

    def st_Pass(self, stmt, st):
        return [('next', st, None)]

    def st_Assign(self, stmt, st):
        def fn(s):
            v = self.eval(stmt.value, s)
            for tgt in stmt.targets:
                self.assign(tgt, v, s)
            return 'next', None
        return self.run_simple(st, fn)

    def st_AnnAssign(self, stmt, st):
        if stmt.value is None:
            return [('next', st, None)]

        def fn(s):
            v = self.eval(stmt.value, s)
            self.assign(stmt.target, v, s)
            return 'next', None
        return self.run_simple(st, fn)

    def st_AugAssign(self, stmt, st):
        def fn(s):
            tgt = stmt.target
            if isinstance(tgt, ast.Name):
                cur = self.load_name(tgt.id, s)
                rhs = self.eval(stmt.value, s)
                # list += list mutates in place
                if isinstance(cur, Ref) and isinstance(s.get(cur), LObj) and isinstance(stmt.op, ast.Add):
                    ops.list_extend(self, s, cur, rhs)
                    return 'next', None
                v = ops.binop(self, s, stmt.op, cur, rhs)
                self.assign(tgt, v, s)
            elif isinstance(tgt, ast.Attribute):
                obj = self.eval(tgt.value, s)
                cur = self.getattr(obj, tgt.attr, s)
                rhs = self.eval(stmt.value, s)
                if isinstance(cur, Ref) and isinstance(s.get(cur), LObj) and isinstance(stmt.op, ast.Add):
                    ops.list_extend(self, s, cur, rhs)
                    return 'next', None
                v = ops.binop(self, s, stmt.op, cur, rhs)
                self.setattr(obj, tgt.attr, v, s)
            elif isinstance(tgt, ast.Subscript):
                obj = self.eval(tgt.value, s)
                idx = self.eval_index(tgt.slice, s)
                cur = ops.getitem(self, s, obj, idx)
                rhs = self.eval(stmt.value, s)
                v = ops.binop(self, s, stmt.op, cur, rhs)
                ops.setitem(self, s, obj, idx, v)
            else:
                raise Unsupported('augassign target')
            return 'next', None
        return self.run_simple(st, fn)

    def st_Return(self, stmt, st):
        def fn(s):
            v = self.eval(stmt.value, s) if stmt.value is not None else None
            return 'return', v
        return self.run_simple(st, fn)

    def st_Raise(self, stmt, st):
        def fn(s):
            if stmt.exc is None:
                ex = s.frame.get('$exc')
                if ex is None:
                    raise Unsupported('bare raise outside handler')
                raise Raise(ex)
            v = self.eval(stmt.exc, s)
            if isinstance(v, ExcVal):
                raise Raise(v)
            if isinstance(v, ClassRef):
                raise Raise(ExcVal(v.name, ()))
            if isinstance(v, Builtin):
                raise Raise(ExcVal(v.name, ()))
            raise Unsupported('raise of %r' % (v,))
        return self.run_simple(st, fn)

    def st_Assert(self, stmt, st):
        def fn(s):
            v = self.truth(self.eval(stmt.test, s), s)
            self.cond_raise(s, self.znot(v), 'AssertionError')
            return 'next', None
        return self.run_simple(st, fn)

    def st_Delete(self, stmt, st):
        def fn(s):
            for tgt in stmt.targets:
                if isinstance(tgt, ast.Subscript):
                    obj = self.eval(tgt.value, s)
                    idx = self.eval_index(tgt.slice, s)
                    ops.delitem(self, s, obj, idx)
                elif isinstance(tgt, ast.Name):
                    s.frame.pop(tgt.id, None)
                else:
                    raise Unsupported('del target')
            return 'next', None
        return self.run_simple(st, fn)

    def st_Break(self, stmt, st):
        return [('break', st, None)]

    def st_Continue(self, stmt, st):
        return [('continue', st, None)]

    def st_Global(self, stmt, st):
        raise Unsupported('global statement')

    def st_Nonlocal(self, stmt, st):
        raise Unsupported('nonlocal statement')

    def st_Import(self, stmt, st):
        return [('next', st, None)]

    def st_ImportFrom(self, stmt, st):
        return [('next', st, None)]

    def st_FunctionDef(self, stmt, st):
        meta = st.frame['$meta']
        fr = FuncRef(stmt, meta['module'], meta.get('cls'), '%s.%s' % (meta.get('qual', '?'), stmt.name),
                     closure=tuple(meta.get('closure', ())) + (st.stack[-1],), kind='function')
        st.frame[stmt.name] = fr
        return [('next', st, None)]

    # ---- if
    def st_If(self, stmt, st):
        outs = []
        for kind, s, c in self.run_simple(st, lambda s: ('cond', self.truth(self.eval(stmt.test, s), s))):
            if kind == 'raise':
                outs.append((kind, s, c))
                continue
            if isinstance(c, bool):
                outs.extend(self.exec_block(stmt.body if c else stmt.orelse, s))
                continue
            base_len = len(s.pc)
            sa = s.clone()
            sa.pc.append(c)
            sb = s.clone()
            sb.pc.append(z3.Not(c))
            self.narrow_optional(stmt.test, sa, sb)
            oa = self.exec_block(stmt.body, sa)
            ob = self.exec_block(stmt.orelse, sb) if stmt.orelse else [('next', sb, None)]
            na = [o for o in oa if o[0] == 'next']
            nb = [o for o in ob if o[0] == 'next']
            outs.extend(o for o in oa if o[0] != 'next')
            outs.extend(o for o in ob if o[0] != 'next')
            if len(na) == 1 and len(nb) == 1 and self.merge_states_enabled:
                try:
                    m = merge_states(base_len, c, na[0][1], nb[0][1])
                    outs.append(('next', m, None))
                    continue
                except MergeFail:
                    pass
            outs.extend(na)
            outs.extend(nb)
        return outs

    def narrow_optional(self, test, s_true, s_false):
        """`x is None` / `x is not None` tests on an Optional-typed local (also as a conjunct of `and` / disjunct of `or` /
        under `not`): in the branch where x is known not to be None the local is rebound to its value"""
        if isinstance(test, ast.BoolOp):
            for v in test.values:
                if isinstance(test.op, ast.And):
                    self.narrow_optional(v, s_true, None)
                else:
                    self.narrow_optional(v, None, s_false)
            return
        if isinstance(test, ast.UnaryOp) and isinstance(test.op, ast.Not):
            self.narrow_optional(test.operand, s_false, s_true)
            return
        if isinstance(test, ast.Compare) and len(test.ops) == 1 and isinstance(test.left, ast.Name) \
                and isinstance(test.comparators[0], ast.Constant) and test.comparators[0].value is None:
            name = test.left.id
            target = s_false if isinstance(test.ops[0], ast.Is) else (s_true if isinstance(test.ops[0], ast.IsNot) else None)
            if target is not None:
                v = target.frame.get(name)
                if isinstance(v, Sym) and is_opt(v.ty):
                    target.frame[name] = mk(opt_val(v.ty, v.t), v.ty[1])

    # ---- with
    def st_With(self, stmt, st):
        if len(stmt.items) != 1:
            raise Unsupported('with: multiple items')
        item = stmt.items[0]
        outs = []
        entered = self.run_simple(st, lambda s: ('cm', self.eval(item.context_expr, s)))
        for kind, s, cm in entered:
            if kind == 'raise':
                outs.append((kind, s, cm))
                continue
            for k2, s2, v2 in self.run_simple(s, lambda ss: ('ent', self.call_method(cm, '__enter__', [], {}, ss))):
                if k2 == 'raise':
                    outs.append((k2, s2, v2))
                    continue
                if item.optional_vars is not None:
                    self.assign(item.optional_vars, v2, s2)
                for k3, s3, v3 in self.exec_block(stmt.body, s2):
                    # __exit__ on every outcome (the modelled context managers never swallow exceptions)
                    for k4, s4, v4 in self.run_simple(s3, lambda ss: ('ex', self.call_method(cm, '__exit__', [None, None, None], {}, ss))):
                        if k4 == 'raise':
                            outs.append((k4, s4, v4))
                        else:
                            outs.append((k3, s4, v3))
        return outs

    # ---- try
    def st_Try(self, stmt, st):
        outs = []
        body_outs = self.exec_block(stmt.body, st)
        after = []
        for kind, s, v in body_outs:
            if kind == 'raise':
                handled = False
                for h in stmt.handlers:
                    if self.handler_matches(h, v, s):
                        handled = True
                        if h.name:
                            s.frame[h.name] = v
                        saved = s.frame.get('$exc')
                        s.frame['$exc'] = v
                        for k2, s2, v2 in self.exec_block(h.body, s):
                            if saved is None:
                                s2.frame.pop('$exc', None)
                            else:
                                s2.frame['$exc'] = saved
                            after.append((k2, s2, v2))
                        break
                if not handled:
                    after.append((kind, s, v))
            elif kind == 'next' and stmt.orelse:
                after.extend(self.exec_block(stmt.orelse, s))
            else:
                after.append((kind, s, v))
        if not stmt.finalbody:
            return after
        for kind, s, v in after:
            for k2, s2, v2 in self.exec_block(stmt.finalbody, s):
                if k2 == 'next':
                    outs.append((kind, s2, v))
                else:
                    outs.append((k2, s2, v2))
        return outs

    def handler_names(self, h, s):
        if h.type is None:
            return ['BaseException']
        t = h.type
        elts = t.elts if isinstance(t, ast.Tuple) else [t]
        names = []
        for e in elts:
            n = ast.unparse(e)
            names.append(n)
        return names

    def handler_matches(self, h, exc, s):
        for n in self.handler_names(h, s):
            if exc_is(exc.cls, n):
                return True
        return False

    # ---- loops
    def st_While(self, stmt, st):
        spec = self.loop_specs.get(id(stmt))
        if spec is None:
            return self.unroll_while(stmt, st)
        return self.cut_loop(stmt, st, spec, 'while', None)

    def unroll_while(self, stmt, st):
        outs = []
        cur = [st]
        n = 0
        while cur:
            n += 1
            if n > self.max_unroll:
                raise Unsupported('while loop at line %d without invariant does not terminate under unrolling' % stmt.lineno)
            nxt = []
            for s in cur:
                for kind, s1, c in self.run_simple(s, lambda ss: ('cond', self.truth(self.eval(stmt.test, ss), ss))):
                    if kind == 'raise':
                        outs.append((kind, s1, c))
                        continue
                    if not isinstance(c, bool):
                        if self.bounded_k is None:
                            raise Unsupported('while loop at line %d: symbolic condition and no invariant' % stmt.lineno)
                        # bounded mode: fork; paths needing more than bounded_k iterations are cut
                        s_exit = s1.clone()
                        s_exit.pc.append(z3.Not(c))
                        outs.extend(self.exec_block(stmt.orelse, s_exit) if stmt.orelse else [('next', s_exit, None)])
                        if n > self.bounded_k:
                            self.bounded_cut += 1
                            continue
                        s1.pc.append(c)
                        c = True
                    if not c:
                        outs.extend(self.exec_block(stmt.orelse, s1) if stmt.orelse else [('next', s1, None)])
                        continue
                    for k2, s2, v2 in self.exec_block(stmt.body, s1):
                        if k2 in ('next', 'continue'):
                            nxt.append(s2)
                        elif k2 == 'break':
                            outs.append(('next', s2, None))
                        else:
                            outs.append((k2, s2, v2))
            cur = nxt
        return outs

    def st_For(self, stmt, st):
        spec = self.loop_specs.get(id(stmt))
        outs = []
        for kind, s, it in self.run_simple(st, lambda ss: ('iter', self.eval(stmt.iter, ss))):
            if kind == 'raise':
                outs.append((kind, s, it))
                continue
            seq = ops.concrete_iter(self, s, it)
            if seq is None and spec is None and self.bounded_k is None:
                seq = self.concretize_seq(s, it)
            if seq is not None and spec is None:
                outs.extend(self.unroll_for(stmt, s, seq))
            else:
                if spec is None:
                    if self.bounded_k is None:
                        raise Unsupported('for loop at line %d over symbolic iterable without invariant' % stmt.lineno)
                    outs.extend(self.bounded_for(stmt, s, it))
                else:
                    outs.extend(self.cut_loop(stmt, s, spec, 'for', it))
        return outs

    def unroll_for(self, stmt, st, seq):
        outs = []
        cur = [st]
        if len(seq) > self.max_unroll:
            raise Unsupported('loop too long to unroll')
        for x in seq:
            nxt = []
            for s in cur:
                self.assign(stmt.target, x, s)
                for k2, s2, v2 in self.exec_block(stmt.body, s):
                    if k2 in ('next', 'continue'):
                        nxt.append(s2)
                    elif k2 == 'break':
                        outs.append(('next', s2, None))
                    else:
                        outs.append((k2, s2, v2))
            cur = nxt
            if not cur:
                break
        for s in cur:
            outs.extend(self.exec_block(stmt.orelse, s) if stmt.orelse else [('next', s, None)])
        return outs

    def bounded_for(self, stmt, st, it):
        """bounded stand-in: unroll a loop over a symbolic iterable at most bounded_k times (paths needing more are cut)"""
        from .loops import for_domain
        dom = for_domain(self, st, it, stmt)
        outs = []
        cur = [st]
        for k in range(self.bounded_k + 1):
            nxt = []
            for s in cur:
                hn = dom.has_next(self, s, k)
                hn = z3.simplify(hn) if not isinstance(hn, bool) else hn
                if z3.is_true(hn):
                    hn = True
                elif z3.is_false(hn):
                    hn = False
                if hn is not True:
                    s_exit = s if hn is False else s.clone()
                    if hn is not False:
                        s_exit.pc.append(z3.Not(hn))
                    outs.extend(self.exec_block(stmt.orelse, s_exit) if stmt.orelse else [('next', s_exit, None)])
                    if hn is False:
                        continue
                if k == self.bounded_k:
                    self.bounded_cut += 1
                    continue
                if hn is not True:
                    s.pc.append(hn)
                dom.bind_head(self, s, stmt.target, k, {}, assign=True)
                for k2, s2, v2 in self.exec_block(stmt.body, s):
                    if k2 in ('next', 'continue'):
                        nxt.append(s2)
                    elif k2 == 'break':
                        outs.append(('next', s2, None))
                    else:
                        outs.append((k2, s2, v2))
            cur = nxt
            if not cur:
                break
        return outs

    def cut_loop(self, stmt, st, spec, kind, it):
        from .loops import cut_loop
        return cut_loop(self, stmt, st, spec, kind, it)

    # ================================================================================================ assignment
    def name_value(self, name, v, st):
        """give a large symbolic value a name (fresh constant + defining equation): keeps later terms small"""
        if isinstance(v, Sym) and v.ty in ('int', 'str', 'bytes') and self.naming and not z3.is_const(v.t):
            if term_size(v.t, 12) >= 12:
                nv = fresh(name, v.ty)
                st.pc.append(nv.t == v.t)
                if v.ty == 'int' and ops.nonneg(v.t, st):
                    st.pc.append(nv.t >= 0)
                return nv
        return v

    def assign(self, tgt, v, st):
        if isinstance(tgt, ast.Name):
            if st.frame['$meta'].get('module') != '$spec':
                v = self.name_value(tgt.id, v, st)
            st.frame[tgt.id] = v
        elif isinstance(tgt, (ast.Tuple, ast.List)):
            vals = ops.unpack(self, st, v, len(tgt.elts))
            for t, x in zip(tgt.elts, vals):
                self.assign(t, x, st)
        elif isinstance(tgt, ast.Attribute):
            obj = self.eval(tgt.value, st)
            self.setattr(obj, tgt.attr, v, st)
        elif isinstance(tgt, ast.Subscript):
            obj = self.eval(tgt.value, st)
            idx = self.eval_index(tgt.slice, st)
            ops.setitem(self, st, obj, idx, v)
        else:
            raise Unsupported('assignment target %s' % type(tgt).__name__)

    # ================================================================================================ names / attrs
    def load_name(self, name, st):
        fr = st.frame
        if name in fr:
            return fr[name]
        meta = fr['$meta']
        for fid in reversed(meta.get('closure', ())):
            f2 = st.frames.get(fid)
            if f2 is not None and name in f2:
                return f2[name]
        return self.load_global(name, meta['module'], st)

    def load_global(self, name, module, st):
        if module == '$spec':
            if self.specs is not None and self.specs.has(name):
                return Builtin('spec:' + name)
            if name in ops.BUILTINS:
                return Builtin(name)
            raise StaleContract('unknown name %s in spec' % name)
        m = self.repo.modules.get(module)
        if m is not None:
            if name in m.functions:
                return FuncRef(m.functions[name], module, None, '%s:%s' % (module, name))
            if name in m.classes:
                return ClassRef(name)
            if name in m.assigns:
                key = (module, name)
                gl = st.ghost.get('$globals')
                if gl is not None and key in gl:
                    return gl[key]
                return self.eval_const(m.assigns[name], module, None, st)
            if name in m.imports:
                imp = m.imports[name]
                if imp[0] == 'module':
                    return ModuleRef(imp[1])
                modname, nm = imp[1], imp[2]
                if modname and modname.startswith('ssh_audit.'):
                    sub = modname.split('.', 1)[1]
                    return self.load_global(nm, sub, st)
                if modname == 'ssh_audit':
                    if nm in self.repo.modules:
                        return ModuleRef('ssh_audit.' + nm)
                if modname == 'typing':
                    return Builtin('typing.' + nm)
                return ModuleRef('%s.%s' % (modname, nm))
        if self.specs is not None and self.specs.has(name):
            return Builtin('spec:' + name)
        if name in ops.BUILTINS:
            return Builtin(name)
        if name in EXC_PARENTS:
            return ClassRef(name)
        raise Unsupported('unknown name %s (module %s)' % (name, module))

    def eval_const(self, node, module, cls, st):
        """evaluate a module-level / class-level constant expression (fresh value each time)"""
        meta = {'module': module, 'cls': cls, 'qual': '<const>', 'closure': ()}
        st.push_frame({}, meta)
        if cls is not None:
            # names bound earlier in the class body are visible
            st.frame['$classbody'] = cls
        try:
            return self.eval(node, st)
        finally:
            st.pop_frame()

    def class_attr(self, cname, attr, st):
        """class attribute / method lookup -> value or raises AttributeError-like Unsupported"""
        ov = st.ghost.get('$classattrs')
        if ov is not None and (cname, attr) in ov:
            return ov[(cname, attr)]
        ent = self.repo.class_member(cname, attr)
        if ent is None:
            ent = self.repo.class_member(cname, mangle(cname, attr))
        if ent is None:
            raise Unsupported('class %s has no member %s' % (cname, attr))
        kind, node, mod, owner = ent
        if kind == 'attr':
            return self.eval_const(node, mod, owner, st)
        if kind == 'class':
            return ClassRef(node.name)
        return FuncRef(node, mod, owner, '%s.%s' % (owner, node.name), kind=kind)

    def getattr(self, obj, attr, st):
        meta = st.frame['$meta']
        cur_cls = meta.get('cls')
        if isinstance(obj, ExcVal) and attr in ('code', 'args'):
            # SystemExit.code is the first constructor argument (None when absent); .args the tuple
            if attr == 'args':
                return tuple(obj.args)
            return obj.args[0] if obj.args else None
        if isinstance(obj, Ref):
            p = st.get(obj)
            if isinstance(p, Obj):
                if not p.cls.startswith('<'):
                    mattr = mangle(cur_cls, attr) if attr.startswith('__') and not attr.endswith('__') else attr
                    if mattr in p.f:
                        return p.f[mattr]
                    ent = self.repo.class_member(p.cls, attr)
                    if ent is not None:
                        kind, node, mod, owner = ent
                        if kind == 'attr':
                            return self.class_attr(owner, attr, st)
                        fr = FuncRef(node, mod, owner, '%s.%s' % (owner, node.name), kind=kind)
                        if kind == 'property':
                            return self.call_funcref(fr, [obj], {}, st)
                        if kind == 'staticmethod':
                            return fr
                        if kind == 'classmethod':
                            return BoundMethod(ClassRef(p.cls), fr)
                        return BoundMethod(obj, fr)
                    if (p.cls, attr) in self.method_models:
                        return BoundMethod(obj, attr)
                    raise Unsupported('attribute %s of %s instance' % (attr, p.cls))
                if attr in p.f:
                    return p.f[attr]
                return BoundMethod(obj, attr)
            return BoundMethod(obj, attr)
        if isinstance(obj, ClassRef):
            if self.repo.find_class(obj.name) is None:
                return Builtin('%s.%s' % (obj.name, attr))
            mattr = mangle(cur_cls, attr) if attr.startswith('__') and not attr.endswith('__') else attr
            v = self.class_attr(obj.name, mattr if self.repo.class_member(obj.name, mattr) else attr, st)
            if isinstance(v, FuncRef):
                if v.kind == 'classmethod':
                    return BoundMethod(obj, v)
                return v
            return v
        if isinstance(obj, ModuleRef):
            full = '%s.%s' % (obj.name, attr)
            if obj.name.startswith('ssh_audit.'):
                return self.load_global(attr, obj.name.split('.', 1)[1], st)
            if full in ops.MODULE_CONSTS:
                return ops.MODULE_CONSTS[full]
            if full in EXC_PARENTS or full in EXC_ALIASES:
                return ClassRef(EXC_ALIASES.get(full, full))
            return Builtin(full)
        if isinstance(obj, Builtin):
            return Builtin('%s.%s' % (obj.name, attr))
        if isinstance(obj, ExcVal):
            if attr == 'args':
                return obj.args
            if attr == 'code' and obj.cls == 'SystemExit':
                return obj.args[0] if obj.args else None
            raise Unsupported('exception attribute %s' % attr)
        if isinstance(obj, tuple) and len(obj) == 3 and obj[0] == '$super':
            _, after, inst = obj
            p = st.get(inst)
            ent = self.repo.class_member(p.cls, attr, after=after)
            if ent is None:
                return Builtin('object.' + attr)
            kind, node, mod, owner = ent
            fr = FuncRef(node, mod, owner, '%s.%s' % (owner, node.name), kind=kind)
            return BoundMethod(inst, fr)
        if isinstance(obj, (str, bytes, int, Sym, tuple)) or obj is None:
            if attr == '__class__':
                raise Unsupported('__class__')
            return BoundMethod(obj, attr)
        if isinstance(obj, (FuncRef, BoundMethod)):
            raise Unsupported('attribute %s of function' % attr)
        raise Unsupported('getattr %r.%s' % (obj, attr))

    def setattr(self, obj, attr, v, st):
        meta = st.frame['$meta']
        cur_cls = meta.get('cls')
        if isinstance(obj, Ref):
            p = st.get(obj)
            if isinstance(p, Obj):
                if not p.cls.startswith('<'):
                    ent = self.repo.class_setter(p.cls, attr)
                    if ent is not None:
                        node, mod, owner = ent
                        fr = FuncRef(node, mod, owner, '%s.%s(setter)' % (owner, node.name), kind='function')
                        self.call_funcref(fr, [obj, v], {}, st)
                        return
                    sa = self.repo.class_member(p.cls, '__setattr__')
                    if sa is not None and not meta.get('in_setattr'):
                        kind, node, mod, owner = sa
                        fr = FuncRef(node, mod, owner, '%s.__setattr__' % owner, kind='function')
                        self.call_funcref(fr, [obj, attr, v], {}, st, extra_meta={'in_setattr': True})
                        return
                    attr = mangle(cur_cls, attr) if attr.startswith('__') and not attr.endswith('__') else attr
                st.mut(obj).f[attr] = v
                return
        if isinstance(obj, ClassRef):
            ov = dict(st.ghost.get('$classattrs') or {})
            ov[(obj.name, attr)] = v
            st.ghost['$classattrs'] = ov
            return
        raise Unsupported('setattr on %r' % (obj,))

    # ================================================================================================ expressions
    def eval(self, e, st):
        m = getattr(self, 'ex_' + type(e).__name__, None)
        if m is None:
            raise Unsupported('expression %s at line %s' % (type(e).__name__, getattr(e, 'lineno', '?')))
        return m(e, st)

    def ex_Constant(self, e, st):
        v = e.value
        if isinstance(v, (int, str, bytes, bool)) or v is None:
            return v
        if isinstance(v, float):
            return v
        if v is Ellipsis:
            return None
        raise Unsupported('constant %r' % (v,))

    def ex_Name(self, e, st):
        return self.load_name(e.id, st)

    def ex_Attribute(self, e, st):
        obj = self.eval(e.value, st)
        return self.getattr(obj, e.attr, st)

    def ex_Tuple(self, e, st):
        out = []
        for x in e.elts:
            if isinstance(x, ast.Starred):
                out.extend(ops.iter_values(self, st, self.eval(x.value, st)))
            else:
                out.append(self.eval(x, st))
        return tuple(out)

    def ex_List(self, e, st):
        out = []
        for x in e.elts:
            if isinstance(x, ast.Starred):
                out.extend(ops.iter_values(self, st, self.eval(x.value, st)))
            else:
                out.append(self.eval(x, st))
        return st.new_list(out)

    def ex_Set(self, e, st):
        vals = [self.eval(x, st) for x in e.elts]
        return st.alloc(SetObj(vals))

    def ex_Dict(self, e, st):
        d = {}
        for k, v in zip(e.keys, e.values):
            if k is None:
                raise Unsupported('dict unpacking')
            kk = self.eval(k, st)
            if isinstance(kk, Sym):
                raise Unsupported('symbolic dict key in literal')
            d[kk] = self.eval(v, st)
        return st.new_dict(d)

    def ex_JoinedStr(self, e, st):
        parts = []
        for v in e.values:
            if isinstance(v, ast.Constant):
                parts.append(v.value)
            elif isinstance(v, ast.FormattedValue):
                if v.format_spec is not None or v.conversion not in (-1, 115):
                    raise Unsupported('f-string format spec')
                parts.append(ops.to_str(self, st, self.eval(v.value, st)))
            else:
                raise Unsupported('f-string part')
        return ops.concat_strs(self, st, parts)

    def ex_Lambda(self, e, st):
        meta = st.frame['$meta']
        return FuncRef(e, meta['module'], meta.get('cls'), '<lambda@%d>' % e.lineno,
                       closure=tuple(meta.get('closure', ())) + (st.stack[-1],), kind='lambda')

    def ex_IfExp(self, e, st):
        c = self.truth(self.eval(e.test, st), st)
        if isinstance(c, bool):
            return self.eval(e.body if c else e.orelse, st)
        # try a pure merge first (both arms side-effect free in practice); fall back to forking
        sa = st.clone()
        sa.pend, sa.alts = [], []
        sa.trail, sa.tpos = [], 0
        sb = st.clone()
        sb.pend, sb.alts = [], []
        sb.trail, sb.tpos = [], 0
        try:
            sa.pc.append(c)
            sb.pc.append(z3.Not(c))
            va = self.eval(e.body, sa)
            vb = self.eval(e.orelse, sb)
            if not sa.pend and not sb.pend and not sa.alts and not sb.alts and heap_unchanged(st, sa) and heap_unchanged(st, sb):
                n = len(st.pc)
                r = merge_value(c, va, vb, sa, sb, st)
                # facts recorded while evaluating an arm hold under that arm's condition
                for f in sa.pc[n + 1:]:
                    st.pc.append(z3.Implies(c, f))
                for f in sb.pc[n + 1:]:
                    st.pc.append(z3.Implies(z3.Not(c), f))
                return r
        except (MergeFail, Raise):
            pass
        if self.branch(st, c):
            return self.eval(e.body, st)
        return self.eval(e.orelse, st)

    def ex_BoolOp(self, e, st):
        is_and = isinstance(e.op, ast.And)
        return self._boolop(e.values, is_and, st)

    def _boolop(self, exprs, is_and, st):
        v = self.eval(exprs[0], st)
        if len(exprs) == 1:
            return v
        t = self.truth(v, st)
        if isinstance(t, bool):
            if (is_and and not t) or (not is_and and t):
                return v
            return self._boolop(exprs[1:], is_and, st)
        # symbolic: evaluate the rest under the assumption that we get there; merge when the rest is pure
        s2 = st.clone()
        s2.pend, s2.alts = [], []
        s2.trail, s2.tpos = [], 0
        s2.pc.append(t if is_and else z3.Not(t))
        try:
            rest = self._boolop(exprs[1:], is_and, s2)
            pure = not s2.pend and not s2.alts and heap_unchanged(st, s2)
            if pure:
                n = len(st.pc)
                guard = t if is_and else z3.Not(t)
                tv = type_of(v, st)
                tr = type_of(rest, s2)
                if tv == 'bool' and tr == 'bool':
                    rt = self._z(self.truth(rest, s2))
                    res = mk(z3.And(t, rt) if is_and else z3.Or(t, rt), 'bool')
                elif is_and:
                    res = merge_value(t, rest, v, s2, st, st)
                else:
                    vv = v
                    if isinstance(v, Sym) and is_opt(v.ty):
                        vv = mk(opt_val(v.ty, v.t), v.ty[1])       # `x or y` yields x only when x is truthy, hence not None
                    res = merge_value(t, vv, rest, st, s2, st)
                for f in s2.pc[n + 1:]:
                    st.pc.append(z3.Implies(guard, f))
                return res
        except (MergeFail, Raise):
            pass
        if self.branch(st, t):
            return self._boolop(exprs[1:], is_and, st) if is_and else v
        return v if is_and else self._boolop(exprs[1:], is_and, st)

    def ex_UnaryOp(self, e, st):
        v = self.eval(e.operand, st)
        if isinstance(e.op, ast.Not):
            t = self.truth(v, st)
            return (not t) if isinstance(t, bool) else mk(z3.Not(t), 'bool')
        if isinstance(e.op, ast.USub):
            if isinstance(v, Sym):
                return mk(-lift(v, st, 'int'), 'int')
            return -v
        if isinstance(e.op, ast.UAdd):
            return v
        if isinstance(e.op, ast.Invert):
            if isinstance(v, Sym):
                return mk(-lift(v, st, 'int') - 1, 'int')
            return ~v
        raise Unsupported('unary op')

    def ex_BinOp(self, e, st):
        a = self.eval(e.left, st)
        b = self.eval(e.right, st)
        return ops.binop(self, st, e.op, a, b)

    def ex_Compare(self, e, st):
        left = self.eval(e.left, st)
        res = None
        for op, rhs_e in zip(e.ops, e.comparators):
            if res is not None and isinstance(res, bool) and not res:
                return False
            right = self.eval(rhs_e, st)
            r = ops.compare(self, st, op, left, right)
            if res is None:
                res = r
            else:
                if isinstance(res, bool):
                    res = r if res else False
                elif isinstance(r, bool):
                    res = res if r else False
                else:
                    res = mk(z3.And(lift(res, st, 'bool'), lift(r, st, 'bool')), 'bool')
            left = right
        return res

    def eval_index(self, sl, st):
        if isinstance(sl, ast.Slice):
            lo = self.eval(sl.lower, st) if sl.lower is not None else None
            hi = self.eval(sl.upper, st) if sl.upper is not None else None
            step = self.eval(sl.step, st) if sl.step is not None else None
            return ('slice', lo, hi, step)
        return self.eval(sl, st)

    def ex_Subscript(self, e, st):
        obj = self.eval(e.value, st)
        if isinstance(obj, Builtin) and obj.name.startswith('typing.'):
            return obj
        idx = self.eval_index(e.slice, st)
        return ops.getitem(self, st, obj, idx)

    def ex_Starred(self, e, st):
        raise Unsupported('starred expression outside call')

    def ex_ListComp(self, e, st):
        vals = self.comprehension(e.generators, lambda s: self.eval(e.elt, s), st)
        return st.new_list(vals)

    def ex_GeneratorExp(self, e, st):
        vals = self.comprehension(e.generators, lambda s: self.eval(e.elt, s), st)
        return st.new_list(vals, kind='gen')

    def ex_SetComp(self, e, st):
        vals = self.comprehension(e.generators, lambda s: self.eval(e.elt, s), st)
        out = []
        for v in vals:
            if isinstance(v, Sym):
                raise Unsupported('symbolic set member')
            if v not in out:
                out.append(v)
        return st.alloc(SetObj(out))

    def ex_DictComp(self, e, st):
        pairs = self.comprehension(e.generators, lambda s: (self.eval(e.key, s), self.eval(e.value, s)), st)
        d = {}
        for k, v in pairs:
            if isinstance(k, Sym):
                raise Unsupported('symbolic dict key')
            d[k] = v
        return st.new_dict(d)

    def comprehension(self, gens, elt, st):
        """comprehensions over concrete spines only (symbolic iterables need the `filter_map` spec: see ops.symbolic_comprehension)"""
        meta = st.frame['$meta']
        st.push_frame({}, {'module': meta['module'], 'cls': meta.get('cls'), 'qual': meta.get('qual'),
                           'closure': tuple(meta.get('closure', ())) + (st.stack[-1],)})
        out = []
        try:
            self._comp(gens, 0, elt, st, out)
        finally:
            st.pop_frame()
        return out

    def _comp(self, gens, i, elt, st, out):
        if i == len(gens):
            out.append(elt(st))
            return
        g = gens[i]
        itv = self.eval(g.iter, st)
        seq = ops.concrete_iter(self, st, itv)
        if seq is None:
            seq = self.concretize_seq(st, itv)
        if seq is None:
            raise Unsupported('comprehension over symbolic iterable (line %d)' % g.iter.lineno)
        for x in seq:
            self.assign(g.target, x, st)
            ok = True
            for cond in g.ifs:
                t = self.truth(self.eval(cond, st), st)
                if not isinstance(t, bool):
                    t = self.branch(st, t)
                if not t:
                    ok = False
                    break
            if ok:
                self._comp(gens, i + 1, elt, st, out)

    # ================================================================================================ calls
    def ex_Call(self, e, st):
        # special forms
        if isinstance(e.func, ast.Name):
            if e.func.id == 'cast' and len(e.args) == 2:
                return self.eval(e.args[1], st)
            if e.func.id == 'super':
                meta = st.frame['$meta']
                if len(e.args) == 2:
                    c = self.eval(e.args[0], st)
                    obj = self.eval(e.args[1], st)
                    return ('$super', c.name, obj)
                return ('$super', meta.get('cls'), st.frame.get('self'))
            if e.func.id == 'use_lemma' and len(e.args) == 1:
                # ghost statement of sidecar composition code: assume an instance of a proved lemma here
                from .specs import use_lemmas
                use_lemmas(self, st, [ast.unparse(e.args[0])], {})
                return None
            if e.func.id in ('forall', 'exists') and st.frame['$meta'].get('module') == '$spec':
                return ops.quantifier(self, st, e)
        f = self.eval(e.func, st)
        args = []
        for a in e.args:
            if isinstance(a, ast.Starred):
                args.extend(ops.iter_values(self, st, self.eval(a.value, st)))
            else:
                args.append(self.eval(a, st))
        kwargs = {}
        for k in e.keywords:
            if k.arg is None:
                raise Unsupported('**kwargs in call')
            kwargs[k.arg] = self.eval(k.value, st)
        return self.call(f, args, kwargs, st, e)

    def call(self, f, args, kwargs, st, node=None):
        if isinstance(f, FuncRef):
            return self.call_funcref(f, args, kwargs, st, node=node)
        if isinstance(f, BoundMethod):
            if isinstance(f.func, FuncRef):
                return self.call_funcref(f.func, [f.recv] + list(args), kwargs, st, node=node)
            return self.call_method(f.recv, f.func, args, kwargs, st)
        if isinstance(f, ClassRef):
            return self.instantiate(f, args, kwargs, st, node)
        if isinstance(f, Builtin):
            return ops.call_builtin(self, st, f.name, args, kwargs, node)
        raise Unsupported('call of %r' % (f,))

    def call_method(self, recv, name, args, kwargs, st):
        if isinstance(name, tuple) and name and name[0] == '$dyn':
            mm = self.models.get('$dyn_method')
            if mm is None:
                raise Unsupported('method name computed at run time (getattr with a symbolic name)')
            return mm(self, st, recv, name[1], args, kwargs)
        if isinstance(recv, Ref):
            p = st.get(recv)
            if isinstance(p, Obj) and not p.cls.startswith('<'):
                mm = self.method_models.get((p.cls, name))
                if mm is not None:
                    return mm(self, st, recv, args, kwargs)
                ent = self.repo.class_member(p.cls, name)
                if ent is None:
                    raise Unsupported('method %s.%s' % (p.cls, name))
                kind, node, mod, owner = ent
                fr = FuncRef(node, mod, owner, '%s.%s' % (owner, name), kind=kind)
                if kind == 'staticmethod':
                    return self.call_funcref(fr, list(args), kwargs, st)
                if kind == 'classmethod':
                    return self.call_funcref(fr, [ClassRef(p.cls)] + list(args), kwargs, st)
                return self.call_funcref(fr, [recv] + list(args), kwargs, st)
        return ops.call_method(self, st, recv, name, args, kwargs)

    def instantiate(self, cref, args, kwargs, st, node=None):
        if self.repo.find_class(cref.name) is None:
            # exception classes and modelled library classes
            if cref.name in EXC_PARENTS or cref.name in EXC_ALIASES:
                return ExcVal(EXC_ALIASES.get(cref.name, cref.name), args)
            return ops.call_builtin(self, st, cref.name, args, kwargs, node)
        mod, cd = self.repo.find_class(cref.name)
        for b in cd.bases:
            if isinstance(b, ast.Name) and b.id == 'Exception':
                return ExcVal(cref.name, args)
        mm = self.models.get(cref.name)
        if mm is not None:
            return mm(self, st, args, kwargs)
        obj = st.new_obj(cref.name)
        ent = self.repo.class_member(cref.name, '__init__')
        if ent is not None:
            kind, fnode, fmod, owner = ent
            fr = FuncRef(fnode, fmod, owner, '%s.__init__' % owner)
            self.call_funcref(fr, [obj] + list(args), kwargs, st)
        return obj

    def bind_args(self, fnode, args, kwargs, st, module, cls):
        a = fnode.args
        params = [p.arg for p in a.posonlyargs + a.args]
        locals_ = {}
        args = list(args)
        if a.vararg is not None:
            locals_[a.vararg.arg] = tuple(args[len(params):])
            args = args[:len(params)]
        if len(args) > len(params):
            raise Raise(ExcVal('TypeError', ('too many positional arguments',)))
        for p, v in zip(params, args):
            locals_[p] = v
        kwargs = dict(kwargs)
        for p in params[len(args):] + [k.arg for k in a.kwonlyargs]:
            if p in kwargs:
                locals_[p] = kwargs.pop(p)
        defaults = a.defaults
        for p, d in zip(params[len(params) - len(defaults):], defaults):
            if p not in locals_:
                locals_[p] = ('$default', d)
        for k, d in zip(a.kwonlyargs, a.kw_defaults):
            if k.arg not in locals_ and d is not None:
                locals_[k.arg] = ('$default', d)
        if kwargs:
            if a.kwarg is not None:
                locals_[a.kwarg.arg] = st.new_dict(kwargs)
            else:
                raise Raise(ExcVal('TypeError', ('unexpected keyword arguments %s' % sorted(kwargs),)))
        elif a.kwarg is not None:
            locals_[a.kwarg.arg] = st.new_dict({})
        for p in params + [k.arg for k in a.kwonlyargs]:
            if p not in locals_:
                raise Raise(ExcVal('TypeError', ('missing argument %s' % p,)))
        return locals_

    def call_funcref(self, fr, args, kwargs, st, node=None, extra_meta=None):
        qual = fr.qual
        con = self.contracts.get(qual)
        if con is not None and con.mode == 'contract' and qual != self.cur_func_top(st):
            from .contracts import apply_contract
            return apply_contract(self, con, fr, args, kwargs, st, node)
        hook = self.models.get(qual)
        if hook is not None:
            return hook(self, st, args, kwargs)
        if self.depth > 60:
            raise Unsupported('call depth exceeded (recursion?) at %s' % qual)
        fnode = fr.node
        self.inlined.add(qual)
        meta = {'module': fr.module, 'cls': fr.cls, 'qual': qual, 'closure': fr.closure}
        if extra_meta:
            meta.update(extra_meta)
        if isinstance(fnode, ast.Lambda):
            locals_ = self.bind_args(fnode, args, kwargs, st, fr.module, fr.cls)
            st.push_frame(locals_, meta)
            self._eval_defaults(st)
            try:
                return self.eval(fnode.body, st)
            finally:
                st.pop_frame()
        locals_ = self.bind_args(fnode, args, kwargs, st, fr.module, fr.cls)
        st.push_frame(locals_, meta)
        self._eval_defaults(st)
        depth_stack = len(st.stack)
        self.depth += 1
        try:
            outs = self.exec_block(fnode.body, st)
        finally:
            self.depth -= 1
        # pick one outcome for the caller's evaluation
        rets = []
        for kind, s, v in outs:
            if kind == 'next':
                rets.append(('return', s, None))
            elif kind in ('return', 'raise'):
                rets.append((kind, s, v))
            else:
                raise Unsupported('break/continue escaping function %s' % qual)
        if not rets:
            raise Infeasible()
        rets = self.merge_returns(rets, st)
        c = self.choose(st, len(rets))
        kind, s, v = rets[c]
        # drop callee frame(s)
        while len(s.stack) >= depth_stack:
            s.stack.pop()
        if s is not st:
            st.become(s)
        if kind == 'raise':
            raise Raise(v)
        return v

    def merge_returns(self, rets, st):
        """try to merge several normal-return outcomes of an inlined callee into one (keeps the caller single-path)"""
        normal = [r for r in rets if r[0] == 'return']
        other = [r for r in rets if r[0] != 'return']
        if len(normal) <= 1:
            return rets
        # pairwise merge is only attempted for states that share the caller's pc prefix
        base_len = len(st.pc)
        cur = normal[0]
        merged = []
        for nx in normal[1:]:
            m = self._merge_pair(cur, nx)
            if m is None:
                merged.append(cur)
                cur = nx
            else:
                cur = m
        merged.append(cur)
        return merged + other

    def _merge_pair(self, a, b):
        sa, sb = a[1], b[1]
        # common pc prefix
        n = 0
        while n < len(sa.pc) and n < len(sb.pc) and sa.pc[n].eq(sb.pc[n]):
            n += 1
        if n >= len(sa.pc) or n >= len(sb.pc):
            return None
        ca, cb = sa.pc[n], sb.pc[n]
        if not (z3.is_not(cb) and cb.arg(0).eq(ca)) and not (z3.is_not(ca) and ca.arg(0).eq(cb)):
            return None
        if z3.is_not(ca) and ca.arg(0).eq(cb):
            sa, sb = sb, sa
            a, b = b, a
            ca = cb
        try:
            sa.frame['$ret'] = a[2]
            sb.frame['$ret'] = b[2]
            m = merge_states(n, ca, sa, sb)
            v = m.frame.pop('$ret')
            return ('return', m, v)
        except MergeFail:
            return None
        finally:
            sa.frame.pop('$ret', None)
            sb.frame.pop('$ret', None)

    def cur_func_top(self, st):
        return self.cur_func

    def _eval_defaults(self, st):
        fr = st.frame
        for k, v in list(fr.items()):
            if isinstance(v, tuple) and len(v) == 2 and v[0] == '$default':
                fr[k] = self.eval(v[1], st)

    # ================================================================================================ spec expressions
    def eval_spec(self, expr, st, env):
        """evaluate a contract expression (string) in the current frame extended by env"""
        node = expr if isinstance(expr, ast.AST) else ast.parse(expr.strip(), mode='eval').body
        base = {}
        if st.stack:
            base = {k: v for k, v in st.frame.items() if not k.startswith('$')}
            closure = tuple(st.frame['$meta'].get('closure', ()))
        else:
            closure = ()
        if '$old' in st.ghost:
            base['old'] = st.ghost['$old']
        base.update(env)
        st.push_frame(base, {'module': '$spec', 'cls': None, 'qual': '<spec>', 'closure': closure})
        n_alts, n_trail = len(st.alts), st.tpos
        from . import state as _state
        saved_pure = _state.PURE_CONTEXT[0]
        _state.PURE_CONTEXT[0] = True
        try:
            v = self.eval(node, st)
        finally:
            _state.PURE_CONTEXT[0] = saved_pure
            st.pop_frame()
        if len(st.alts) != n_alts or st.tpos != n_trail:
            # a contract expression must denote one value: an evaluation that forks would silently drop alternatives
            raise Unsupported('contract expression forks (not a single merged value): %s' % (expr if isinstance(expr, str) else ast.unparse(expr)))
        return v
