"""pyvc.state -- symbolic program state: frames, copy-on-write heap, path condition, ghost variables; merging."""
import z3
from .values import (Sym, Ref, LObj, DObj, SetObj, Obj, Unsupported, new_oid, sort_of, zstr, is_opt, opt_none,
                     opt_some, FuncRef, BoundMethod, ClassRef, Builtin, ModuleRef, ExcVal)


class MergeFail(Exception):
    pass


# set while a contract / spec expression is evaluated: values there are never mutated, so two list objects may be
# merged into a fresh list *value*
PURE_CONTEXT = [False]


class State:
    def __init__(self):
        self.frames = {}        # fid -> dict name -> value
        self.stack = []         # list of fids (call stack)
        self.heap = {}          # oid -> payload
        self.owned = set()      # oids whose payload this state may mutate in place
        self.pc = []            # list of z3 Bool (assumptions)
        self.ghost = {}         # ghost variables
        self.pend = []          # pending exceptional outcomes of the statement being evaluated
        self.trail = []
        self.tpos = 0
        self.alts = []
        self.notes = []         # free-form trace (for samples/diagnostics)

    # ------------------------------------------------------------------ heap
    def alloc(self, payload):
        oid = new_oid()
        self.heap[oid] = payload
        self.owned.add(oid)
        return Ref(oid)

    def get(self, ref):
        return self.heap[ref.oid]

    def mut(self, ref):
        oid = ref.oid
        if oid not in self.owned:
            self.heap[oid] = self.heap[oid].copy()
            self.owned.add(oid)
        return self.heap[oid]

    def new_list(self, items, elty=None, kind='list'):
        return self.alloc(LObj(list(items), None, elty, kind))

    def new_symlist(self, term, elty):
        return self.alloc(LObj(None, term, elty))

    def new_dict(self, d=None):
        return self.alloc(DObj(dict(d) if d else {}))

    def new_obj(self, cls, fields=None):
        return self.alloc(Obj(cls, dict(fields) if fields else {}))

    # ------------------------------------------------------------------ frames
    def push_frame(self, locals_, meta):
        fid = new_oid()
        d = dict(locals_)
        d['$meta'] = meta
        self.frames[fid] = d
        self.stack.append(fid)
        return fid

    def pop_frame(self):
        self.stack.pop()

    @property
    def frame(self):
        return self.frames[self.stack[-1]]

    # ------------------------------------------------------------------ cloning
    def clone(self):
        s = State()
        s.frames = {fid: dict(fr) for fid, fr in self.frames.items()}
        s.stack = list(self.stack)
        s.heap = dict(self.heap)
        self.owned = set()
        s.owned = set()
        s.pc = list(self.pc)
        s.ghost = dict(self.ghost)
        s.pend = []
        s.trail = list(self.trail)
        s.tpos = self.tpos
        s.alts = []
        s.notes = list(self.notes)
        return s

    def become(self, other):
        """replace the contents of this state by those of `other` (used when an inlined call picks one outcome)."""
        self.frames = other.frames
        self.stack = other.stack
        self.heap = other.heap
        self.owned = other.owned
        self.pc = other.pc
        self.ghost = other.ghost
        self.notes = other.notes
        # pend / trail / alts stay: they belong to the statement being evaluated

    def assume(self, t):
        if isinstance(t, bool):
            if not t:
                self.pc.append(z3.BoolVal(False))
            return
        if isinstance(t, Sym):
            t = t.t
        self.pc.append(t)


# ----------------------------------------------------------------------------------------------- typing / lifting
def type_of(v, st):
    if isinstance(v, Sym):
        return v.ty
    if isinstance(v, bool):
        return 'bool'
    if isinstance(v, int):
        return 'int'
    if isinstance(v, str):
        return 'str'
    if isinstance(v, bytes):
        return 'bytes'
    if isinstance(v, tuple):
        ts = tuple(type_of(x, st) for x in v)
        if any(t is None for t in ts):
            return None
        return ('tuple', ts)
    if isinstance(v, Ref):
        p = st.get(v)
        if isinstance(p, LObj):
            if p.elty is not None:
                return ('list', p.elty)
            ts = set()
            for x in p.items:
                t = type_of(x, st)
                if t is None:
                    return None
                ts.add(t)
            if len(ts) == 1:
                return ('list', ts.pop())
            if ts and all((t == 'str' or t == ('opt', 'str')) for t in ts):
                return ('list', ('opt', 'str'))
            return None
    return None


def unify_ty(a, b):
    if a == b:
        return a
    if a is None or b is None:
        return None
    if a == 'none':
        return b if is_opt(b) else ('opt', b)
    if b == 'none':
        return a if is_opt(a) else ('opt', a)
    if is_opt(a) and a[1] == b:
        return a
    if is_opt(b) and b[1] == a:
        return b
    if a == 'bool' and b == 'int' or a == 'int' and b == 'bool':
        return 'int'
    return None


def _seq_to_opt(term, lty):
    """Seq T -> Seq Opt[T] for terms built from ite / unit / concat / empty (merged concrete lists)"""
    k = term.decl().kind()
    if k == z3.Z3_OP_ITE:
        return z3.If(term.arg(0), _seq_to_opt(term.arg(1), lty), _seq_to_opt(term.arg(2), lty))
    if k == z3.Z3_OP_SEQ_UNIT:
        return z3.Unit(opt_some(lty[1], term.arg(0)))
    if k == z3.Z3_OP_SEQ_CONCAT:
        return z3.Concat(*[_seq_to_opt(term.arg(i), lty) for i in range(term.num_args())])
    if k == z3.Z3_OP_SEQ_EMPTY:
        return z3.Empty(sort_of(lty))
    raise Unsupported('cannot convert a symbolic list to a list of optionals: %s' % term.sexpr()[:80])


def lift(v, st, ty=None):
    """z3 term of a first-order value."""
    if isinstance(v, Sym):
        if ty is not None and v.ty != ty:
            if is_opt(ty) and v.ty == ty[1]:
                return opt_some(ty, v.t)
            if ty == 'int' and v.ty == 'bool':
                return z3.If(v.t, 1, 0)
            raise Unsupported('lift: %r is not of type %r' % (v, ty))
        return v.t
    if ty is not None and is_opt(ty):
        if v is None:
            return opt_none(ty)
        return opt_some(ty, lift(v, st, ty[1]))
    if isinstance(v, bool):
        if ty == 'int':
            return z3.IntVal(int(v))
        return z3.BoolVal(v)
    if isinstance(v, int):
        return z3.IntVal(v)
    if isinstance(v, (str, bytes)):
        return zstr(v)
    if isinstance(v, tuple):
        t = ty or type_of(v, st)
        if t is None:
            raise Unsupported('lift of heterogeneous tuple %r' % (v,))
        s = sort_of(t)
        return s.constructor(0)(*[lift(x, st, tt) for x, tt in zip(v, t[1])])
    if isinstance(v, Ref):
        p = st.get(v)
        if isinstance(p, LObj):
            t = ty or type_of(v, st)
            if t is None:
                raise Unsupported('lift of list without element type %r' % (p,))
            if p.sym is not None:
                if p.elty is not None and t[1] != p.elty:
                    if is_opt(t[1]) and t[1][1] == p.elty:
                        return _seq_to_opt(p.sym, t)
                    raise Unsupported('lift: list of %r is not a list of %r' % (p.elty, t[1]))
                return p.sym
            if len(p.items) == 0:
                return z3.Empty(sort_of(t))
            units = [z3.Unit(lift(x, st, t[1])) for x in p.items]
            return units[0] if len(units) == 1 else z3.Concat(*units)
    raise Unsupported('cannot lift %r' % (v,))


def mk(t, ty):
    """wrap a z3 term, folding literals back to python values where possible."""
    if ty in ('int', 'bool', 'str', 'bytes'):
        t = z3.simplify(t)
    if ty == 'int':
        if z3.is_int_value(t):
            return t.as_long()
    elif ty == 'bool':
        if z3.is_true(t):
            return True
        if z3.is_false(t):
            return False
    elif ty == 'str':
        if z3.is_string_value(t):
            return t.as_string() if _plain(t) else Sym(t, ty)
    elif isinstance(ty, tuple) and ty[0] == 'tuple':
        s = sort_of(ty)
        return tuple(mk(s.accessor(0, i)(t), tt) for i, tt in enumerate(ty[1]))
    return Sym(t, ty)


def _plain(t):
    try:
        s = t.as_string()
    except Exception:
        return False
    return '\\' not in s


def values_equal(a, b):
    if a is b:
        return True
    if isinstance(a, Sym) or isinstance(b, Sym):
        return isinstance(a, Sym) and isinstance(b, Sym) and a == b
    if type(a) is not type(b):
        return False
    if isinstance(a, tuple):
        return len(a) == len(b) and all(values_equal(x, y) for x, y in zip(a, b))
    if isinstance(a, ExcVal):
        return a.cls == b.cls and values_equal(a.args, b.args)
    try:
        return bool(a == b)
    except Unsupported:
        return False


def merge_value(c, a, b, sa, sb, out):
    """value that equals a when c else b.  sa/sb: states in which a/b live; out: merged state under construction."""
    if values_equal(a, b):
        return a
    if isinstance(a, tuple) and isinstance(b, tuple) and len(a) == len(b):
        return tuple(merge_value(c, x, y, sa, sb, out) for x, y in zip(a, b))
    if isinstance(a, Ref) and isinstance(b, Ref):
        pa, pb = sa.get(a), sb.get(b)
        if (a.oid in out.heap or b.oid in out.heap) and not PURE_CONTEXT[0]:
            # two different objects that already existed before the branches: merging them into a copy would lose aliasing
            # (a later mutation through the merged reference must reach the original) -- keep the paths separate
            raise MergeFail('references to distinct pre-existing objects')
        if isinstance(pa, LObj) and isinstance(pb, LObj):
            ta, tb = type_of(a, sa), type_of(b, sb)
            if ta is None and pa.items is not None and len(pa.items) == 0:
                ta = tb
            if tb is None and pb.items is not None and len(pb.items) == 0:
                tb = ta
            t = unify_list_ty(ta, tb)
            if t is None:
                raise MergeFail('lists of different/unknown element type')
            term = z3.If(c, lift(a, sa, t), lift(b, sb, t))
            return out.new_symlist(term, t[1])
        raise MergeFail('distinct heap objects')
    ta, tb = type_of(a, sa), type_of(b, sb)
    if a is None:
        ta = 'none'
    if b is None:
        tb = 'none'
    if (a is None and isinstance(b, tuple)) or (b is None and isinstance(a, tuple)):
        raise MergeFail('None vs tuple: kept on separate paths')
    t = unify_ty(ta, tb)
    if t is None or t == 'none':
        raise MergeFail('cannot merge values of types %r / %r' % (ta, tb))     # (no %r of the values: printing large terms is slow)
    if isinstance(t, tuple) and t[0] == 'list':
        # a list object on one side, a symbolic list value on the other: the merged value is a fresh list object
        return out.new_symlist(z3.If(c, lift(a, sa, t), lift(b, sb, t)), t[1])
    ite = z3.If(c, lift(a, sa, t), lift(b, sb, t))
    if t in ('str', 'bytes') and (isinstance(a, Sym) or isinstance(b, Sym)):
        # name the merged string: keeps later terms small (the defining equation goes to the path condition)
        from .values import fresh
        nv = fresh('m', t)
        out.pc.append(nv.t == ite)
        return nv
    return mk(ite, t)


def unify_list_ty(ta, tb):
    if ta is None or tb is None:
        return None
    if ta == tb:
        return ta
    e = unify_ty(ta[1], tb[1])
    if e is None:
        return None
    return ('list', e)


def merge_states(parent_pc_len, c, sa, sb):
    """merge two states that were cloned from a common parent whose pc had parent_pc_len entries.
    sa ran under c, sb under not c.  Raises MergeFail."""
    out = State()
    out.stack = list(sa.stack)
    if sa.stack != sb.stack:
        raise MergeFail('stacks differ')
    out.heap = dict(sa.heap)
    out.owned = set()
    # path condition
    out.pc = list(sa.pc[:parent_pc_len])
    nc = z3.Not(c)
    for t in sa.pc[parent_pc_len:]:
        if not t.eq(c):
            out.pc.append(z3.Implies(c, t))
    for t in sb.pc[parent_pc_len:]:
        if not t.eq(nc):
            out.pc.append(z3.Implies(nc, t))
    # heap
    for oid, pb in sb.heap.items():
        pa = sa.heap.get(oid)
        if pa is None:
            out.heap[oid] = pb
            continue
        if pa is pb:
            continue
        out.heap[oid] = None  # placeholder, filled below
    for oid, pb in sb.heap.items():
        pa = sa.heap.get(oid)
        if pa is None or pa is pb:
            continue
        out.heap[oid] = _merge_payload(c, pa, pb, sa, sb, out, Ref(oid))
        out.owned.add(oid)
    # frames
    for fid in set(sa.frames) | set(sb.frames):
        fa, fb = sa.frames.get(fid), sb.frames.get(fid)
        if fa is None or fb is None:
            out.frames[fid] = dict(fa if fa is not None else fb)
            continue
        fr = {}
        for k in fa:
            if k in fb:
                fr[k] = merge_value(c, fa[k], fb[k], sa, sb, out)
            else:
                if fid in sa.stack:
                    raise MergeFail('variable %s bound on one side only' % k)
        for k in fb:
            if k not in fa and fid in sb.stack:
                raise MergeFail('variable %s bound on one side only' % k)
        out.frames[fid] = fr
    # ghost
    for k in set(sa.ghost) | set(sb.ghost):
        if k not in sa.ghost or k not in sb.ghost:
            raise MergeFail('ghost %s on one side' % k)
        out.ghost[k] = merge_value(c, sa.ghost[k], sb.ghost[k], sa, sb, out)
    out.notes = list(sa.notes)
    return out


def _merge_payload(c, pa, pb, sa, sb, out, ref):
    if isinstance(pa, LObj) and isinstance(pb, LObj):
        if pa.items is not None and pb.items is not None and len(pa.items) == len(pb.items):
            try:
                return LObj([merge_value(c, x, y, sa, sb, out) for x, y in zip(pa.items, pb.items)], None,
                            pa.elty or pb.elty, pa.kind)
            except MergeFail:
                pass
        ta, tb = type_of(ref, sa), type_of(ref, sb)
        if ta is None and pa.items is not None and len(pa.items) == 0:
            ta = tb
        if tb is None and pb.items is not None and len(pb.items) == 0:
            tb = ta
        t = unify_list_ty(ta, tb)
        if t is None:
            raise MergeFail('list payloads of unknown type')
        return LObj(None, z3.If(c, lift(ref, sa, t), lift(ref, sb, t)), t[1], pa.kind)
    if isinstance(pa, DObj) and isinstance(pb, DObj):
        if list(pa.d.keys()) != list(pb.d.keys()):
            raise MergeFail('dict key sets differ')
        return DObj({k: merge_value(c, pa.d[k], pb.d[k], sa, sb, out) for k in pa.d})
    if isinstance(pa, Obj) and isinstance(pb, Obj):
        if pa.cls != pb.cls or set(pa.f) != set(pb.f):
            raise MergeFail('object shapes differ')
        return Obj(pa.cls, {k: merge_value(c, pa.f[k], pb.f[k], sa, sb, out) for k in pa.f})
    if isinstance(pa, SetObj) and isinstance(pb, SetObj):
        if pa.s == pb.s:
            return pa
        raise MergeFail('sets differ')
    raise MergeFail('payload kinds differ')
