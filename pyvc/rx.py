"""Translation of a Python regular expression (as parsed by CPython's own re._parser) to a z3 regular expression, for
*language-level* facts only (acceptance / inclusion); capture groups are not modelled here.
Supported nodes: literals, character classes (ranges, \\d \\s \\w and their negations, negated classes), `.`, greedy and lazy
repetition, groups (capturing or not), alternation, ^ at the start and $ at the end.  Anything else raises Unsupported."""
import re
import z3
from .values import Unsupported, zstr

try:
    import re._parser as sre_parse
    import re._constants as sre_constants
except ImportError:      # Python < 3.11
    import sre_parse
    import sre_constants

S = z3.StringSort()
ANYCHAR = z3.AllChar(z3.ReSort(S))


def ch(c):
    return z3.Re(zstr(chr(c)))


def rng(a, b):
    return z3.Range(zstr(chr(a)), zstr(chr(b)))


def category(cat):
    name = str(cat)
    if name.endswith('CATEGORY_DIGIT'):
        return rng(48, 57)              # ASCII digits (inputs are ASCII: stated)
    if name.endswith('CATEGORY_SPACE'):
        return z3.Union(*[ch(ord(c)) for c in ' \t\n\r\x0b\x0c'])
    if name.endswith('CATEGORY_WORD'):
        return z3.Union(rng(48, 57), rng(65, 90), rng(97, 122), ch(95))
    if name.endswith('CATEGORY_NOT_DIGIT'):
        return z3.Intersect(ANYCHAR, z3.Complement(rng(48, 57)))
    if name.endswith('CATEGORY_NOT_SPACE'):
        return z3.Intersect(ANYCHAR, z3.Complement(category('CATEGORY_SPACE')))
    raise Unsupported('regex category %s' % name)


def trans(seq, last=True):
    parts = []
    items = list(seq)
    for idx, (op, av) in enumerate(items):
        name = str(op)
        if name == 'LITERAL':
            parts.append(ch(av))
        elif name == 'NOT_LITERAL':
            parts.append(z3.Intersect(ANYCHAR, z3.Complement(ch(av))))
        elif name == 'ANY':
            parts.append(z3.Intersect(ANYCHAR, z3.Complement(ch(10))))
        elif name == 'IN':
            alts = []
            neg = False
            for o2, a2 in av:
                n2 = str(o2)
                if n2 == 'NEGATE':
                    neg = True
                elif n2 == 'LITERAL':
                    alts.append(ch(a2))
                elif n2 == 'RANGE':
                    alts.append(rng(a2[0], a2[1]))
                elif n2 == 'CATEGORY':
                    alts.append(category(a2))
                else:
                    raise Unsupported('regex class item %s' % n2)
            r = alts[0] if len(alts) == 1 else z3.Union(*alts)
            if neg:
                r = z3.Intersect(ANYCHAR, z3.Complement(r))
            parts.append(r)
        elif name in ('MAX_REPEAT', 'MIN_REPEAT'):
            lo, hi, sub = av
            r = trans(sub, False)
            if hi == sre_constants.MAXREPEAT:
                if lo == 0:
                    parts.append(z3.Star(r))
                elif lo == 1:
                    parts.append(z3.Plus(r))
                else:
                    parts.append(z3.Concat(*([r] * lo + [z3.Star(r)])))
            else:
                parts.append(z3.Loop(r, lo, hi))
        elif name == 'SUBPATTERN':
            parts.append(trans(av[3], False))
        elif name == 'BRANCH':
            parts.append(z3.Union(*[trans(b, False) for b in av[1]]))
        elif name == 'AT':
            an = str(av)
            if an.endswith('AT_BEGINNING') and idx == 0:
                continue
            if an.endswith('AT_END') and idx == len(items) - 1 and last:
                continue
            raise Unsupported('regex anchor %s in the middle of a pattern' % an)
        else:
            raise Unsupported('regex node %s' % name)
    if not parts:
        return z3.Re(z3.StringVal(''))
    return parts[0] if len(parts) == 1 else z3.Concat(*parts)


def to_z3(pattern):
    return trans(sre_parse.parse(pattern), True)
