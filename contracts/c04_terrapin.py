"""Contracts for C04 (Terrapin exposure is flagged exactly per the published rule)."""
import z3
from pyvc.contracts import Contract
from pyvc.driver import Unit
from pyvc.values import fresh, Sym
from pyvc.state import mk
from pyvc import ops

TERRAPIN = "vulnerable to the Terrapin attack (CVE-2023-48795), allowing message prefix truncation"

def setup_helper(ip, st, fr, case):
    """the _get_*_enabled helpers: closure variable client_audit, algs with arbitrary client/server cipher and MAC lists"""
    from contracts.c02_status import make_kex
    kex, g = make_kex(ip, st)
    fr['algs'] = st.new_obj('Algorithms', {'_Algorithms__ssh1kex': None, '_Algorithms__ssh2kex': kex})
    fr['client_audit'] = fresh('client_audit', 'bool')
    for k in ('cenc', 'senc', 'cmac', 'smac'):
        fr['g_' + k] = g[k]
    return {}


def helper_units():
    U = []
    for fn, spec, lists in (('_get_chacha_ciphers_enabled', 'filter_chacha', ('g_cenc', 'g_senc')),
                            ('_get_cbc_ciphers_enabled', 'filter_cbc', ('g_cenc', 'g_senc')),
                            ('_get_etm_macs_enabled', 'filter_etm', ('g_cmac', 'g_smac'))):
        var = 'ciphers_supported' if 'cipher' in fn else 'macs_supported'
        U.append(Unit(Contract('ssh_audit:post_process_findings.' + fn, setup=setup_helper, raises={},
                               ensures=["result == %s(%s if client_audit else %s)" % (spec, lists[0], lists[1])],
                               loops={1: dict(header='for %s in %s' % ('cipher' if 'cipher' in fn else 'mac', var), invariant=["ret == %s(%s[:_k])" % (spec, var)], types={'ret': 'list[str]'})}),
                      harness=None))
    return U


def m_db_contains(ip, st, recv, args, kwargs):
    return st.ghost['g_known']


def m_db_getitem(ip, st, recv, args, kwargs):
    k = st.ghost['g_known']
    ip.cond_raise(st, z3.Not(k.t), 'KeyError', args[0])
    return st.ghost['g_entry']


def setup_add_warning(ip, st, fr, case):
    n = case['$n']
    inner = [st.new_symlist(fresh('e%d' % i, ('list', ('opt', 'str'))).t, ('opt', 'str')) for i in range(n)]
    entry = st.new_list(inner, ('list', ('opt', 'str')))
    st.ghost['g_known'] = fresh('known', 'bool')
    st.ghost['g_entry'] = entry
    fr['db'] = st.new_dict({'enc': st.new_obj('<symdb>', {'cat': 'enc'}), 'mac': st.new_obj('<symdb>', {'cat': 'mac'})})
    fr['category'] = case['$cat']
    fr['algorithm_name'] = fresh('name', 'str')
    for i in range(n):
        fr['g_old%d' % i] = Sym(st.get(inner[i]).sym, ('list', ('opt', 'str')))
    fr['g_n'] = n
    ip.method_models[('<symdb>', '__contains__')] = m_db_contains
    ip.method_models[('<symdb>', '__getitem__')] = m_db_getitem
    return {}


def add_warning_units():
    U = []
    for n in (1, 2, 3, 4):
        ens = ["implies(not ghost('g_known'), len(ghost('g_entry')) == g_n)",
               "implies(ghost('g_known'), len(ghost('g_entry')) == max(g_n, 3))",
               "implies(ghost('g_known'), (ghost('g_entry')[2] if len(ghost('g_entry')) > 2 else None) == %s + [%r])" % ('g_old2' if n > 2 else '[]', TERRAPIN)]
        for i in range(n):
            if i != 2:
                ens.append("ghost('g_entry')[%d] == g_old%d" % (i, i))
        if n == 1:
            ens.append("implies(ghost('g_known'), (ghost('g_entry')[1] if len(ghost('g_entry')) > 1 else None) == [])")
        U.append(Unit(Contract('ssh_audit:post_process_findings._add_terrapin_warning', setup=setup_add_warning,
                               cases=[{'$n': n, '$cat': 'enc' if n % 2 else 'mac'}], raises={}, ensures=ens),
                      harness=None))
    return U


NATIVE = r'''
import itertools, json, sys
sys.path.insert(0, %(native)r)
import harness as H
from ssh_audit.ssh2_kexdb import SSH2_KexDB
MARK = "vulnerable to the Terrapin attack"
DB = SSH2_KexDB.MASTER_DB
def is_chacha(c): return c.startswith('chacha20-poly1305')
def is_cbc(c): return c.endswith('-cbc') or c.endswith('-cbc@openssh.org') or c.endswith('-cbc@ssh.com') or c == 'rijndael-cbc@lysator.liu.se'
def is_etm(m): return m.endswith('-etm@openssh.com')
chachas = [[], ['chacha20-poly1305@openssh.com'], ['chacha20-poly1305-foo@example.com']]
cbcs = [[], ['aes128-cbc'], ['aes256-cbc', '3des-cbc'], ['rijndael-cbc@lysator.liu.se'], ['cast128-12-cbc@ssh.com'], ['foo-cbc']]
etms = [[], ['hmac-sha2-256-etm@openssh.com'], ['umac-128-etm@openssh.com', 'hmac-sha1-etm@openssh.com'], ['bar-etm@openssh.com']]
markers = {'own': None, 'other': None, 'none': None}
cases, failures = 0, []
per_class = {}
def fail(inp, got, want, cls='rule'):
    per_class[cls] = per_class.get(cls, 0) + 1
    if per_class[cls] <= (8 if cls == 'rule' else 2):
        failures.append({'input': dict(inp, **{'class': cls}), 'got': got, 'want': want})
for role in ('server', 'client'):
    own = 'kex-strict-s-v00@openssh.com' if role == 'server' else 'kex-strict-c-v00@openssh.com'
    other = 'kex-strict-c-v00@openssh.com' if role == 'server' else 'kex-strict-s-v00@openssh.com'
    for mk, ch, cb, et in itertools.product(('own', 'other', 'none'), chachas, cbcs, etms):
        kexl = ['curve25519-sha256'] + ([own] if mk == 'own' else [other] if mk == 'other' else [])
        enc = ['aes128-ctr'] + ch + cb
        mac = ['hmac-sha2-256'] + et
        inp = {'role': role, 'marker': mk, 'enc': enc, 'mac': mac}
        cases += 1
        try:
            kex = H.make_kex(kexl, ['ssh-ed25519'], enc, mac)
            status, text = H.run_output(kex=kex, client_host=('10.0.0.1' if role == 'client' else None))
        except Exception as e:
            fail(inp, 'exception %%r' %% (e,), 'a report')
            continue
        marked = sorted(set((c, n) for c, n, lvl, note in H.text_findings(text) if MARK in (note or '')))
        strict = (mk == 'own')
        vul = list(ch) + (cb + et if (cb and et) else [])
        want_marked = [] if strict else sorted(set([('enc', c) for c in ch] + ([('enc', c) for c in cb] + [('mac', m) for m in et] if (cb and et) else [])))
        known = lambda p: p[1] in DB[p[0]]
        if [p for p in marked if known(p)] != [p for p in want_marked if known(p)] or [p for p in marked if not known(p) and p not in want_marked]:
            fail(inp, {'marked': marked}, {'marked': want_marked})
        elif marked != want_marked:
            # only names the database does not know are missing their mark
            fail(inp, {'marked': marked}, {'marked': want_marked}, 'unknown-shaped-name')
        adv = [l for l in text.split('\n') if 'strict key exchange' in l and '(nfo)' in l]
        if strict and vul:
            if len(adv) != 1 or ('The following algorithms would allow an unpatched peer to create vulnerable SSH channels with this target: %%s.' %% ', '.join(vul)) not in adv[0]:
                fail(inp, {'advisory': adv}, {'advisory names': vul})
        elif adv:
            fail(inp, {'advisory': adv}, {'advisory': 'none'})
        adds = [n for sg, n, c in H.rec_lines(text) if sg == '+']
        bad = [n for n in adds if (n in DB['enc'] and (is_chacha(n) or is_cbc(n))) or (n in DB['mac'] and is_etm(n))]
        if bad:
            fail(inp, {'recommended for addition': bad}, {'recommended for addition': 'no ChaCha20-Poly1305 / CBC / ETM algorithm'})
        # the JSON view of the same peer: same marks, same advisory note, same suppression of additions
        if (cases %% 3 == 0) or not cb:
            kex = H.make_kex(kexl, ['ssh-ed25519'], enc, mac)
            stj, js = H.run_output(kex=kex, client_host=('10.0.0.1' if role == 'client' else None), json_out=True)
            doc = json.loads(js)
            jmarked = sorted(set((c, e['algorithm']) for c in ('enc', 'mac') for e in doc[c] if any(MARK in x for v in e['notes'].values() for x in v)))
            if [p for p in jmarked if known(p)] != [p for p in want_marked if known(p)]:
                fail(dict(inp, view='json'), {'marked': jmarked}, {'marked': want_marked}, 'json-marks')
            jadv = [n for n in doc.get('additional_notes', []) if 'strict key exchange' in n]
            if bool(jadv) != bool(strict and vul):
                fail(dict(inp, view='json'), {'advisory': jadv[:1]}, {'advisory expected': bool(strict and vul)}, 'json-advisory')
            jadds = [e['name'] for lvl in doc.get('recommendations', {}).values() for act, cats in lvl.items() if act == 'add' for ents in cats.values() for e in ents]
            jbad = [n for n in jadds if (n in DB['enc'] and (is_chacha(n) or is_cbc(n))) or (n in DB['mac'] and is_etm(n))]
            if jbad:
                fail(dict(inp, view='json'), {'recommended for addition': jbad}, 'no ChaCha20-Poly1305 / CBC / ETM algorithm', 'json-suppression')
# a server that is otherwise flawless: the advisory note is still shown (text and JSON) when it has the marker and names something
for role in ('server',):
    for kw in ({}, dict(batch=True), dict(verbose=True)):
        cases += 1
        kex = H.make_kex(['sntrup761x25519-sha512@openssh.com', 'kex-strict-s-v00@openssh.com'], ['ssh-ed25519'], ['chacha20-poly1305@openssh.com', 'aes256-gcm@openssh.com'], ['hmac-sha2-512-etm@openssh.com'])
        status, text = H.run_output(kex=kex, banner='SSH-2.0-OpenSSH_9.9', **kw)
        adv = [l for l in text.split('\n') if 'strict key exchange' in l and '(nfo)' in l]
        if len(adv) != 1 or 'chacha20-poly1305@openssh.com' not in adv[0]:
            fail({'peer': 'flawless with marker and chacha20', 'options': kw}, {'advisory': adv, 'status': status}, 'one advisory note naming chacha20-poly1305@openssh.com', 'advisory-on-flawless-peer')
print(json.dumps({'cases': cases, 'failures': failures}))
'''


# ---------------------------------------------------------------------------------------------------- the rule itself
# post_process_findings' Terrapin section, against the contracts of its nested helpers: which algorithms receive the warning
# (recorded by the contract of _add_terrapin_warning), which are named in the advisory note, for arbitrary peers.
NOTE = ("Be aware that, while this target properly supports the strict key exchange method (via the kex-strict-?-v00@openssh.com marker) needed to protect against the "
        "Terrapin vulnerability (CVE-2023-48795), all peers must also support this feature as well, otherwise the vulnerability will still be present.  The following "
        "algorithms would allow an unpatched peer to create vulnerable SSH channels with this target: %s.  If any CBC ciphers are in this list, you may remove them while "
        "leaving the *-etm@openssh.com MACs in place; these MACs are fine while paired with non-CBC cipher types.")
ENC = "(g_cenc if client_audit else g_senc)"
MAC = "(g_cmac if client_audit else g_smac)"


def add_warning_recorder(ip, st):
    fr = st.frame
    cat, name = fr['category'], fr['algorithm_name']
    key = 'marked_' + cat
    cur = st.ghost[key]
    import ast as _ast
    st.ghost[key] = ops.binop(ip, st, _ast.Add(), cur, st.new_list([name], 'str'))
    return None


def setup_body(ip, st, fr, case):
    from contracts.c02_status import make_kex
    kex, g = make_kex(ip, st)
    fr['algs'] = st.new_obj('Algorithms', {'_Algorithms__ssh1kex': None, '_Algorithms__ssh2kex': kex})
    fr['client_audit'] = fresh('client_audit', 'bool')
    fr['banner'] = None
    fr['dh_rate_test_notes'] = fresh('rate_notes', 'str')
    for k in ('cenc', 'senc', 'cmac', 'smac', 'kex'):
        fr['g_' + k] = g[k]
    st.ghost['marked_enc'] = st.new_symlist(z3.Empty(z3.SeqSort(z3.StringSort())), 'str')
    st.ghost['marked_mac'] = st.new_symlist(z3.Empty(z3.SeqSort(z3.StringSort())), 'str')
    st.ghost['db'] = st.new_obj('<db>', {})
    return {}


def body_stubs():
    P = 'ssh_audit:post_process_findings.'
    S = [Contract(P + '_add_terrapin_warning', mode='contract', result=add_warning_recorder, modifies=[], ensures=[],
                  note='recorder: the (category, name) pairs passed are the algorithms that receive the warning; its effect on the table is proved in the unit of the same name'),
         Contract(P + '_get_chacha_ciphers_enabled', mode='contract', result='list[str]', modifies=[],
                  ensures=["result == filter_chacha(algs.ssh2kex.client.encryption if client_audit else algs.ssh2kex.server.encryption)"], note='proved (unit of the same name)'),
         Contract(P + '_get_cbc_ciphers_enabled', mode='contract', result='list[str]', modifies=[],
                  ensures=["result == filter_cbc(algs.ssh2kex.client.encryption if client_audit else algs.ssh2kex.server.encryption)"], note='proved (unit of the same name)'),
         Contract(P + '_get_etm_macs_enabled', mode='contract', result='list[str]', modifies=[],
                  ensures=["result == filter_etm(algs.ssh2kex.client.mac if client_audit else algs.ssh2kex.server.mac)"], note='proved (unit of the same name)')]
    for n in ('_get_chacha_ciphers_not_enabled', '_get_cbc_ciphers_not_enabled', '_get_etm_macs_not_enabled'):
        S.append(Contract(P + n, mode='contract', result='list[str]', modifies=[], ensures=[], note='suppression lists: covered by the bounded check only'))
    S.append(Contract('SSH2_KexDB.get_db', mode='contract', result=lambda ip, st: st.ghost['db'], modifies=[], ensures=[]))
    return S


def body_units():
    CH, CB, ET = "filter_chacha(%s)" % ENC, "filter_cbc(%s)" % ENC, "filter_etm(%s)" % MAC
    S = "kex_strict_marker"
    vul = "(len(%s) > 0 and len(%s) > 0)" % (CB, ET)
    strict = ("((client_audit and 'kex-strict-c-v00@openssh.com' in g_kex) or (not client_audit and 'kex-strict-s-v00@openssh.com' in g_kex))")
    noted = "(%s + (%s + %s if %s else []))" % (CH, CB, ET, vul)
    def both(ghost_or_var, strict_val, plain_val, S_=S):
        return ["implies(%s, %s == %s)" % (S_, ghost_or_var, strict_val), "implies(not %s, %s == %s)" % (S_, ghost_or_var, plain_val)]
    loops = {
        # (loop ordinals in source order inside the function body, nested helper definitions excluded)
        'chacha': dict(header='for chacha_cipher in _get_chacha_ciphers_enabled(algs)', invariant=both("ghost('marked_enc')", "[]", "%s[:_k]" % CH) + both("algs_to_note", "%s[:_k]" % CH, "[]"), ghost=['marked_enc'], types={'algs_to_note': 'list[str]'}),
        'cbc': dict(header='for cipher in cbc_ciphers_enabled', invariant=both("ghost('marked_enc')", "[]", "%s + cbc_ciphers_enabled[:_k]" % CH) + both("algs_to_note", "%s + cbc_ciphers_enabled[:_k]" % CH, "[]"),
                    ghost=['marked_enc'], types={'algs_to_note': 'list[str]'}),
        'etm': dict(header='for mac in etm_macs_enabled', invariant=both("ghost('marked_mac')", "[]", "etm_macs_enabled[:_k]") + both("algs_to_note", "%s + cbc_ciphers_enabled + etm_macs_enabled[:_k]" % CH, "[]"),
                    ghost=['marked_mac'], types={'algs_to_note': 'list[str]'}),
    }
    ens = []
    # exactly the algorithms of the published rule receive the warning, and only when the peer lacks its own strict-kex marker
    ens += both("ghost('marked_enc')", "[]", "%s + %s" % (CH, CB), "(%s) or not %s" % (strict, vul))[:1] + ["implies(not (%s) and %s, ghost('marked_enc') == %s + %s)" % (strict, vul, CH, CB),
                                                                                                   "implies(not (%s) and not %s, ghost('marked_enc') == %s)" % (strict, vul, CH)]
    ens[0] = "implies(%s, ghost('marked_enc') == [])" % strict
    ens += ["implies((%s) or not %s, ghost('marked_mac') == [])" % (strict, vul), "implies(not (%s) and %s, ghost('marked_mac') == %s)" % (strict, vul, ET)]
    # with the marker, the same algorithms are named in one advisory note instead (none when there is nothing to name); the rate-test note follows
    rate = "([dh_rate_test_notes] if len(dh_rate_test_notes) > 0 else [])"
    ens += ["implies(not (%s), result[1] == %s)" % (strict, rate),
            "implies((%s) and %s and len(%s + %s + %s) > 0, result[1] == [%r %% join(', ', %s + %s + %s)] + %s)" % (strict, vul, CH, CB, ET, NOTE, CH, CB, ET, rate),
            "implies((%s) and not %s and len(%s) > 0, result[1] == [%r %% join(', ', %s)] + %s)" % (strict, vul, CH, NOTE, CH, rate),
            "implies((%s) and not %s and len(%s) == 0, result[1] == %s)" % (strict, vul, CH, rate)]
    return ens, loops


def body_unit_list(ordinals):
    ens, loops = body_units()
    lp = {ordinals['chacha']: loops['chacha'], ordinals['cbc']: loops['cbc'], ordinals['etm']: loops['etm']}
    return [Unit(Contract('ssh_audit:post_process_findings', setup=setup_body, raises={}, loops=lp, ensures=ens), harness=None)]
