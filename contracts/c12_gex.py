"""Contracts for C12 (group-exchange modulus is measured and rated correctly): GEXTest.run against an arbitrary server.

The server is the contract of GEXTest._send_init: every call returns an unconstrained answer (m, reconnect_failed) with
m == -1 or m >= 1 and (reconnect_failed -> m == -1); the call and its answer are logged in ghost state.  GEXTest.run is
then verified for ALL answer sequences (no monotonicity assumed): what it records is the last answer, it stops the
ladder exactly when the next size would not be below a positive last answer, and the rating-table edits follow the
thresholds of the statement."""
import z3
from pyvc.contracts import Contract
from pyvc.driver import Unit
from pyvc.values import fresh, Sym
from pyvc.state import mk

SHA256 = 'diffie-hellman-group-exchange-sha256'
SHA1 = 'diffie-hellman-group-exchange-sha1'
LADDER = [512, 768, 1024, 1536, 2048, 3072, 4096]
FIXED = [(512, 1024, 1536)] + [(b, b, b) for b in LADDER]
FOLLOW = (2048, 3072, 4096)
WARN = '2048-bit modulus only provides 112-bits of symmetric strength'


def send_init_result(ip, st):
    fr = st.frame
    m = fresh('modulus', 'int')
    rf = fresh('reconnect_failed', 'bool')
    st.assume(z3.Or(m.t == -1, m.t >= 1))
    st.assume(z3.Implies(rf.t, m.t == -1))
    def app(key, v):
        st.ghost[key] = st.new_list(list(st.get(st.ghost[key]).items) + [v])
    app('probes', (fr['gex_alg'], fr['min_bits'], fr['pref_bits'], fr['max_bits']))
    app('resp', m)
    app('rf', rf)
    return (m, rf)


def m_set_dh(ip, st, recv, args, kwargs):
    st.ghost['recorded'] = st.new_list(list(st.get(st.ghost['recorded']).items) + [(args[0], args[1])])
    return None


def m_noop(ip, st, recv, args, kwargs):
    return None


def m_is_connected(ip, st, recv, args, kwargs):
    return fresh('connected', 'bool')


def m_get_db(ip, st, recv, args, kwargs):
    return st.ghost['db']


def setup_run(ip, st, fr, case):
    n = case['$n']
    algs = case['$algs']
    alg = case['$alg']
    inner = [st.new_symlist(fresh('e%d' % i, ('list', ('opt', 'str'))).t, ('opt', 'str')) for i in range(n)]
    entry = st.new_list(inner, ('list', ('opt', 'str')))
    other = st.new_list([st.new_symlist(fresh('o0', ('list', ('opt', 'str'))).t, ('opt', 'str'))], ('list', ('opt', 'str')))
    kexdb = {a: (entry if a == alg else other) for a in (SHA1, SHA256)}
    st.ghost['db'] = st.new_dict({'kex': st.new_dict(kexdb)})
    st.ghost['entry'] = entry
    for i in range(n):
        fr['g_old%d' % i] = Sym(st.get(inner[i]).sym, ('list', ('opt', 'str')))
    st.ghost['probes'] = st.new_list([])
    st.ghost['resp'] = st.new_list([])
    st.ghost['rf'] = st.new_list([])
    st.ghost['recorded'] = st.new_list([])
    fr['out'] = st.new_obj('<out>', {})
    fr['s'] = st.new_obj('<sock>', {})
    fr['kex'] = st.new_obj('<kex>', {'kex_algorithms': st.new_list(list(algs), 'str')})
    b = case['$banner']
    if b == 'none':
        fr['banner'] = None
    elif b == 'nosoft':
        fr['banner'] = st.new_obj('<banner>', {'software': None})
    else:
        fr['banner'] = st.new_obj('<banner>', {'software': 'OpenSSH' if b == 'openssh' else 'dropbear'})
    fr['g_openssh'] = (b == 'openssh')
    fr['g_alg'] = alg
    fr['g_n'] = n
    for name in ('d', 'v', 'fail', 'warn', 'info'):
        ip.method_models[('<out>', name)] = m_noop
    ip.method_models[('<sock>', 'is_connected')] = m_is_connected
    ip.method_models[('<sock>', 'close')] = m_noop
    ip.method_models[('<kex>', 'set_dh_modulus_size')] = m_set_dh
    return {}


def stubs():
    return [Contract('GEXTest._send_init', mode='contract', result=send_init_result, modifies=[], ensures=[],
                     note='the server: any answer m (== -1 or >= 1) and reconnect flag (-> m == -1) per probe; KexGroupExchange.send_init_gex / '
                          'recv_reply / get_dh_modulus_size behind it are covered by the bounded fake-server check'),
            Contract('SSH2_KexDB.get_db', mode='contract', result=lambda ip, st: st.ghost['db'], modifies=[], ensures=[],
                     note='the per-thread rating table: an arbitrary entry of 1..4 note lists for the probed algorithm'),
            Contract('KexGroupExchange_SHA1.__init__', mode='contract', result=lambda ip, st: None, modifies=[], ensures=[]),
            Contract('KexGroupExchange_SHA256.__init__', mode='contract', result=lambda ip, st: None, modifies=[], ensures=[])]


def run_units():
    import re
    U = []
    names = {'P': "ghost('probes')", 'R': "ghost('resp')", 'RF': "ghost('rf')", 'REC': "ghost('recorded')", 'E': "ghost('entry')",
             'FIXED': repr(FIXED), 'FOLLOW': repr(FOLLOW), 'WARN': repr(WARN)}

    def X(e):
        return re.sub(r'\b(P|R|RF|REC|E|FIXED|FOLLOW|WARN)\b', lambda m: names[m.group(1)], e)
    for alg in (SHA256, SHA1):
        for n in (1, 2, 3, 4):
            for banner in ('openssh', 'other', 'none', 'nosoft'):
                if banner in ('none', 'nosoft') and n != 3:
                    continue
                ens = [
                    # --- the probes stay inside the fixed sequence (+ the follow-up), all for this algorithm
                    "all(p[0] == g_alg for p in P)",
                    "len(P) >= 1 and len(P) <= 9 and ([p[1:] for p in P][:-1] == FIXED[:len(P) - 1] if (len(P) >= 2 and P[-1][1:] == FOLLOW) else [p[1:] for p in P] == FIXED[:len(P)])",
                    # --- follow-up probe exactly for an OpenSSH server whose first pass ended at 2048
                    "(g_openssh and R[-2] == 2048) if (len(P) >= 2 and P[-1][1:] == FOLLOW) else True",
                    "(R[-1] != 2048) if (g_openssh and len(P) >= 2 and P[-1][1:] != FOLLOW) else True",
                    # --- the ladder goes on exactly while the next size is below a positive last answer / nothing was answered
                    "all(implies(R[i] > 0, P[i + 1][1] < R[i]) for i in range(0, len(P) - 1) if P[i + 1][1:] != FOLLOW)",
                    "(RF[0] or (R[-1] > 0 and FIXED[len(P)][0] >= R[-1])) if (P[-1][1:] != FOLLOW and len(P) < 8) else True",
                    "(R[-2] > 0 and 2048 >= R[-2]) if (len(P) >= 2 and P[-1][1:] == FOLLOW and len(P) < 9) else True",
                    # --- what is recorded: the last answer, when positive; nothing otherwise
                    "implies(R[-1] > 0, REC == [(g_alg, R[-1])])",
                    "implies(R[-1] <= 0, REC == [])",
                ]
                # --- the rating-table edits
                ens += [
                    "implies(R[-1] <= 0, len(E) == g_n)",
                    "implies(R[-1] > 0 and R[-1] < 2048, E[1] == ['using small %d-bit modulus' % R[-1]] if len(E) >= 2 else False)",
                    "implies(R[-1] >= 2048 and R[-1] < 3072, (WARN in E[2]) if len(E) >= 3 else False)",
                ]
                if n >= 3:
                    ens.append("implies(R[-1] <= 0 or R[-1] >= 3072, E[2] == g_old2)")
                    ens.append("implies(R[-1] >= 2048 and R[-1] < 3072, E[2] == (g_old2 if WARN in g_old2 else g_old2 + [WARN]))")
                else:
                    ens.append("implies(R[-1] >= 2048 and R[-1] < 3072, (E[2] == [WARN]) if len(E) >= 3 else False)")
                if n >= 2:
                    ens.append("implies(R[-1] <= 0 or R[-1] >= 2048, E[1] == g_old1)")
                U.append(Unit(Contract('GEXTest.run', setup=setup_run, raises={},
                                       cases=[{'$n': n, '$alg': alg, '$algs': ['curve25519-sha256', alg], '$banner': banner}], ensures=[X(e) for e in ens]),
                              harness=None))
    # a server without group exchange is not probed at all
    U.append(Unit(Contract('GEXTest.run', setup=setup_run, raises={},
                           cases=[{'$n': 3, '$alg': SHA256, '$algs': ['curve25519-sha256', 'diffie-hellman-group14-sha256'], '$banner': 'openssh'}],
                           ensures=[X("P == [] and REC == [] and len(E) == g_n")]), harness=None))
    return U


# ---------------------------------------------------------------------------------------------------- _send_init
# justifies the contract assumed above for GEXTest._send_init, and gives C19 its per-probe footprint: one reconnect, at
# most one group-exchange request (sent on an open connection), socket closed on every exit, no exception escapes.
def _raise(name):
    from pyvc.interp import Raise
    from pyvc.values import ExcVal
    raise Raise(ExcVal(name, ()))


def m_reconnect(ip, st):
    st.ghost['reconnects'] = st.ghost['reconnects'] + 1
    if ip.choose(st, 2) == 1:
        st.ghost['connected'] = fresh('conn_after_failed_reconnect', 'bool')
        return False
    st.ghost['connected'] = True
    return True


def m_send_init_gex(ip, st, recv, args, kwargs):
    st.ghost['dh'] = st.ghost['dh'] + 1
    st.ghost['dh_on_open'] = st.ghost['dh_on_open'] and (st.ghost['connected'] is True)
    st.ghost['asked'] = (args[1], args[2], args[3])
    if ip.choose(st, 2) == 1:
        _raise('KexDHException')
    return None


def m_recv_reply2(ip, st, recv, args, kwargs):
    if ip.choose(st, 2) == 1:
        _raise('KexDHException')
    return fresh('reply', ('opt', 'bytes'))


def m_get_size(ip, st, recv, args, kwargs):
    return st.ghost['m']


def m_close2(ip, st, recv, args, kwargs):
    st.ghost['connected'] = False
    return None


def setup_send_init(ip, st, fr, case):
    m = fresh('m', 'int')
    st.assume(m.t >= 1)                 # len(bin(p)) - 2 of an integer p >= 0 (get_dh_modulus_size)
    st.ghost.update({'reconnects': 0, 'dh': 0, 'dh_on_open': True, 'connected': fresh('connected0', 'bool'), 'm': m, 'asked': None})
    fr['out'] = st.new_obj('<out>', {})
    fr['s'] = st.new_obj('<sock>', {})
    fr['kex_group'] = st.new_obj('<kexgroup>', {})
    fr['kex'] = st.new_obj('<kex>', {})
    fr['gex_alg'] = SHA256
    for k in ('min_bits', 'pref_bits', 'max_bits'):
        fr[k] = fresh(k, 'int')
        st.assume(fr[k].t >= 0)
    fr['g_m'] = m
    mm = ip.method_models
    for name in ('d', 'v', 'fail', 'warn', 'info'):
        mm[('<out>', name)] = m_noop
    mm[('<sock>', 'close')] = m_close2
    mm[('<kexgroup>', 'send_init_gex')] = m_send_init_gex
    mm[('<kexgroup>', 'recv_reply')] = m_recv_reply2
    mm[('<kexgroup>', 'get_dh_modulus_size')] = m_get_size
    return {}


def send_init_stubs():
    return [Contract('GEXTest.reconnect', mode='contract', result=m_reconnect, modifies=[], ensures=[],
                     note='returns True with an open connection, or False; proved separately to open at most one connection')]


def send_init_units():
    return [Unit(Contract('GEXTest._send_init', setup=setup_send_init, raises={},
                          ensures=["result[0] == -1 or (result[0] == g_m and result[0] >= 1)",
                                   "implies(result[1], result[0] == -1)",
                                   "ghost('reconnects') == 1 and ghost('dh') <= 1 and ghost('dh_on_open')",
                                   "implies(ghost('dh') == 1, ghost('asked') == (min_bits, pref_bits, max_bits))",
                                   "ghost('connected') == False"]), harness=None)]


# ---------------------------------------------------------------------------------------------------- reconnect
def setup_reconnect(ip, st, fr, case):
    from contracts import c11_hostkey as H
    st.ghost.update({'connected': fresh('connected0', 'bool'), 'connects': 0})
    fr['g_conn0'] = st.ghost['connected']
    fr['out'] = st.new_obj('<out>', {})
    fr['s'] = st.new_obj('<sock>', {})
    party = st.new_obj('<party>', {'encryption': None, 'mac': None, 'compression': None, 'languages': None})
    fr['kex'] = st.new_obj('<kex>', {'key_algorithms': st.new_list(['ssh-ed25519'], 'str'), 'server': party})
    fr['gex_alg'] = SHA256
    mm = ip.method_models
    for name in ('d', 'v', 'fail', 'warn', 'info'):
        mm[('<out>', name)] = m_noop
    mm[('<sock>', 'is_connected')] = H.m_is_connected
    mm[('<sock>', 'close')] = H.m_close
    mm[('<sock>', 'connect')] = H.m_connect
    mm[('<sock>', 'get_banner')] = H.m_get_banner
    mm[('<sock>', 'send_kexinit')] = m_noop
    mm[('<sock>', 'read_packet')] = H.m_read_packet
    return {}


def reconnect_stubs():
    return [Contract('SSH2_Kex.parse', mode='contract', result=lambda ip, st: None, modifies=[], ensures=[], raises={}, may_raise={'struct.error': 'True'},
                     note='only struct.error can escape SSH2_Kex.parse: proved in C10 (unit SSH2_Kex.parse, raises == {} with may_raise struct.error)'),
            Contract('traceback:format_exc', mode='contract', result='str', modifies=[], ensures=[])]


def reconnect_units():
    return [Unit(Contract('GEXTest.reconnect', setup=setup_reconnect, raises={},
                          ensures=["ghost('connects') <= 1",
                                   "implies(g_conn0, ghost('connects') == 0 and result == True)",
                                   "implies(result == True, ghost('connected') == True)"]), harness=None)]
