"""Contracts for C16 (identification strings are recognised, decomposed and sanitised correctly)."""
import z3
from pyvc.contracts import Contract
from pyvc.driver import Unit
from pyvc.values import fresh

IMPORTS = "from ssh_audit.utils import Utils\n"


IS_LOOP = {1: dict(header='for c in v', invariant=["all_printable(v[:_k])", "r == False"], types={'c': 'str', 'i': 'int'}, use_head=["all_printable_at(v, _k)"])}


def to_loop(spec):
    return {1: dict(header='for c in v', invariant=["latin(r.val) == %s(v[:_k])" % spec, "in_ascii(r.val)"], types={'c': 'str', 'i': 'int'}, modifies=['r'])}


def units():
    U = []
    U.append(Unit(Contract('Utils.is_print_ascii', params=dict(v='str'), raises={},
                           ensures=["result == all_printable(v)"], callee_loops={'Utils._is_ascii': IS_LOOP}),
                  harness=dict(imports=IMPORTS, call="Utils.is_print_ascii(v)")))
    for errors, spec in (('replace', 'sanitize'), ('ignore', 'drop_unprintable')):
        U.append(Unit(Contract('Utils.to_print_ascii', params=dict(v='str'), cases=[{'errors': errors}], raises={},
                               ensures=["result == %s(v)" % spec] + (["len(result) == len(v)"] if errors == 'replace' else []),
                               use=(["sanitize_len(v)"] if errors == 'replace' else []),
                               callee_loops={'Utils._to_ascii': to_loop(spec)}),
                      harness=dict(imports=IMPORTS, call="Utils.to_print_ascii(v, %r)" % errors)))
    return U


def grammar():
    """the identification-string grammar of the property statement / RFC 4253 section 4.2, over printable ASCII:
    SSH-<major>.<minor>-<software>[ <comments>]"""
    dig = z3.Range(z3.StringVal('0'), z3.StringVal('9'))
    soft = z3.Plus(z3.Range(z3.StringVal('!'), z3.StringVal('~')))                      # printable, no space
    comments = z3.Concat(z3.Plus(z3.Re(z3.StringVal(' '))), z3.Star(z3.Range(z3.StringVal(' '), z3.StringVal('~'))))
    return z3.Concat(z3.Re(z3.StringVal('SSH-')), dig, z3.Re(z3.StringVal('.')), z3.Loop(dig, 1, 2), z3.Re(z3.StringVal('-')),
                     soft, z3.Option(comments))


NATIVE = r'''
import socket, json, sys, itertools, random
sys.path.insert(0, %(native)r)
import fakenet as F
from ssh_audit.banner import Banner
from ssh_audit.software import Software
from ssh_audit.ssh_socket import SSH_Socket
from ssh_audit.outputbuffer import OutputBuffer
cases, failures = 0, []
per = {}
def fail(inp, got, want, cls):
    per[cls] = per.get(cls, 0) + 1
    if per[cls] <= 3:
        failures.append({'input': dict(inp, **{'class': cls}), 'got': got, 'want': want})
protos = [('1', '5'), ('1', '99'), ('2', '0'), ('2', '1')]
softs = ['OpenSSH_8.9p1', 'dropbear_2022.83', 'libssh-0.9.6', 'x', '!~weird-tok_en', 'a-b.c', 'PuTTY_Release_0.78', '1']
comms = [None, 'Ubuntu-3ubuntu0.1', 'FreeBSD-20200214', 'two  spaces   here', 'a b c', '~!@#$%%^&*()']
for (ma, mi), sw, cm in itertools.product(protos, softs, comms):
    for sep in (' ', '  '):
        cases += 1
        line = 'SSH-%%s.%%s-%%s' %% (ma, mi, sw) + ('' if cm is None else sep + cm)
        b = Banner.parse(line)
        inp = {'line': line}
        if b is None:
            fail(inp, None, 'accepted as a banner', 'rejected'); continue
        want_c = None if cm is None else ' '.join(cm.split())
        if b.protocol != (int(ma), int(mi)) or b.software != sw or b.comments != want_c or not b.valid_ascii:
            fail(inp, {'protocol': b.protocol, 'software': b.software, 'comments': b.comments, 'valid_ascii': b.valid_ascii}, {'protocol': (int(ma), int(mi)), 'software': sw, 'comments': want_c}, 'parts')
        b2 = Banner.parse(str(b))
        if b2 is None or (b2.protocol, b2.software, b2.comments) != (b.protocol, b.software, b.comments):
            fail(inp, str(b), 'rendering and parsing again gives the same parts', 'roundtrip')
# characters outside printable ASCII: replaced in what is shown, banner flagged
for bad in ('\x7f', '\x01', 'é', '\t', '€'):
    cases += 1
    line = 'SSH-2.0-Open%%sSSH_8.9 com%%sment' %% (bad, bad)
    b = Banner.parse(line)
    if b is None or b.valid_ascii or bad in str(b) or b.software != 'Open?SSH_8.9':
        fail({'line': repr(line)}, None if b is None else {'shown': str(b), 'valid_ascii': b.valid_ascii}, 'replaced by ? and flagged', 'sanitise')
# header / banner separation through the real socket reader, with every segmentation of the byte stream tried at small sizes
pre = [[], [b'Welcome to host'], [b'line one', b'', b'SSH is great', b'   '],
       # lines that merely mention an identification-like token are header lines, not the peer's identification string
       [b'Notice: only SSH-2.0-compatible clients are supported'], [b'this gateway predates SSH-2.0', b'  SSH-1.99-indented is not one either']]
for hdr in pre:
    for eol in (b'\r\n', b'\n'):
        for seg in (None, 1, 7):
          for after in ('close', 'wait'):
            # after its identification string a real server waits for ours ('wait': the next read times out); 'close': it hangs up
            cases += 1
            stream = b''.join(l + eol for l in hdr) + b'SSH-2.0-OpenSSH_9.9 comment here' + eol
            chunks = [stream] if seg is None else [stream[i:i + seg] for i in range(0, len(stream), seg)]
            if after == 'wait':
                chunks = chunks + [socket.timeout('timed out')] * 3
            peer = F.Peer('healthy')
            peer.script = lambda n, chunks=chunks: list(chunks)
            with F.FakeNet({'h.test': peer}):
                s = SSH_Socket(OutputBuffer(), 'h.test', 22)
                err = s.connect()
                banner, header, e = s.get_banner()
            want_h = [l.decode() for l in hdr if l.strip()]
            if banner is None or str(banner) != 'SSH-2.0-OpenSSH_9.9 comment here' or header != want_h:
                fail({'header lines': [l.decode() for l in hdr], 'eol': repr(eol), 'segment': seg, 'then': after}, {'banner': str(banner), 'header': header}, {'banner': 'SSH-2.0-OpenSSH_9.9 comment here', 'header': want_h}, 'header' if seg is None else 'header-segmented')
# control / non-ASCII bytes at the END of the identification line (before the line ending) are shown as '?' and flagged, like anywhere else
for tail in (b'\x1c', b'\x1f', b'\x7f', b'\xc2\x85', b'\xc2\xa0', b'\xe2\x80\xa8', b'\x00'):      # (ASCII white space such as TAB, VT, FF at the end of the line is trimmed with the line ending: not in this family)
    for eol in (b'\r\n', b'\n'):
        cases += 1
        stream = b'hello\r\nSSH-2.0-OpenSSH_9.9 tail' + tail + eol
        peer = F.Peer('healthy')
        peer.script = lambda n, stream=stream: [stream, socket.timeout('timed out')]
        with F.FakeNet({'h.test': peer}):
            s = SSH_Socket(OutputBuffer(), 'h.test', 22)
            s.connect()
            banner, header, e = s.get_banner()
        if banner is None or banner.valid_ascii or not str(banner).startswith('SSH-2.0-OpenSSH_9.9 tail?'):
            fail({'line ends with': repr(tail), 'eol': repr(eol)}, None if banner is None else {'shown': str(banner), 'valid_ascii': banner.valid_ascii}, "shown with '?' for each such byte and flagged as non-printable", 'trailing-control-bytes')
# the header lines sent before the identification string appear in the report of a complete standard audit
for hdr in ([b'Welcome to host'], [b'line one', b'line two']):
    cases += 1
    sv = F.Server(['curve25519-sha256', 'diffie-hellman-group-exchange-sha256'], ['ssh-ed25519'], ['aes128-ctr'], ['hmac-sha2-256'], hostkeys={'ssh-ed25519': F.ed25519_blob()}, moduli=[3072],
                  banner=b''.join(l + b'\r\n' for l in hdr) + b'SSH-2.0-OpenSSH_9.9\r\n')
    st, out = F.run_main(['-n', '--skip-rate-test', 'h.test'], F.FakeNet({'h.test': sv}))
    got = [l for l in out.split('\n') if l.startswith('(gen) header:')]
    want = '(gen) header: ' + hdr[0].decode()
    if not got or got[0] != want or any(l.decode() not in out for l in hdr):
        fail({'header lines': [l.decode() for l in hdr]}, got[:2], want, 'header-in-report')
# product families
fam = [('OpenSSH_%%s', 'OpenSSH', None), ('OpenSSH-%%s', 'OpenSSH', None), ('dropbear_%%s', 'Dropbear SSH', None), ('libssh-%%s', 'libssh', None), ('libssh_%%s', 'libssh', None),
       ('tinyssh_%%s', 'TinySSH', None), ('PuTTY_Release_%%s', 'PuTTY', None), ('RomSShell_%%s', 'RomSShell', 'Allegro Software'), ('mpSSH_%%s', 'iLO (Integrated Lights-Out) sshd', 'HP'),
       ('Cisco-%%s', 'IOS/PIX sshd', 'Cisco'), ('lancom%%s', 'LCOS sshd', 'LANcom')]
_r = random.Random(1616)
vers = ['7.4', '10.0', '0.10.6', '2022.83', '9.9p1', '1.25', '5.40'] + ['%%d.%%d' %% (_r.randrange(0, 30), _r.randrange(0, 120)) for _ in range(6)] + ['%%d.%%d.%%d' %% (_r.randrange(0, 12), _r.randrange(0, 30), _r.randrange(0, 9)) for _ in range(4)]
for tmpl, prod, vendor in fam:
    for ver in vers:
        if 'p' in ver and prod != 'OpenSSH':
            continue
        cases += 1
        b = Banner.parse('SSH-2.0-' + tmpl %% ver)
        s = Software.parse(b)
        wantv = ver.split('p')[0]
        if s is None or s.product != prod or s.version != wantv or (ver.endswith('p1') and s.patch != 'p1') or s.vendor != vendor:
            fail({'software': tmpl %% ver}, None if s is None else {'vendor': s.vendor, 'product': s.product, 'version': s.version, 'patch': s.patch}, {'vendor': vendor, 'product': prod, 'version': wantv}, 'product')
            continue
        # what the report shows for it: '<vendor> <product> <version>' (display form)
        shown = s.display()
        if prod not in shown or wantv not in shown or (vendor and vendor not in shown):
            fail({'software': tmpl %% ver}, shown, 'vendor, product and version in the displayed software line', 'product-display')
# a software string of no known family is not given a product
for sw in ('FooSSH_1.0', 'openssh_9.9', 'XOpenSSH_9.9', 'Dropbear', 'libssh', 'mpSSH', 'Cisco'):
    cases += 1
    s = Software.parse(Banner.parse('SSH-2.0-' + sw))
    if s is not None:
        fail({'software': sw}, {'product': s.product, 'version': s.version}, None, 'product-unknown')
print(json.dumps({'cases': cases, 'failures': failures}))
'''
