"""Contracts for C15 (output options change presentation only)."""
import z3
from pyvc.contracts import Contract
from pyvc.driver import Unit
from pyvc.values import fresh

RANK = {'info': 0, 'good': 0, 'warn': 1, 'fail': 2, 'head': 2 ** 63 - 1}


def setup_print(ip, st, fr, case):
    lvl = fresh('minlevel', 'int')
    st.assume(z3.And(lvl.t >= 0, lvl.t <= 2))
    buf = st.new_symlist(fresh('buffer', ('list', 'str')).t, 'str')
    sec = st.new_symlist(fresh('section', ('list', 'str')).t, 'str')
    fr['self'] = st.new_obj('OutputBuffer', {'buffer_output': True, 'buffer': buf, 'in_section': fresh('in_section', 'bool'), 'section': sec,
                                             'batch': fresh('batch', 'bool'), 'verbose': fresh('verbose', 'bool'), 'debug': False,
                                             'use_colors': fresh('use_colors', 'bool'), 'json': False, '_OutputBuffer__level': lvl,
                                             '_OutputBuffer__is_color_supported': fresh('color_supported', 'bool'), 'line_ended': True})
    fr['level'] = case['$level']
    fr['s'] = fresh('s', 'str')
    fr['line_ended'] = True
    fr['always_print'] = fresh('always_print', 'bool')
    fr['g_lvl'] = lvl
    fr['g_rank'] = RANK[case['$level']]
    return {}


def units():
    U = []
    for level in ('info', 'good', 'warn', 'fail', 'head'):
        U.append(Unit(Contract(
            'OutputBuffer._print', setup=setup_print, cases=[{'$level': level}], raises={},
            let={'B': 'self.buffer', 'S': 'self.section', 'INSEC': 'self.in_section'},
            ensures=[
                # a line below the minimum level is dropped, and nothing else happens
                "implies(not always_print and g_rank < g_lvl, self.buffer == B and self.section == S)",
                # otherwise exactly one line is appended to the active buffer; the text is s, or s wrapped in one colour escape
                "implies(always_print or g_rank >= g_lvl, (len(self.section) == len(S) + 1 and self.buffer == B and self.section[:len(S)] == S) if INSEC else (len(self.buffer) == len(B) + 1 and self.section == S and self.buffer[:len(B)] == B))",
                "implies(always_print or g_rank >= g_lvl, s in (self.section[len(S)] if INSEC else self.buffer[len(B)]))",
            ]), harness=None))
    return U
