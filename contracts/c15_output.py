"""Contracts for C15 (output options change presentation only)."""
import z3
from pyvc.contracts import Contract
from pyvc.driver import Unit
from pyvc.values import fresh

RANK = {'info': 0, 'good': 0, 'warn': 1, 'fail': 2, 'head': 2 ** 63 - 1}


def setup_print(ip, st, fr, case):
    lvl = fresh('minlevel', 'int')
    st.assume(z3.And(lvl.t >= 0, lvl.t <= 2))
    buf = st.new_symlist(fresh('buffer', ('list', 'str')).t, 'str')
    sec = st.new_symlist(fresh('section', ('list', 'str')).t, 'str')
    fr['self'] = st.new_obj('OutputBuffer', {'buffer_output': True, 'buffer': buf, 'in_section': fresh('in_section', 'bool'), 'section': sec,
                                             'batch': fresh('batch', 'bool'), 'verbose': fresh('verbose', 'bool'), 'debug': fresh('debug', 'bool') if case.get('$sym_debug') else False,
                                             'use_colors': fresh('use_colors', 'bool'), 'json': False, '_OutputBuffer__level': lvl,
                                             '_OutputBuffer__is_color_supported': fresh('color_supported', 'bool'), 'line_ended': True})
    fr['level'] = case['$level']
    fr['s'] = fresh('s', 'str')
    fr['line_ended'] = True
    fr['always_print'] = fresh('always_print', 'bool')
    fr['g_lvl'] = lvl
    fr['g_rank'] = RANK[case['$level']]
    return {}


def setup_wrapper(ip, st, fr, case):
    """the public wrappers (head/good/warn/fail/info/sep/v/d): same receiver as setup_print, with the debug flag symbolic as well"""
    setup_print(ip, st, fr, dict(case, **{'$sym_debug': True}))
    del fr['level']
    if case.get('$no_s'):
        del fr['s']
    if case.get('$no_always'):
        del fr['always_print']
        fr['g_always'] = False
    else:
        fr['g_always'] = fr['always_print']
    if case.get('$write_now') is not None:
        fr['write_now'] = case['$write_now']
    return {}


def setup_flush(ip, st, fr, case):
    setup_print(ip, st, fr, case)
    for k in ('level', 's', 'line_ended', 'always_print'):
        del fr[k]
    fr['sort_section'] = False
    return {}


# exactly one line carrying s goes to the active buffer, the other buffer is untouched
ONE_LINE = ("((len(self.section) == len(S) + 1 and self.buffer == B and self.section[:len(S)] == S and s in self.section[len(S)]) if INSEC else "
            "(len(self.buffer) == len(B) + 1 and self.section == S and self.buffer[:len(B)] == B and s in self.buffer[len(B)]))")
NOTHING = "(self.buffer == B and self.section == S)"
LET = {'B': 'self.buffer', 'S': 'self.section', 'INSEC': 'self.in_section', 'BATCH': 'self.batch', 'VERBOSE': 'self.verbose', 'DEBUG': 'self.debug'}


def units():
    U = []
    for level in ('info', 'good', 'warn', 'fail', 'head'):
        U.append(Unit(Contract(
            'OutputBuffer._print', setup=setup_print, cases=[{'$level': level}], raises={},
            let={'B': 'self.buffer', 'S': 'self.section', 'INSEC': 'self.in_section', 'UC': 'self.use_colors', 'CS': 'self._OutputBuffer__is_color_supported'},
            ensures=[
                # a line below the minimum level is dropped, and nothing else happens
                "implies(not always_print and g_rank < g_lvl, self.buffer == B and self.section == S)",
                # otherwise exactly one line is appended to the active buffer; the text is s, or s wrapped in one colour escape
                "implies(always_print or g_rank >= g_lvl, (len(self.section) == len(S) + 1 and self.buffer == B and self.section[:len(S)] == S) if INSEC else (len(self.buffer) == len(B) + 1 and self.section == S and self.buffer[:len(B)] == B))",
                "implies(always_print or g_rank >= g_lvl, s in (self.section[len(S)] if INSEC else self.buffer[len(B)]))",
                # with colours off (or unsupported, or an 'info' line, or empty text) the line is the text itself: colour is the only decoration
                "implies((always_print or g_rank >= g_lvl) and (not UC or not CS or level == 'info' or len(s) == 0), (self.section[len(S)] if INSEC else self.buffer[len(B)]) == s)",
            ]), harness=None))
    # the level ranks themselves: 'good' ranks as 'info', an unknown name (a heading) ranks above every minimum level
    for name, rank in sorted(RANK.items()):
        U.append(Unit(Contract('OutputBuffer.get_level', setup=lambda ip, st, fr, case: (setup_print(ip, st, fr, case), [fr.pop(k) for k in ('level', 's', 'line_ended', 'always_print')], fr.__setitem__('name', case['$name']), {})[-1],
                               cases=[{'$level': name, '$name': name}], raises={},
                               ensures=["result == g_rank" if name != 'head' else "result > 2"]), harness=None))
    # public wrappers: the level each one prints at, and which option may remove (batch) or add (verbose/debug) its line
    for level in ('good', 'warn', 'fail', 'info'):
        U.append(Unit(Contract(
            'OutputBuffer.' + level, setup=setup_wrapper, cases=[{'$level': level, '$write_now': False} if level == 'fail' else {'$level': level}], raises={}, let=LET,
            ensures=["result is self",
                     "implies(not g_always and g_rank < g_lvl, %s)" % NOTHING,
                     "implies(g_always or g_rank >= g_lvl, %s)" % ONE_LINE]), harness=None))
    U.append(Unit(Contract(
        'OutputBuffer.head', setup=setup_wrapper, cases=[{'$level': 'head', '$no_always': True}], raises={}, let=LET,
        ensures=["result is self",
                 # batch mode removes headings and nothing else; otherwise a heading passes every minimum level
                 "implies(BATCH, %s)" % NOTHING,
                 "implies(not BATCH, %s)" % ONE_LINE]), harness=None))
    U.append(Unit(Contract(
        'OutputBuffer.sep', setup=setup_wrapper, cases=[{'$level': 'info', '$no_always': True, '$no_s': True}], raises={}, let=LET,
        ensures=["result is self",
                 "implies(BATCH or g_rank < g_lvl, %s)" % NOTHING,
                 "implies(not BATCH and g_rank >= g_lvl, (len(self.section) == len(S) + 1 and self.buffer == B and self.section[:len(S)] == S and self.section[len(S)] == '') if INSEC else "
                 "(len(self.buffer) == len(B) + 1 and self.section == S and self.buffer[:len(B)] == B and self.buffer[len(B)] == ''))"]), harness=None))
    for meth, on in (('v', 'VERBOSE or DEBUG'), ('d', 'DEBUG')):
        U.append(Unit(Contract(
            'OutputBuffer.' + meth, setup=setup_wrapper, cases=[{'$level': 'info', '$no_always': True, '$write_now': False}], raises={}, let=LET,
            ensures=["result is self",
                     # verbose/debug messages are extra 'info' lines: absent unless the option is on, and then subject to the level filter
                     "implies(not (%s) or g_rank < g_lvl, %s)" % (on, NOTHING),
                     "implies((%s) and g_rank >= g_lvl, %s)" % (on, ONE_LINE)]), harness=None))
    # closing a section moves its lines, in order, behind the lines already in the buffer
    U.append(Unit(Contract(
        'OutputBuffer.flush_section', setup=setup_flush, cases=[{'$level': 'info'}], raises={}, let=LET,
        ensures=["self.buffer == B + S", "len(self.section) == 0"]), harness=None))
    # handing the report over: pending section lines first, every line once, in order, and both buffers left empty
    U.append(Unit(Contract(
        'OutputBuffer.get_buffer', setup=lambda ip, st, fr, case: (setup_flush(ip, st, fr, case), fr.pop('sort_section'), {})[-1], cases=[{'$level': 'info'}], raises={}, let=LET,
        ensures=["result == '\\n'.join(B + S)", "len(self.buffer) == 0", "len(self.section) == 0"]), harness=None))
    return U
