"""Contracts for C01: SSH-1 mask decoding."""
from pyvc.contracts import Contract
from pyvc.driver import Unit
from pyvc.values import fresh

CIPHERS = ['none', 'idea', 'des', '3des', 'tss', 'rc4', 'blowfish']
AUTHS = ['none', 'rhosts', 'rsa', 'password', 'rhosts_rsa', 'tis', 'kerberos']


def setup_pkm(ip, st, fr, case):
    cm, am = fresh('cmask', 'int'), fresh('amask', 'int')
    st.assume(cm.t >= 0)
    st.assume(am.t >= 0)
    fr['self'] = st.new_obj('SSH1_PublicKeyMessage', {'_SSH1_PublicKeyMessage__supported_ciphers_mask': cm,
                                                      '_SSH1_PublicKeyMessage__supported_authentications_mask': am})
    fr['g_cm'], fr['g_am'] = cm, am
    return {'g_cm': cm, 'g_am': am}


def bits_spec(var, names, lo):
    # SSH-1.5: bit i of the mask set <=> names[i] supported (authentication bit 0 has no meaning)
    return ' + '.join("([%r] if %s // %d %% 2 == 1 else [])" % (names[i], var, 2 ** i) for i in range(lo, len(names)))


def units():
    U = []
    U.append(Unit(Contract('SSH1_PublicKeyMessage.supported_ciphers', setup=setup_pkm, raises={},
                           ensures=["result == " + bits_spec('g_cm', CIPHERS, 0)]),
                  harness=dict(imports="from ssh_audit.ssh1_publickeymessage import SSH1_PublicKeyMessage", setup="m = SSH1_PublicKeyMessage(b'12345678', (1, 1, 1), (1, 1, 1), 0, g_cm, g_am)", call="m.supported_ciphers")))
    U.append(Unit(Contract('SSH1_PublicKeyMessage.supported_authentications', setup=setup_pkm, raises={},
                           ensures=["result == " + bits_spec('g_am', AUTHS, 1)]),
                  harness=dict(imports="from ssh_audit.ssh1_publickeymessage import SSH1_PublicKeyMessage", setup="m = SSH1_PublicKeyMessage(b'12345678', (1, 1, 1), (1, 1, 1), 0, g_cm, g_am)", call="m.supported_authentications")))
    return U


def parse_units():
    """SSH1_PublicKeyMessage.parse: the fields of the object are the fields of the wire message, in SSH-1.5 order (cookie[8], server key
    (bits, mpint e, mpint n), host key (bits, mpint e, mpint n), flags, cipher mask, authentication mask); only struct.error can escape"""
    let = {
        'B1': '(val_be(payload[12:14]) + 7) // 8', 'A2': '14 + len(payload[14:14 + B1])',
        'B2': '(val_be(payload[A2:A2 + 2]) + 7) // 8', 'A3': 'A2 + 2 + len(payload[A2 + 2:A2 + 2 + B2])',
        'A4': 'A3 + 4',
        'B4': '(val_be(payload[A4:A4 + 2]) + 7) // 8', 'A5': 'A4 + 2 + len(payload[A4 + 2:A4 + 2 + B4])',
        'B5': '(val_be(payload[A5:A5 + 2]) + 7) // 8', 'A6': 'A5 + 2 + len(payload[A5 + 2:A5 + 2 + B5])',
    }
    ens = ["result.cookie == payload[0:8]",
           "result.server_key_bits == val_be(payload[8:12])",
           "result.server_key_public_exponent == val_be(payload[14:14 + B1])",
           "result.server_key_public_modulus == val_be(payload[A2 + 2:A2 + 2 + B2])",
           "result.host_key_bits == val_be(payload[A3:A3 + 4])",
           "result.host_key_public_exponent == val_be(payload[A4 + 2:A4 + 2 + B4])",
           "result.host_key_public_modulus == val_be(payload[A5 + 2:A5 + 2 + B5])",
           "result.protocol_flags == val_be(payload[A6:A6 + 4])",
           "result.supported_ciphers_mask == val_be(payload[A6 + 4:A6 + 8])",
           "result.supported_authentications_mask == val_be(payload[A6 + 8:A6 + 12])"]
    return [Unit(Contract('SSH1_PublicKeyMessage.parse', params=dict(payload='bytes'), raises={}, may_raise={'struct.error': 'True'}, let=let, ensures=ens),
                 harness=None)]
