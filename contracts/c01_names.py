"""Contracts for C01: SSH-1 mask decoding."""
from pyvc.contracts import Contract
from pyvc.driver import Unit
from pyvc.values import fresh

CIPHERS = ['none', 'idea', 'des', '3des', 'tss', 'rc4', 'blowfish']
AUTHS = ['none', 'rhosts', 'rsa', 'password', 'rhosts_rsa', 'tis', 'kerberos']


def setup_pkm(ip, st, fr, case):
    cm, am = fresh('cmask', 'int'), fresh('amask', 'int')
    st.assume(cm.t >= 0)
    st.assume(am.t >= 0)
    fr['self'] = st.new_obj('SSH1_PublicKeyMessage', {'_SSH1_PublicKeyMessage__supported_ciphers_mask': cm,
                                                      '_SSH1_PublicKeyMessage__supported_authentications_mask': am})
    fr['g_cm'], fr['g_am'] = cm, am
    return {'g_cm': cm, 'g_am': am}


def bits_spec(var, names, lo):
    # SSH-1.5: bit i of the mask set <=> names[i] supported (authentication bit 0 has no meaning)
    return ' + '.join("([%r] if %s // %d %% 2 == 1 else [])" % (names[i], var, 2 ** i) for i in range(lo, len(names)))


def units():
    U = []
    U.append(Unit(Contract('SSH1_PublicKeyMessage.supported_ciphers', setup=setup_pkm, raises={},
                           ensures=["result == " + bits_spec('g_cm', CIPHERS, 0)]),
                  harness=dict(imports="from ssh_audit.ssh1_publickeymessage import SSH1_PublicKeyMessage", setup="m = SSH1_PublicKeyMessage(b'12345678', (1, 1, 1), (1, 1, 1), 0, g_cm, g_am)", call="m.supported_ciphers")))
    U.append(Unit(Contract('SSH1_PublicKeyMessage.supported_authentications', setup=setup_pkm, raises={},
                           ensures=["result == " + bits_spec('g_am', AUTHS, 1)]),
                  harness=dict(imports="from ssh_audit.ssh1_publickeymessage import SSH1_PublicKeyMessage", setup="m = SSH1_PublicKeyMessage(b'12345678', (1, 1, 1), (1, 1, 1), 0, g_cm, g_am)", call="m.supported_authentications")))
    return U
