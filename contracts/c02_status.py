"""Contracts for C02 (exit status reflects the worst finding)."""
import z3
from pyvc.contracts import Contract
from pyvc.driver import Unit
from pyvc.values import fresh, Sym, Ref, Obj, sort_of
from pyvc.state import mk
from pyvc import ops

DESC_TY = ('list', ('list', ('opt', 'str')))


# ---------------------------------------------------------------------------------------------------- symbolic rating table
# The table is a parameter of output_algorithm.  It is modelled as an *arbitrary* table of the documented shape: for each
# looked-up name an unconstrained membership bit and an unconstrained entry (list of 1..4 lists of Optional[str]).
def m_db_contains(ip, st, recv, args, kwargs):
    known, desc = lookup(ip, st, recv, args[0])
    return known


def m_db_getitem(ip, st, recv, args, kwargs):
    known, desc = lookup(ip, st, recv, args[0])
    ip.cond_raise(st, z3.Not(known.t) if isinstance(known, Sym) else (not known), 'KeyError', args[0])
    return desc


def lookup(ip, st, recv, name):
    p = st.get(recv)
    tab = dict(st.ghost.get('$dbtab') or {})
    key = (p.f['cat'], name.t.get_id() if isinstance(name, Sym) else name)
    if key not in tab:
        known = fresh('known', 'bool')
        n = st.ghost.get('$ndesc')
        if n is None:
            d = fresh('desc', DESC_TY)
            st.assume(z3.And(z3.Length(d.t) >= 1, z3.Length(d.t) <= 4))
            desc = st.new_symlist(d.t, DESC_TY[1])
        else:
            # entry with a concrete number (1..4) of note lists, each an arbitrary list of Optional[str]
            inner = [st.new_symlist(fresh('desc%d' % i, DESC_TY[1]).t, ('opt', 'str')) for i in range(n)]
            desc = st.new_list(inner, DESC_TY[1])
        # definition of the table's per-name flags at the name being rendered (C02's call-site vocabulary)
        orig = st.ghost.get('orig_name')
        if orig is not None and n is not None:
            cat = p.f['cat']
            f1 = ip.specs.call(ip, st, 'has_some', [inner[1]], {}) if n > 1 else False
            f2 = ip.specs.call(ip, st, 'has_some', [inner[2]], {}) if n > 2 else False
            af = ip.specs.call(ip, st, 'alg_fail', [cat, orig], {})
            aw = ip.specs.call(ip, st, 'alg_warn', [cat, orig], {})
            st.assume(ops.B(af) == z3.And(known.t, ops.B(f1) if not isinstance(f1, bool) else z3.BoolVal(f1)))
            st.assume(ops.B(aw) == z3.Or(z3.Not(known.t), ops.B(f2) if not isinstance(f2, bool) else z3.BoolVal(f2)))
        tab[key] = (known, desc, name)
        st.ghost['$dbtab'] = tab
        st.ghost['looked_known'] = known
        st.ghost['looked_desc'] = desc
        st.ghost['looked_name'] = name
        if n is not None:
            # the entry's cells as they were before the function under verification touched them
            st.ghost['looked_orig'] = st.new_list([Sym(st.get(x).sym, DESC_TY[1]) for x in inner])
    known, desc, _ = tab[key]
    return known, desc


def setup_output_algorithm(ip, st, fr, case):
    cats = {}
    for c in ('kex', 'key', 'enc', 'mac'):
        cats[c] = st.new_obj('<symdb>', {'cat': c})
    fr['alg_db'] = st.new_dict(cats)
    fr['alg_type'] = case['$cat']
    fr['alg_name'] = fresh('alg_name', 'str')
    fr['unknown_algs'] = st.new_symlist(fresh('unknown', ('list', 'str')).t, 'str')
    fr['program_retval'] = fresh('retval', 'int')
    fr['alg_max_len'] = fresh('maxlen', 'int')
    fr['host_keys'] = None
    fr['dh_modulus_sizes'] = None
    out = st.new_obj('OutputBuffer', {'batch': fresh('batch', 'bool'), 'verbose': fresh('verbose', 'bool')})
    fr['out'] = out
    st.ghost['looked_known'] = False
    st.ghost['orig_name'] = fr['alg_name']
    st.ghost['$ndesc'] = case.get('$ndesc')
    st.ghost['looked_desc'] = None
    st.ghost['emitted'] = 0
    ip.method_models[('<symdb>', '__contains__')] = m_db_contains
    ip.method_models[('<symdb>', '__getitem__')] = m_db_getitem
    ip.models['$dyn_method'] = m_dyn_output
    return {'alg_name': fr['alg_name'], 'program_retval': fr['program_retval']}


def m_dyn_output(ip, st, recv, name, args, kwargs):
    """getattr(out, level)(text) with a symbolic level: one of the four printing methods (all have the printing contract)"""
    return recv


def out_stub(name):
    # printing methods: may change only the output buffer; return the buffer (proved for the real methods in C15)
    return Contract('OutputBuffer.' + name, mode='contract', result=lambda ip, st: st.frame['self'], modifies=[], ensures=[])


def stubs():
    S = [out_stub(n) for n in ('good', 'fail', 'warn', 'info', 'head', 'sep', 'flush_section', '__enter__', '__exit__')]
    S.append(Contract('OutputBuffer.is_section_empty', mode='contract', result='bool', ensures=[]))
    S.extend(output_stubs())
    S.extend(audit_stubs())
    S.extend(policy_stubs())
    S.append(Contract('Algorithm.get_since_text', mode='contract', result='opt[str]', ensures=[],
                      note='which text is shown is C03; for the status only its level (info) matters'))
    return S


SPEC_CALL = "result == alg_step(alg_type, old.alg_name, old.program_retval)"
SPEC = ("result == (old.program_retval if is_blank(alg_name) else "
        "(status_after(old.program_retval, len(ghost('looked_desc')) > 1 and has_some(ghost('looked_desc')[1]), "
        "len(ghost('looked_desc')) > 2 and has_some(ghost('looked_desc')[2])) if ghost('looked_known') "
        "else status_after(old.program_retval, False, True)))")


def oa_contract():
    """call-site view of output_algorithm: the status step, in terms of the table's per-name flags"""
    return Contract('ssh_audit:output_algorithm', mode='contract', result='int',
                    requires=["program_retval == 0 or program_retval == 2 or program_retval == 3"],
                    modifies=['unknown_algs:list[str]'],
                    ensures=["result == alg_step(alg_type, alg_name, program_retval)", "result == 0 or result == 2 or result == 3"],
                    note='the unit proof shows the step is status_after(s0, entry has a failure note, entry has a warning note or is unknown)')


def setup_output_algorithms(ip, st, fr, case):
    fr['out'] = st.new_obj('OutputBuffer', {'batch': fresh('batch', 'bool'), 'verbose': fresh('verbose', 'bool')})
    fr['title'] = 'algorithms'
    fr['alg_db'] = st.new_dict({})
    fr['alg_type'] = case['$cat']
    fr['algorithms'] = st.new_symlist(fresh('algorithms', ('list', 'str')).t, 'str')
    fr['unknown_algs'] = st.new_symlist(fresh('unknown', ('list', 'str')).t, 'str')
    fr['is_json_output'] = fresh('json', 'bool')
    fr['program_retval'] = fresh('retval', 'int')
    fr['maxlen'] = fresh('maxlen', 'int')
    fr['host_keys'] = None
    fr['dh_modulus_sizes'] = None
    return {}


def symlist(st, name):
    return st.new_symlist(fresh(name, ('list', 'str')).t, 'str')


def make_kex(ip, st):
    g = {n: symlist(st, n) for n in ('kex', 'key', 'cenc', 'senc', 'cmac', 'smac')}
    comp = st.new_list(['none', 'zlib@openssh.com'])
    lang = st.new_list([''])
    cli = st.new_obj('SSH2_KexParty', {'_SSH2_KexParty__enc': g['cenc'], '_SSH2_KexParty__mac': g['cmac'],
                                       '_SSH2_KexParty__compression': comp, '_SSH2_KexParty__languages': lang})
    srv = st.new_obj('SSH2_KexParty', {'_SSH2_KexParty__enc': g['senc'], '_SSH2_KexParty__mac': g['smac'],
                                       '_SSH2_KexParty__compression': comp, '_SSH2_KexParty__languages': lang})
    kex = st.new_obj('SSH2_Kex', {'_SSH2_Kex__cookie': b'', '_SSH2_Kex__kex_algs': g['kex'], '_SSH2_Kex__key_algs': g['key'],
                                  '_SSH2_Kex__client': cli, '_SSH2_Kex__server': srv, '_SSH2_Kex__follows': False,
                                  '_SSH2_Kex__unused': 0, '_SSH2_Kex__dh_modulus_sizes': st.new_dict({}),
                                  '_SSH2_Kex__host_keys': st.new_dict({}), '_SSH2_Kex__outputbuffer': None})
    return kex, g


def make_aconf(ip, st):
    return st.new_obj('AuditConf', {'host': fresh('host', 'str'), 'port': fresh('port', 'int'), 'json': fresh('json', 'bool'),
                                    'json_print_indent': fresh('jindent', 'bool'), 'batch': fresh('abatch', 'bool'),
                                    'verbose': fresh('averbose', 'bool'), 'level': 'info', 'client_audit': fresh('client_audit', 'bool'),
                                    'policy': None, 'make_policy': False, 'ssh1': True, 'ssh2': True,
                                    'target_list': st.new_list([]), 'dheat': None, 'conn_rate_test_enabled': False,
                                    'gex_test': '', 'skip_rate_test': fresh('skip_rate', 'bool'), 'colors': fresh('colors', 'bool'),
                                    'debug': False, 'timeout': 5, 'timeout_set': False, 'ip_version_preference': st.new_list([])})


def setup_output(ip, st, fr, case):
    fr['out'] = st.new_obj('OutputBuffer', {'batch': fresh('batch', 'bool'), 'verbose': fresh('verbose', 'bool')})
    fr['aconf'] = make_aconf(ip, st)
    fr['banner'] = None
    fr['header'] = st.new_list([])
    fr['client_host'] = None
    fr['pkm'] = None
    fr['print_target'] = False
    fr['dh_rate_test_notes'] = ''
    if case['$kex']:
        kex, g = make_kex(ip, st)
        fr['kex'] = kex
        fr['g_kex'], fr['g_key'], fr['g_enc'], fr['g_mac'] = g['kex'], g['key'], g['senc'], g['smac']
    else:
        fr['kex'] = None
    return {}


def two_lists(ip, st):
    return (symlist(st, 'suppress'), symlist(st, 'notes'))


def frame_stub(qual, result=None):
    return Contract(qual, mode='contract', result=result, ensures=[], modifies=[],
                    note='assumed frame: may print, does not touch the caller\'s locals (program status is a local integer)')


def output_stubs():
    S = [frame_stub('ssh_audit:post_process_findings', two_lists),
         frame_stub('Algorithms.maxlen', 'int'),
         frame_stub('ssh_audit:output_compatibility'), frame_stub('ssh_audit:output_security'),
         frame_stub('ssh_audit:output_fingerprints'), frame_stub('ssh_audit:output_recommendations', 'bool'),
         frame_stub('ssh_audit:output_info'), frame_stub('ssh_audit:build_struct', 'int'),
         frame_stub('SSH2_KexDB.get_db', lambda ip, st: st.new_dict({})),
         frame_stub('OutputBuffer.reset')]
    return S


def m_json_dumps(ip, st, args, kwargs):
    return fresh('json_text', 'str')


# ---------------------------------------------------------------------------------------------------- audit()
def m_output(ip, st, args, kwargs):
    """call-site model of output(): records whether an algorithm report is rendered (kex or pkm given) and returns the
    status that the `output` unit above characterises (0, 2 or 3)"""
    kex, pkm = kwargs.get('kex'), kwargs.get('pkm')
    rendered = (kex is not None) or (pkm is not None)
    st.ghost['reports'] = st.ghost['reports'] + (rendered,)
    r = fresh('output_status', 'int')
    st.assume(z3.Or(r.t == 0, r.t == 2, r.t == 3))
    if rendered:
        st.ghost['last_status'] = r
    return r


def m_evaluate_policy(ip, st, args, kwargs):
    r = fresh('policy_passed', 'bool')
    st.ghost['policy_passed'] = r
    return r


def banner_result(ip, st):
    """SSH_Socket.get_banner: (banner or None, header lines, error text or None) -- any combination"""
    c = ip.choose(st, 2)
    banner = None
    if c == 1:
        banner = st.new_obj('Banner', {'_Banner__protocol': (fresh('pmaj', 'int'), fresh('pmin', 'int')), '_Banner__software': fresh('sw', ('opt', 'str')),
                                       '_Banner__comments': fresh('comments', ('opt', 'str')), '_Banner__valid_ascii': fresh('valid_ascii', 'bool')})
    return (banner, symlist(st, 'header'), fresh('banner_err', ('opt', 'str')))


def packet_result(ip, st):
    return (fresh('packet_type', 'int'), fresh('payload', 'bytes'))


def kex_result(ip, st):
    st.ghost['parsed'] = True
    st.ghost['parsed_sshv'] = 2
    return make_kex(ip, st)[0]


def pkm_result(ip, st):
    st.ghost['parsed'] = True
    st.ghost['parsed_sshv'] = 1
    return st.new_obj('SSH1_PublicKeyMessage', {})


def audit_stubs():
    ANY = "True"
    return [
        Contract('SSH_Socket.connect', mode='contract', result='opt[str]', ensures=[]),
        Contract('SSH_Socket.listen_and_accept', mode='contract', ensures=[], may_raise={'SystemExit': ANY}),
        Contract('SSH_Socket.get_banner', mode='contract', result=banner_result, ensures=[]),
        Contract('SSH_Socket.send_kexinit', mode='contract', ensures=[]),
        Contract('SSH_Socket.read_packet', mode='contract', result=packet_result, ensures=[], may_raise={'SystemExit': ANY}),
        Contract('SSH2_Kex.parse', mode='contract', result=kex_result, ensures=[], may_raise={'struct.error': ANY, 'Exception': ANY}),
        Contract('SSH1_PublicKeyMessage.parse', mode='contract', result=pkm_result, ensures=[], may_raise={'struct.error': ANY}),
        Contract('HostKeyTest.run', mode='contract', ensures=[]),
        Contract('GEXTest.run', mode='contract', ensures=[]),
        Contract('DHEat.dh_rate_test', mode='contract', result='str', ensures=[]),
        Contract('ssh_audit:run_gex_granular_modulus_size_test', mode='contract', result='int', ensures=[]),
        Contract('ssh_audit:make_policy', mode='contract', ensures=[]),
        Contract('OutputBuffer.v', mode='contract', result=lambda ip, st: st.frame['self'], ensures=[]),
        Contract('OutputBuffer.d', mode='contract', result=lambda ip, st: st.frame['self'], ensures=[]),
        Contract('OutputBuffer.write', mode='contract', ensures=[]),
        Contract('Utils.is_ipv6_address', mode='contract', result='bool', ensures=[]),
        Contract('SSH2_Kex.__str__', mode='contract', result='str', ensures=[]),
    ]


def setup_audit(ip, st, fr, case):
    fr['out'] = st.new_obj('OutputBuffer', {'batch': False, 'verbose': False, 'debug': False, 'use_colors': True,
                                            '_OutputBuffer__level': 0})
    aconf = make_aconf(ip, st)
    a = st.mut(aconf)
    a.f['policy'] = st.new_obj('Policy', {}) if case['$mode'] == 'policy' else None
    a.f['client_audit'] = case['$client']
    a.f['target_list'] = st.new_list(['t1', 't2']) if case['$multi'] else st.new_list([])
    a.f['ssh1'] = fresh('ssh1', 'bool')
    a.f['ssh2'] = fresh('ssh2', 'bool')
    fr['aconf'] = aconf
    fr['sshv'] = None
    fr['print_target'] = False
    st.ghost['reports'] = ()
    st.ghost['parsed'] = False
    st.ghost['parsed_sshv'] = 0
    st.ghost['last_status'] = -7
    st.ghost['policy_passed'] = None
    ip.models['ssh_audit:output'] = m_output
    ip.models['ssh_audit:evaluate_policy'] = m_evaluate_policy
    return {}


def setup_evaluate_policy(ip, st, fr, case):
    fr['out'] = st.new_obj('OutputBuffer', {})
    aconf = make_aconf(ip, st)
    a = st.mut(aconf)
    a.f['policy'] = st.new_obj('Policy', {})
    a.f['json'] = case['$json']
    a.f['client_audit'] = case['$client']
    fr['aconf'] = aconf
    fr['banner'] = None
    fr['client_host'] = fresh('client_host', ('opt', 'str'))
    fr['kex'] = None
    fr['g_passed'] = fresh('passed', 'bool')
    st.ghost['g_passed'] = fr['g_passed']
    return {}


def evaluate_result(ip, st):
    return (st.ghost['g_passed'], symlist(st, 'errors'), fresh('error_str', 'str'))


def policy_stubs():
    return [Contract('Policy.evaluate', mode='contract', result=evaluate_result, ensures=[], note='C06 decides the verdict; here only its propagation'),
            Contract('Policy.is_outdated_builtin_policy', mode='contract', result='bool', ensures=[]),
            Contract('Policy.get_name_and_version', mode='contract', result='str', ensures=[]),
            Contract('Utils.is_windows', mode='contract', result='bool', ensures=[])]


def units():
    U = []
    for js in (False, True):
        for client in (False, True):
            U.append(Unit(Contract('ssh_audit:evaluate_policy', setup=setup_evaluate_policy, cases=[{'$json': js, '$client': client}],
                                   raises={}, ensures=["result == g_passed"]), harness=None))
    for mode in ('standard', 'policy'):
        for multi in (False, True):
            ens = ["implies(not ghost('parsed'), result == 1 and not any(ghost('reports')))",   # lists not obtained: status 1, no algorithm report
                   "sum(1 for r in ghost('reports') if r) <= 1"]                            # at most one algorithm report
            if mode == 'standard':
                ens.append("implies(ghost('parsed'), any(ghost('reports')) and result == ghost('last_status'))")  # the report's status, unchanged
            else:
                ens.append("implies(ghost('parsed_sshv') == 2, ghost('policy_passed') is not None and result == (0 if ghost('policy_passed') else 3))")
                ens.append("implies(ghost('parsed_sshv') == 1, ghost('policy_passed') is not None and result == (0 if ghost('policy_passed') else 3))")
                ens.append("implies(ghost('policy_passed') is not None, ghost('parsed'))")
            U.append(Unit(Contract(
                'ssh_audit:audit', setup=setup_audit, cases=[{'$mode': mode, '$multi': multi, '$client': False}],
                requires=["aconf.port >= 1 and aconf.port <= 65535"],     # established by AuditConf.__setattr__ (C18)
                raises={},
                may_raise={'SystemExit': "not ghost('parsed') and not any(ghost('reports'))",
                           # an exception escaping a parser ends through the wrapper's catch-all (status 255): never 0/2/3 (C09 counts them)
                           'struct.error': "not ghost('parsed') and not any(ghost('reports'))"},
                ensures=ens),
                harness=None))
    U.append(Unit(Contract(
        'ssh_audit:output', setup=setup_output, cases=[{'$kex': True}], raises={},
        ensures=["result == status_after(0, any_fail('kex', g_kex) or any_fail('key', g_key) or any_fail('enc', g_enc) or any_fail('mac', g_mac), "
                 "any_warn('kex', g_kex) or any_warn('key', g_key) or any_warn('enc', g_enc) or any_warn('mac', g_mac))"]),
        harness=None))
    U.append(Unit(Contract(
        'ssh_audit:output', setup=setup_output, cases=[{'$kex': False}], raises={},
        ensures=["result == 0"]),
        harness=None))
    for cat in ('kex', 'key', 'enc', 'mac'):
        U.append(Unit(Contract(
            'ssh_audit:output_algorithms', setup=setup_output_algorithms, cases=[{'$cat': cat}], mode='contract', result='int',
            requires=["program_retval == 0 or program_retval == 2 or program_retval == 3"], raises={},
            modifies=['unknown_algs:list[str]'],
            ensures=["result == fold_algs(alg_type, algorithms, old.program_retval)",
                     "result == status_after(old.program_retval, any_fail(alg_type, algorithms), any_warn(alg_type, algorithms))",
                     "result == 0 or result == 2 or result == 3"],
            use=["fold_is_worst(alg_type, algorithms, old.program_retval)"],
            loops={1: dict(header='for algorithm in algorithms', invariant=["program_retval == fold_algs(alg_type, algorithms[:_k], old.program_retval)",
                                      "program_retval == 0 or program_retval == 2 or program_retval == 3"],
                           types={'algorithm': 'str'}, modifies=['unknown_algs'])}),
            harness=None))
    for cat, nd in (('kex', 1), ('kex', 2), ('kex', 3), ('kex', 4), ('enc', 3), ('key', 4), ('mac', 2)):
        U.append(Unit(Contract(
            'ssh_audit:output_algorithm', setup=setup_output_algorithm, cases=[{'$cat': cat, '$ndesc': nd}],
            requires=["program_retval == 0 or program_retval == 2 or program_retval == 3"],
            raises={},
            ensures=[SPEC.replace('is_blank(alg_name)', 'is_blank(old.alg_name)'), "result == 0 or result == 2 or result == 3", SPEC_CALL],
            loops={2: dict(header='for t in alg_desc[idx]', invariant=["implies(level == 'fail', has_level(texts, 'fail') == (has_level(at_entry.texts, 'fail') or has_some(alg_desc[idx][:_k])))",
                                      "implies(level == 'warn', has_level(texts, 'warn') == (has_level(at_entry.texts, 'warn') or has_some(alg_desc[idx][:_k])))",
                                      "implies(level != 'fail', has_level(texts, 'fail') == has_level(at_entry.texts, 'fail'))",
                                      "implies(level != 'warn', has_level(texts, 'warn') == has_level(at_entry.texts, 'warn'))"],
                           types={'t': 'opt[str]', 'texts': 'list[tuple[str,str]]'}),
                   3: dict(invariant=["program_retval == status_after(old.program_retval, has_level(texts[:_k], 'fail'), has_level(texts[:_k], 'warn'))"],
                           types={'level': 'str', 'text': 'str', 'f': None, 'comment': 'str'})}),
            harness=None))
    return U
