"""Contracts for C02 (exit status reflects the worst finding)."""
import z3
from pyvc.contracts import Contract
from pyvc.driver import Unit
from pyvc.values import fresh, Sym, Ref, Obj, sort_of
from pyvc.state import mk
from pyvc import ops

DESC_TY = ('list', ('list', ('opt', 'str')))


# ---------------------------------------------------------------------------------------------------- symbolic rating table
# The table is a parameter of output_algorithm.  It is modelled as an *arbitrary* table of the documented shape: for each
# looked-up name an unconstrained membership bit and an unconstrained entry (list of 1..4 lists of Optional[str]).
def m_db_contains(ip, st, recv, args, kwargs):
    known, desc = lookup(ip, st, recv, args[0])
    return known


def m_db_getitem(ip, st, recv, args, kwargs):
    known, desc = lookup(ip, st, recv, args[0])
    ip.cond_raise(st, z3.Not(known.t) if isinstance(known, Sym) else (not known), 'KeyError', args[0])
    return desc


def lookup(ip, st, recv, name):
    p = st.get(recv)
    tab = dict(st.ghost.get('$dbtab') or {})
    key = (p.f['cat'], name.t.get_id() if isinstance(name, Sym) else name)
    if key not in tab:
        known = fresh('known', 'bool')
        n = st.ghost.get('$ndesc')
        if n is None:
            d = fresh('desc', DESC_TY)
            st.assume(z3.And(z3.Length(d.t) >= 1, z3.Length(d.t) <= 4))
            desc = st.new_symlist(d.t, DESC_TY[1])
        else:
            # entry with a concrete number (1..4) of note lists, each an arbitrary list of Optional[str]
            inner = [st.new_symlist(fresh('desc%d' % i, DESC_TY[1]).t, ('opt', 'str')) for i in range(n)]
            desc = st.new_list(inner, DESC_TY[1])
        tab[key] = (known, desc, name)
        st.ghost['$dbtab'] = tab
        st.ghost['looked_known'] = known
        st.ghost['looked_desc'] = desc
        st.ghost['looked_name'] = name
    known, desc, _ = tab[key]
    return known, desc


def setup_output_algorithm(ip, st, fr, case):
    cats = {}
    for c in ('kex', 'key', 'enc', 'mac'):
        cats[c] = st.new_obj('<symdb>', {'cat': c})
    fr['alg_db'] = st.new_dict(cats)
    fr['alg_type'] = case['$cat']
    fr['alg_name'] = fresh('alg_name', 'str')
    fr['unknown_algs'] = st.new_symlist(fresh('unknown', ('list', 'str')).t, 'str')
    fr['program_retval'] = fresh('retval', 'int')
    fr['alg_max_len'] = fresh('maxlen', 'int')
    fr['host_keys'] = None
    fr['dh_modulus_sizes'] = None
    out = st.new_obj('OutputBuffer', {'batch': fresh('batch', 'bool'), 'verbose': fresh('verbose', 'bool')})
    fr['out'] = out
    st.ghost['looked_known'] = False
    st.ghost['$ndesc'] = case.get('$ndesc')
    st.ghost['looked_desc'] = None
    st.ghost['emitted'] = 0
    ip.method_models[('<symdb>', '__contains__')] = m_db_contains
    ip.method_models[('<symdb>', '__getitem__')] = m_db_getitem
    ip.models['$dyn_method'] = m_dyn_output
    return {'alg_name': fr['alg_name'], 'program_retval': fr['program_retval']}


def m_dyn_output(ip, st, recv, name, args, kwargs):
    """getattr(out, level)(text) with a symbolic level: one of the four printing methods (all have the printing contract)"""
    return recv


def out_stub(name):
    # printing methods: may change only the output buffer; return the buffer (proved for the real methods in C15)
    return Contract('OutputBuffer.' + name, mode='contract', result=lambda ip, st: st.frame['self'], modifies=[], ensures=[])


def stubs():
    S = [out_stub(n) for n in ('good', 'fail', 'warn', 'info', 'head', 'sep')]
    S.append(Contract('Algorithm.get_since_text', mode='contract', result='opt[str]', ensures=[],
                      note='which text is shown is C03; for the status only its level (info) matters'))
    return S


SPEC = ("result == (old.program_retval if is_blank(alg_name) else "
        "(status_after(old.program_retval, len(ghost('looked_desc')) > 1 and has_some(ghost('looked_desc')[1]), "
        "len(ghost('looked_desc')) > 2 and has_some(ghost('looked_desc')[2])) if ghost('looked_known') "
        "else status_after(old.program_retval, False, True)))")


def units():
    U = []
    for cat, nd in (('kex', 1), ('kex', 2), ('kex', 3), ('kex', 4), ('enc', 3), ('key', 4), ('mac', 2)):
        U.append(Unit(Contract(
            'ssh_audit:output_algorithm', setup=setup_output_algorithm, cases=[{'$cat': cat, '$ndesc': nd}],
            requires=["program_retval == 0 or program_retval == 2 or program_retval == 3"],
            raises={},
            ensures=[SPEC.replace('is_blank(alg_name)', 'is_blank(old.alg_name)'), "result == 0 or result == 2 or result == 3"],
            loops={2: dict(invariant=["implies(level == 'fail', has_level(texts, 'fail') == (has_level(at_entry.texts, 'fail') or has_some(alg_desc[idx][:_k])))",
                                      "implies(level == 'warn', has_level(texts, 'warn') == (has_level(at_entry.texts, 'warn') or has_some(alg_desc[idx][:_k])))",
                                      "implies(level != 'fail', has_level(texts, 'fail') == has_level(at_entry.texts, 'fail'))",
                                      "implies(level != 'warn', has_level(texts, 'warn') == has_level(at_entry.texts, 'warn'))"],
                           types={'t': 'opt[str]', 'texts': 'list[tuple[str,str]]'}),
                   3: dict(invariant=["program_retval == status_after(old.program_retval, has_level(texts[:_k], 'fail'), has_level(texts[:_k], 'warn'))"],
                           types={'level': 'str', 'text': 'str', 'f': None, 'comment': 'str'})}),
            harness=None))
    return U
