"""Bounded composition check for C17: a server configured exactly per a built-in server policy (its required and optional host keys with
the listed key and CA sizes, the listed group-exchange modulus) shows no failure in a standard audit and passes the policy."""

NATIVE = r'''
import json, sys, os, tempfile
sys.path.insert(0, %(native)r)
import fakenet as F
from ssh_audit.builtin_policies import BUILTIN_POLICIES
cases, failures = 0, []
per = {}
def fail(inp, got, want, cls):
    per[cls] = per.get(cls, 0) + 1
    if per[cls] <= 3:
        failures.append({'input': dict(inp, **{'class': cls}), 'got': got, 'want': want})
def blob(t, info):
    sz = info.get('hostkey_size', 4096)
    cat, cas = info.get('ca_key_type', ''), info.get('ca_key_size', 0)
    if '-cert-' in t:
        ca = F.rsa_blob(cas or 4096) if cat in ('ssh-rsa', '') and 'rsa' in t and cat != 'ssh-ed25519' else F.ed25519_blob()
        if cat == 'ssh-rsa': ca = F.rsa_blob(cas)
        if cat == 'ssh-ed25519': ca = F.ed25519_blob()
        if t.startswith(('ssh-rsa', 'rsa-sha2')):
            return F.cert_blob('rsa', sz, ca)
        if t.startswith('ssh-ed25519'):
            return F.cert_blob('ed25519', 256, ca)
        return None
    if t in ('ssh-rsa', 'rsa-sha2-256', 'rsa-sha2-512'):
        return F.rsa_blob(sz)
    if t == 'ssh-ed25519':
        return F.ed25519_blob()
    return None                    # key types the fake server cannot present (security keys): offered but not answered
def server_for(p, with_optional):
    keys = list(p['host_keys'] or []) + (list(p['optional_host_keys'] or []) if with_optional else [])
    sizes = p['hostkey_sizes'] or {}
    hk = {}
    for t in keys:
        b = blob(t, sizes.get(t, {}))
        if b is not None:
            hk[t] = b
    keys = [t for t in keys if t in hk or not with_optional]
    moduli = sorted(set((p['dh_modulus_sizes'] or {}).values())) or [4096]
    banner = (p['banner'] or 'SSH-2.0-OpenSSH_9.9').encode() + b'\r\n'
    return F.Server(p['kex'], keys, p['ciphers'], p['macs'], hostkeys=hk, moduli=moduli, select='roundup', banner=banner)
def alg_fail_lines(out):
    return [l for l in out.split('\n') if '[fail]' in l and (l.startswith(('(kex) ', '(key) ', '(enc) ', '(mac) ')) or l.startswith(' '))]
names = [n for n, p in BUILTIN_POLICIES.items() if p['server_policy']]
for n in names:
    p = BUILTIN_POLICIES[n]
    for with_optional in (False, True):
        cases += 1
        st, out = F.run_main(['-n', '--skip-rate-test', 's.test'], F.FakeNet({'s.test': server_for(p, with_optional)}))
        fl = alg_fail_lines(out)
        if fl or st == 3:
            fail({'policy': n, 'optional host keys offered': with_optional}, {'status': st, 'failures': [l.strip()[:120] for l in fl[:3]]}, 'no algorithm failure for a server configured exactly per the policy', 'conformant-server-fails')
        st2, out2 = F.run_main(['-n', '--skip-rate-test', '-P', n, 's.test'], F.FakeNet({'s.test': server_for(p, with_optional)}))
        if st2 != 0:
            fail({'policy': n, 'optional host keys offered': with_optional}, {'policy audit status': st2, 'tail': out2.strip().split('\n')[-3:]}, 'the policy passes on a server configured exactly per it', 'conformant-server-fails-policy')
# the same server audited after a weak one in the same run (tables are per target)
weak = lambda: F.Server(['diffie-hellman-group1-sha1', 'diffie-hellman-group-exchange-sha256'], ['ssh-rsa', 'rsa-sha2-512'], ['3des-cbc', 'chacha20-poly1305@openssh.com'], ['hmac-md5', 'hmac-sha2-256-etm@openssh.com'],
                        hostkeys={'ssh-rsa': F.rsa_blob(1024), 'rsa-sha2-512': F.rsa_blob(1024)}, moduli=[1024], select='strict')
for n in names[-3:]:
    for threads in (1, 2):
        cases += 1
        p = BUILTIN_POLICIES[n]
        f = tempfile.NamedTemporaryFile('w', suffix='.txt', delete=False); f.write('weak.test\ngood.test\nweak2.test\ngood2.test\n'); f.close()
        try:
            net = F.FakeNet({'weak.test': weak(), 'good.test': server_for(p, True), 'weak2.test': weak(), 'good2.test': server_for(p, False)})
            st, out = F.run_main(['-n', '--skip-rate-test', '-T', f.name, '--threads', str(threads)], net)
        finally:
            os.unlink(f.name)
        for blk in out.split('-' * 80 + '\n'):
            if '(gen) target: good' in blk:
                fl = alg_fail_lines(blk)
                if fl:
                    fail({'policy': n, 'threads': threads, 'after': 'a weak target in the same run'}, [l.strip()[:120] for l in fl[:3]], 'no algorithm failure for the conformant server', 'conformant-server-fails-after-weak')
print(json.dumps({'cases': cases, 'failures': failures}))
'''
