"""Bounded run-time contract checks of the probe phases (C09, C11, C12, C19) on the REAL main(), against a scripted,
reactive fake SSH server (native/fakenet.py: Server).  Labelled bounded; never counted as proved."""

COMMON = r'''
import json, sys, os, re, socket, itertools, multiprocessing
sys.path.insert(0, %(native)r)
import fakenet as F
TIER = %(tier)r
def kex_line(out, alg):
    for l in out.split('\n'):
        if l.startswith('(kex) ' + alg + ' ') or l.startswith('(key) ' + alg + ' ') or l.rstrip() in ('(kex) ' + alg, '(key) ' + alg):
            return l
    return None
def notes_of(out, prefix, alg):
    """all note lines of one algorithm's block in the text report -> [(level, text)] (plain: continuation lines; verbose: the prefix is repeated)"""
    lines = out.split('\n')
    res = []
    head = '(%%s) %%s' %% (prefix, alg)
    i = 0
    while i < len(lines):
        l = lines[i]
        if l.startswith(head + ' ') or l.rstrip() == head:
            j = i
            while j < len(lines) and (j == i or lines[j].startswith(' ')):
                m = re.search(r'\[(fail|warn|info)\] (.*)$', lines[j])
                if m:
                    res.append((m.group(1), m.group(2).rstrip()))
                j += 1
            i = j
        else:
            i += 1
    return res
def size_suffix(line, alg):
    m = re.match(r'^\((kex|key)\) ' + re.escape(alg) + r' \(([^)]*)\)', line)
    return m.group(2) if m else None
def run_pool(fn, items):
    with multiprocessing.Pool(14) as pool:
        return pool.map(fn, items, chunksize=8)
'''

C12 = COMMON + r'''
LADDER = [512, 768, 1024, 1536, 2048, 3072, 4096]
FIXED = [(512, 1024, 1536)] + [(b, b, b) for b in LADDER]
FOLLOW = (2048, 3072, 4096)
UNIVERSE = [512, 768, 1024, 1536, 2048, 3072, 4096, 6144, 8192]
SMALL = 'using small %%d-bit modulus'
WARN = '2048-bit modulus only provides 112-bits of symmetric strength'
def one(case):
    ndebug = 0
    if len(case) == 5:
        ndebug, case = case[4], case[:4]
    subset, style, alg, banner = case
    openssh = 'OpenSSH' in banner
    srv = F.Server(['curve25519-sha256', alg], ['ssh-ed25519'], ['aes128-ctr'], ['hmac-sha2-256'], hostkeys={'ssh-ed25519': F.ed25519_blob()},
                   moduli=list(subset), select=style, banner=banner.encode() + b'\r\n')
    if ndebug:
        srv.debug_before = {'gex_group': ndebug, 'gex_reply': ndebug}       # SSH_MSG_DEBUG in front of the group and the reply: legal, to be skipped
    fails = []
    def fail(got, want, cls):
        fails.append({'input': {'class': cls, 'moduli': list(subset), 'style': style, 'alg': alg, 'banner': banner}, 'got': got, 'want': want})
    st, out = F.run_main(['-n', '--skip-rate-test', 's.test'], F.FakeNet({'s.test': srv}))
    if st not in (0, 2, 3):
        fail({'status': st, 'tail': out[-300:]}, 'a documented audit status', 'status'); return fails
    # ---- oracle, from the statement: smallest modulus handed out over the fixed probe sequence
    model = F.Server([alg], ['ssh-ed25519'], ['aes128-ctr'], ['hmac-sha2-256'], moduli=list(subset), select=style)
    resp = [model.choose_modulus(*p) for p in FIXED]
    pos = [r for r in resp if r]
    want = min(pos) if pos else None
    follow = False
    if want == 2048 and openssh:
        follow = True
        want = model.choose_modulus(*FOLLOW)
    # ---- what the tool asked (must stay inside the fixed sequence, in order, + at most one follow-up probe at the end)
    asked = [r[2] for r in srv.requests if r[1] == 'gex_request']
    seq = list(asked)
    if follow and seq and seq[-1] == FOLLOW:
        seq = seq[:-1]
    if seq != FIXED[:len(seq)] or not seq:
        fail(asked, 'a prefix of the fixed probe sequence (+ the 2048-4096 follow-up)', 'probe-sequence')
    if follow and (not asked or asked[-1] != FOLLOW):
        fail(asked, 'follow-up probe (2048, 3072, 4096) after an OpenSSH server answered 2048', 'follow-up-missing')
    # ---- reported size
    line = kex_line(out, alg)
    if line is None:
        fail(out[-300:], 'a (kex) line for ' + alg, 'line'); return fails
    suffix = size_suffix(line, alg)
    got = int(suffix.split('-bit')[0]) if suffix and suffix.endswith('-bit') else None
    if got != want:
        fail({'reported': suffix, 'server answers over the fixed sequence': resp}, want, 'size')
        return fails
    notes = notes_of(out, 'kex', alg)
    texts = {lvl: [t for l2, t in notes if l2 == lvl] for lvl in ('fail', 'warn', 'info')}
    small = [t for t in texts['fail'] if 'modulus' in t]
    warn = [t for t in texts['warn'] if 'modulus' in t]
    if want is not None and want < 2048:
        if small != [SMALL %% want] or warn:
            fail(notes, 'exactly one failure %%r and no modulus warning' %% (SMALL %% want), 'rating-fail')
    elif want is not None and want < 3072:
        if small or warn != [WARN]:
            fail(notes, 'no modulus failure and exactly one warning %%r' %% WARN, 'rating-warn')
    else:
        if small or warn:
            fail(notes, 'no modulus size note', 'rating-none')
    if want is None and any('2048-bit modulus' in t or 'fall back' in t for t in texts['info'] + texts['warn'] + texts['fail']):
        fail(notes, 'no note about a modulus size when none was measured', 'note-without-size')
    fb = [t for t in texts['info'] if 'fallback' in t]
    if follow and want and want != 2048:
        if len(fb) != 1 or ('will use %%d.' %% want) not in fb[0]:
            fail(notes, 'one explanatory note naming %%d' %% want, 'fallback-note')
    elif fb:
        fail(notes, 'no fallback note', 'fallback-note-spurious')
    # ---- JSON view of the same server
    srv2 = F.Server(['curve25519-sha256', alg], ['ssh-ed25519'], ['aes128-ctr'], ['hmac-sha2-256'], hostkeys={'ssh-ed25519': F.ed25519_blob()},
                    moduli=list(subset), select=style, banner=banner.encode() + b'\r\n')
    st2, out2 = F.run_main(['-n', '-j', '--skip-rate-test', 's.test'], F.FakeNet({'s.test': srv2}))
    try:
        js = json.loads(out2)
        ent = [k for k in js['kex'] if k['algorithm'] == alg][0]
        if ent.get('keysize') != want:
            fail({'json keysize': ent.get('keysize')}, want, 'json-size')
    except Exception as e:
        fail(repr(e) + out2[-200:], 'JSON with a kex entry', 'json')
    return fails
subsets = [c for r in range(len(UNIVERSE) + 1) for c in itertools.combinations(UNIVERSE, r)]
styles = ['strict', 'roundup', 'openssh-fallback']
algs = ['diffie-hellman-group-exchange-sha256', 'diffie-hellman-group-exchange-sha1']
banners = ['SSH-2.0-OpenSSH_9.9', 'SSH-2.0-dropbear_2022.83']
if TIER == 'quick':
    # every subset x style once (algorithm and banner alternate with the subset index), plus every combination for subsets of size <= 2
    work = []
    for i, s in enumerate(subsets):
        for j, sty in enumerate(styles):
            work.append((s, sty, algs[(i + j) %% 2], banners[(i // 2 + j) %% 2]))
            if len(s) <= 2:
                for a in algs:
                    for b in banners:
                        if (s, sty, a, b) not in work:
                            work.append((s, sty, a, b))
else:
    work = [(s, sty, a, b) for s in subsets for sty in styles for a in algs for b in banners]
work += [(sub, sty, algs[0], banners[0], nd) for sub in ((1024,), (2048, 3072), (512, 4096), (3072,)) for sty in styles for nd in (1, 3)]
res = run_pool(one, work)
def both(case):
    # a server offering both group-exchange algorithms: each of them gets its size (the same moduli file serves both), in either order of offer
    subset, style, order, banner = case
    kexl = ['curve25519-sha256'] + (algs if order == 0 else list(reversed(algs)))
    srv = F.Server(kexl, ['ssh-ed25519'], ['aes128-ctr'], ['hmac-sha2-256'], hostkeys={'ssh-ed25519': F.ed25519_blob()}, moduli=list(subset), select=style, banner=banner.encode() + b'\r\n')
    st, out = F.run_main(['-n', '--skip-rate-test', 's.test'], F.FakeNet({'s.test': srv}))
    model = F.Server(kexl, ['ssh-ed25519'], ['aes128-ctr'], ['hmac-sha2-256'], moduli=list(subset), select=style)
    pos = [r for r in (model.choose_modulus(*p) for p in FIXED) if r]
    want = min(pos) if pos else None
    if want == 2048 and 'OpenSSH' in banner:
        want = model.choose_modulus(*FOLLOW)
    fails = []
    for alg in algs:
        line = kex_line(out, alg)
        suffix = size_suffix(line, alg) if line else None
        got = int(suffix.split('-bit')[0]) if suffix and suffix.endswith('-bit') else None
        if st not in (0, 2, 3) or got != want:
            fails.append({'input': {'class': 'size-both-algorithms', 'moduli': list(subset), 'style': style, 'offered': kexl, 'alg': alg, 'banner': banner}, 'got': {'status': st, 'reported': suffix}, 'want': want})
    return fails
work2 = [(sub, sty, o, b) for sub in ((1024,), (2048,), (2048, 4096), (3072,), (512, 8192), ()) for sty in styles for o in (0, 1) for b in banners]
res += run_pool(both, work2)
work = list(work) + work2
failures, per = [], {}
for fl in res:
    for f in fl:
        c = f['input']['class']
        per[c] = per.get(c, 0) + 1
        if per[c] <= 3:
            failures.append(f)
print(json.dumps({'cases': len(work), 'failures': failures, 'per_class': per}))
'''

C11 = COMMON + r'''
import hashlib, base64
TWO2K = '2048-bit modulus only provides 112-bits of symmetric strength'
ECC = '224-bit ECC modulus only provides 112-bits of symmetric strength'
NIST = 'CA key uses elliptic curves that are suspected as being backdoored by the U.S. National Security Agency'
RSA = ['ssh-rsa', 'rsa-sha2-256', 'rsa-sha2-512']
def sha256fp(blob):
    return 'SHA256:' + base64.b64encode(hashlib.sha256(blob).digest()).decode().rstrip('=')
def md5fp(blob):
    h = hashlib.md5(blob).hexdigest()
    return 'MD5:' + ':'.join(h[i:i + 2] for i in range(0, 32, 2))
def band(bits, lo=2048, hi=3072):
    return 'fail' if bits < lo else ('warn' if bits < hi else 'none')
def size_notes(notes):
    return sorted((l, t) for l, t in notes if 'modulus' in t or 'elliptic curves that are suspected' in t)
DEBUGS = [0]
KEXS = [['curve25519-sha256']]
def audit(keys, hostkeys, extra):
    srv = F.Server(KEXS[0], keys, ['aes128-ctr'], ['hmac-sha2-256'], hostkeys=hostkeys, moduli=[2048, 3072, 4096, 8192])
    if DEBUGS[0]:
        srv.debug_before = {'kexdh_reply': DEBUGS[0]}
    st, out = F.run_main(['-n', '--skip-rate-test'] + extra + ['s.test'], F.FakeNet({'s.test': srv}))
    return st, out, srv
def one(case):
    if case[0] == 'debug':
        # the same case with SSH_MSG_DEBUG messages in front of every key-exchange reply (legal; they are to be skipped)
        DEBUGS[0] = case[1]
        try:
            r = one(case[2])
        finally:
            DEBUGS[0] = 0
        for f in r:
            f['input']['debug messages before the reply'] = case[1]
            f['input']['class'] = 'debug-prefixed:' + f['input']['class']
        return r
    if case[0] == 'kex':
        # the same case on a server whose first probe-able key exchange is another method (each has its own KEXDH_INIT / ECDH_INIT / GEX form)
        KEXS[0] = list(case[1])
        try:
            r = one(case[2])
        finally:
            KEXS[0] = ['curve25519-sha256']
        for f in r:
            f['input']['key exchange methods offered'] = list(case[1])
            f['input']['class'] = 'kex-method:' + f['input']['class']
        return r
    kind = case[0]
    fails = []
    def fail(got, want, cls, **kw):
        fails.append({'input': dict({'class': cls, 'case': list(map(str, case))}, **kw), 'got': got, 'want': want})
    if kind == 'rsa':
        _, bits, names = case
        blob = F.rsa_blob(bits)
        cls_sfx = '' if bits %% 16 == 0 else '-size-not-multiple-of-16'
        hk = {n: blob for n in RSA}
        st, out, srv = audit(list(names) + ['ssh-ed25519'], dict(hk, **{'ssh-ed25519': F.ed25519_blob()}), ['-v'])
        if st not in (0, 2, 3):
            fail({'status': st, 'tail': out[-300:]}, 'a documented status', 'status'); return fails
        b = band(bits)
        for n in names:
            line = kex_line(out, n)
            sfx = size_suffix(line, n) if line else None
            if sfx != '%%d-bit' %% bits:
                fail(sfx, '%%d-bit' %% bits, 'rsa-size' + cls_sfx, name=n); continue
            got = size_notes(notes_of(out, 'key', n))
            want = {'fail': [('fail', 'using small %%d-bit modulus' %% bits)], 'warn': [('warn', TWO2K)], 'none': []}[b]
            if got != want:
                fail(got, want, 'rsa-rating' + cls_sfx, name=n)
        fins = [l for l in out.split('\n') if l.startswith('(fin) ')]
        want_f = ['(fin) ssh-ed25519: ' + sha256fp(F.ed25519_blob()), '(fin) ssh-ed25519: ' + md5fp(F.ed25519_blob()) + ' -- [info] do not rely on MD5 fingerprints for server identification; it is insecure for this use case',
                  '(fin) ssh-rsa: ' + sha256fp(blob), '(fin) ssh-rsa: ' + md5fp(blob) + ' -- [info] do not rely on MD5 fingerprints for server identification; it is insecure for this use case']
        if fins != want_f:
            fail(fins, want_f, 'fingerprints')
        # probes: RSA family probed once
        probes = [r[2] for r in srv.requests if r[1] in ('kexdh_init', 'gex_init')]
        if len([p for p in probes if p in RSA]) != 1 and not any('group-exchange' in k for k in KEXS[0]):      # (the modulus probes of the GEX test send GEX_INITs of their own)
            fail(probes, 'exactly one probe for the RSA family', 'rsa-family-fanout')
        st2, out2, _ = audit(list(names) + ['ssh-ed25519'], dict(hk, **{'ssh-ed25519': F.ed25519_blob()}), ['-j'])
        try:
            js = json.loads(out2)
            for n in names:
                e = [k for k in js['key'] if k['algorithm'] == n][0]
                if e.get('keysize') != bits or 'casize' in e or 'ca_algorithm' in e:
                    fail(e, {'keysize': bits}, 'json-rsa-size' + cls_sfx, name=n)
            fp = sorted((f['hostkey'], f['hash_alg'], f['hash']) for f in js['fingerprints'])
            wfp = sorted([('ssh-rsa', 'SHA256', sha256fp(blob)[7:]), ('ssh-rsa', 'MD5', md5fp(blob)[4:]), ('ssh-ed25519', 'SHA256', sha256fp(F.ed25519_blob())[7:]), ('ssh-ed25519', 'MD5', md5fp(F.ed25519_blob())[4:])])
            if fp != wfp:
                fail(fp, wfp, 'json-fingerprints')
        except Exception as e:
            fail(repr(e) + out2[-200:], 'JSON', 'json')
    elif kind == 'fixed':
        _, name = case
        blob = F.ed25519_blob() if name == 'ssh-ed25519' else F.ssh_string(b'ssh-ed448') + F.ssh_string(bytes(range(57)))
        st, out, srv = audit([name], {name: blob}, [])
        line = kex_line(out, name)
        if line is None or size_suffix(line, name) is not None:
            fail(line, 'no size suffix', 'fixed-size-suffix')
        got = size_notes(notes_of(out, 'key', name))
        if got:
            fail(got, 'no size note for a fixed-size key', 'fixed-size-rating')
        fins = [l for l in out.split('\n') if l.startswith('(fin) ')]
        if fins != ['(fin) %%s: %%s' %% (name, sha256fp(blob))]:
            fail(fins, sha256fp(blob), 'fingerprints')
    elif kind == 'cert':
        _, hkind, hbits, cakind, cabits, name = case
        if cakind == 'rsa':
            ca = F.rsa_blob(cabits); ca_label, ca_json = 'RSA', 'ssh-rsa'
        elif cakind == 'ed25519':
            ca = F.ed25519_blob(); cabits = 256; ca_label = ca_json = 'ssh-ed25519'
        else:
            curve = {256: b'nistp256', 384: b'nistp384', 521: b'nistp521'}[cabits]
            ca = F.ecdsa_blob(curve, {256: 65, 384: 97, 521: 133}[cabits]); ca_label = ca_json = 'ecdsa-sha2-' + curve.decode()
        blob = F.cert_blob(hkind, hbits, ca)
        if hkind != 'rsa':
            hbits = 256
        st, out, srv = audit([name], {name: blob}, [])
        if st not in (0, 2, 3):
            fail({'status': st, 'tail': out[-300:]}, 'a documented status', 'status'); return fails
        line = kex_line(out, name)
        sfx = size_suffix(line, name) if line else None
        want_sfx = '%%d-bit cert/%%d-bit %%s CA' %% (hbits, cabits, ca_label)
        cls_sfx = '-ecdsa521' if (cakind == 'ecdsa' and cabits == 521) else ''
        if sfx != want_sfx:
            fail(sfx, want_sfx, 'cert-size' + cls_sfx); return fails
        want = []
        hb = band(hbits) if hkind == 'rsa' else band(hbits, 224, 256)
        if hb == 'fail': want.append(('fail', 'using small %%d-bit hostkey modulus' %% hbits))
        elif hb == 'warn': want.append(('warn', TWO2K if hkind == 'rsa' else ECC))
        cb = band(cabits) if cakind == 'rsa' else band(cabits, 224, 256)
        if cb == 'fail': want.append(('fail', 'using small %%d-bit CA key modulus' %% cabits))
        elif cb == 'warn':
            w = ('warn', TWO2K if cakind == 'rsa' else ECC)
            if w not in want: want.append(w)
        if cakind == 'ecdsa':
            want.append(('fail', NIST))
        got = size_notes(notes_of(out, 'key', name))
        if got != sorted(want):
            fail(got, sorted(want), 'cert-rating')
        fins = [l for l in out.split('\n') if l.startswith('(fin) ')]
        if fins:
            fail(fins, 'no fingerprint for a certificate', 'fingerprints-cert')
        st2, out2, _ = audit([name], {name: blob}, ['-j'])
        try:
            js = json.loads(out2)
            e = [k for k in js['key'] if k['algorithm'] == name][0]
            # fixed-size key types show no size of their own in JSON (as in the text report for plain keys); when present it must be right
            if (e.get('keysize', hbits if hkind != 'rsa' else None), e.get('ca_algorithm'), e.get('casize')) != (hbits, ca_json, cabits):
                fail(e, {'keysize': hbits, 'ca_algorithm': ca_json, 'casize': cabits}, 'json-cert' + cls_sfx)
            if js.get('fingerprints'):
                fail(js['fingerprints'], 'no fingerprint for a certificate', 'json-fingerprints-cert')
        except Exception as e:
            fail(repr(e) + out2[-200:], 'JSON', 'json')
    elif kind == 'mixed':
        # several host keys on one server: each key's entry is about that key only (a certificate probed first must not lend its CA to a plain key)
        _, names = case
        blobs = {'ssh-rsa-cert-v01@openssh.com': F.cert_blob('rsa', 3072, F.rsa_blob(1024)), 'ssh-ed25519-cert-v01@openssh.com': F.cert_blob('ed25519', 256, F.rsa_blob(2048)),
                 'ssh-ed25519': F.ed25519_blob(), 'rsa-sha2-512': F.rsa_blob(4096), 'ssh-rsa': F.rsa_blob(4096)}
        st, out, srv = audit(list(names), {k: blobs[k] for k in names}, [])
        st2, out2, _ = audit(list(names), {k: blobs[k] for k in names}, ['-j'])
        want_sfx = {'ssh-rsa-cert-v01@openssh.com': '3072-bit cert/1024-bit RSA CA', 'ssh-ed25519-cert-v01@openssh.com': '256-bit cert/2048-bit RSA CA',
                    'ssh-ed25519': None, 'rsa-sha2-512': '4096-bit', 'ssh-rsa': '4096-bit'}
        try:
            js = json.loads(out2)
        except Exception as e:
            fail(repr(e), 'JSON', 'json'); return fails
        for nme in names:
            line = kex_line(out, nme)
            sfx = size_suffix(line, nme) if line else None
            if sfx != want_sfx[nme]:
                fail({'name': nme, 'suffix': sfx}, want_sfx[nme], 'mixed-keys-text')
            e = [k for k in js['key'] if k['algorithm'] == nme][0]
            is_cert = '-cert-' in nme
            if (not is_cert and ('casize' in e or 'ca_algorithm' in e)) or (is_cert and e.get('ca_algorithm') != 'ssh-rsa'):
                fail({'name': nme, 'json': {k: v for k, v in e.items() if k != 'notes'}}, 'CA fields only on certificate entries', 'mixed-keys-json')
            got = size_notes(notes_of(out, 'key', nme))
            if not is_cert and any('CA key' in t for _, t in got):
                fail({'name': nme, 'notes': got}, 'no CA note on a plain key', 'mixed-keys-notes')
    return fails
ORDERS = [p for r in (1, 2, 3) for p in itertools.permutations(RSA, r)]
sizes = sorted(set(list(range(512, 16385, 64)) + [2048 + 16 * k for k in range(-8, 9)] + [3072 + 16 * k for k in range(-8, 9)]))
odd = [1023, 2040, 2047, 2049, 2056, 3064, 3071, 3073, 3080, 4095]
work = []
for i, b in enumerate(sizes + odd):
    work.append(('rsa', b, ORDERS[i %% len(ORDERS)]))
for b in (1024, 2048, 3072, 4096):
    for o in ORDERS:
        if ('rsa', b, o) not in work:
            work.append(('rsa', b, o))
work += [('fixed', 'ssh-ed25519'), ('fixed', 'ssh-ed448')]
RSACERT = ['ssh-rsa-cert-v01@openssh.com', 'rsa-sha2-256-cert-v01@openssh.com', 'rsa-sha2-512-cert-v01@openssh.com']
CAS = [('rsa', b) for b in (1024, 1536, 2032, 2040, 2047, 2048, 2064, 3056, 3071, 3072, 3088, 4096, 8192)] + [('ed25519', 256)] + [('ecdsa', b) for b in (256, 384, 521)]
for j, (ck, cb) in enumerate(CAS):
    for i, hb in enumerate((1024, 2032, 2048, 3056, 3072, 4096)):
        work.append(('cert', 'rsa', hb, ck, cb, RSACERT[(i + j) %% 3]))
    work.append(('cert', 'ed25519', 256, ck, cb, 'ssh-ed25519-cert-v01@openssh.com'))
for nd in (1, 2, 5):
    work.append(('debug', nd, ('rsa', 1024, ('ssh-rsa', 'rsa-sha2-512'))))
    work.append(('debug', nd, ('rsa', 4096, ('rsa-sha2-256',))))
    work.append(('debug', nd, ('cert', 'rsa', 2048, 'rsa', 1024, 'ssh-rsa-cert-v01@openssh.com')))
    work.append(('debug', nd, ('fixed', 'ssh-ed25519')))
PROBE_KEXS = ['diffie-hellman-group1-sha1', 'diffie-hellman-group14-sha1', 'diffie-hellman-group14-sha256', 'curve25519-sha256@libssh.org', 'diffie-hellman-group16-sha512',
              'diffie-hellman-group18-sha512', 'diffie-hellman-group-exchange-sha1', 'diffie-hellman-group-exchange-sha256', 'ecdh-sha2-nistp256', 'ecdh-sha2-nistp384', 'ecdh-sha2-nistp521']
for i, ka in enumerate(PROBE_KEXS):
    work.append(('kex', [ka], ('rsa', (2048, 3072, 4096)[i %% 3], ('rsa-sha2-512',))))
    work.append(('kex', ['sntrup761x25519-sha512@openssh.com', ka, 'curve25519-sha256'], ('cert', 'rsa', 3072, 'rsa', 4096, RSACERT[i %% 3])))
work.append(('kex', ['diffie-hellman-group14-sha256'], ('fixed', 'ssh-ed25519')))
for names in (('ssh-rsa-cert-v01@openssh.com', 'ssh-ed25519'), ('ssh-ed25519-cert-v01@openssh.com', 'ssh-ed25519'), ('ssh-rsa-cert-v01@openssh.com', 'rsa-sha2-512', 'ssh-ed25519'),
              ('ssh-ed25519', 'ssh-rsa', 'ssh-rsa-cert-v01@openssh.com', 'ssh-ed25519-cert-v01@openssh.com')):
    work.append(('mixed', names))
res = run_pool(one, work)
failures, per = [], {}
for fl in res:
    for f in fl:
        c = f['input']['class']
        per[c] = per.get(c, 0) + 1
        if per[c] <= 3:
            failures.append(f)
print(json.dumps({'cases': len(work), 'failures': failures, 'per_class': per}))
'''

# ------------------------------------------------------------------------------------------------------------ C09 / C19
SCENARIOS = r'''
import random, struct
KEX = ['curve25519-sha256', 'diffie-hellman-group-exchange-sha256']
KEYS = ['rsa-sha2-512', 'ssh-ed25519']
ENC, MAC = ['aes128-ctr', 'chacha20-poly1305@openssh.com'], ['hmac-sha2-256']
def base_server(faults=None, cert=False, kex=None, keys=None, moduli=(2048, 3072, 4096), select='strict', banner=b'SSH-2.0-OpenSSH_9.9\r\n'):
    keys = keys or (['ssh-rsa-cert-v01@openssh.com', 'ssh-ed25519'] if cert else KEYS)
    hk = {'rsa-sha2-512': F.rsa_blob(3072), 'rsa-sha2-256': F.rsa_blob(3072), 'ssh-rsa': F.rsa_blob(3072), 'ssh-ed25519': F.ed25519_blob(),
          'ssh-rsa-cert-v01@openssh.com': F.cert_blob('rsa', 3072, F.rsa_blob(4096)),
          'ssh-ed25519-cert-v01@openssh.com': F.cert_blob('ed25519', 256, F.ecdsa_blob())}
    return F.Server(kex or KEX, keys, ENC, MAC, hostkeys={k: v for k, v in hk.items() if k in keys}, moduli=list(moduli), select=select, faults=faults or {}, banner=banner)
def stage_map(cert=False):
    """fault-free dry run: which connection carries which stage, and the size of each reply"""
    srv = base_server(cert=cert)
    st, out = F.run_main(['-n', '--skip-rate-test', 's.test'], F.FakeNet({'s.test': srv}))
    stages = {}
    for n, c in enumerate(srv.conn_log):
        if 30 in c['msgs'] and 34 not in c['msgs']:
            stages.setdefault('kexdh_reply', []).append(n)
        if 34 in c['msgs'] and 32 in c['msgs']:
            stages.setdefault('gex_group', []).append(n); stages.setdefault('gex_reply', []).append(n)
    return len(srv.conn_log), stages, st, out
def reply_sizes(cert=False):
    srv = base_server(cert=cert)
    key = (['ssh-rsa-cert-v01@openssh.com'] if cert else ['rsa-sha2-512'])[0]
    blob = srv.hostkeys[key]
    kexdh = F.packet(b'\x1f' + F.ssh_string(blob) + F.ssh_string(b'F' * 32) + F.ssh_string(b'sig'))
    p = (1 << 2047) | 0xf123456789abcdef
    gg = F.packet(b'\x1f' + F.mpint(p) + F.mpint(2))
    gr = F.packet(b'\x21' + F.ssh_string(srv.hostkeys['ssh-ed25519']) + F.mpint(12345) + F.ssh_string(b'sig'))
    return {'kexinit': len(F.packet(srv.kex)), 'banner': len(srv.banner), 'kexdh_reply': len(kexdh), 'gex_group': len(gg), 'gex_reply': len(gr)}
def fault_triples(tier):
    """(cert, connection, stage, fault) -- the fault families of the property's quantifier"""
    rnd = random.Random(20240909)
    out = []
    for cert in (False, True):
        nconn, stages, _, _ = stage_map(cert)
        sizes = reply_sizes(cert)
        conns = {'banner': [0, 1, 3], 'kexinit': [0, 1, 3], 'kexdh_reply': stages.get('kexdh_reply', [])[:2],
                 'gex_group': stages.get('gex_group', [])[:1], 'gex_reply': stages.get('gex_reply', [])[:1]}
        if cert:
            conns = {'kexdh_reply': stages.get('kexdh_reply', [])[:1]}
        for stage, cl in conns.items():
            L = sizes[stage]
            for ci, n in enumerate(cl):
                dense = (ci == 0) or tier == 'thorough'
                step = 1 if dense else 9
                for k in range(0, L, step):
                    out.append((cert, n, stage, ('truncate', k)))
                out += [(cert, n, stage, ('close',)), (cert, n, stage, ('stall',)), (cert, n, stage, ('garbage', 64)), (cert, n, stage, ('garbage', 5)),
                        (cert, n, stage, ('segment', 1)), (cert, n, stage, ('dup',))]
                if stage == 'banner':
                    for bad in (b'SSH-2.0-OpenSSH_7..4', b'SSH-2.0-OpenSSH_..9p1', b'SSH-2.0-OpenSSH_8.', b'SSH-2.0-OpenSSH_.', b'SSH-2.0-dropbear_2019..78', b'SSH-2.0-libssh-.9', b'SSH-2.0-libssh_0.9.', b'SSH-2.0-OpenSSH_9.9p', b'SSH-2.0-OpenSSH_999999999999999999999.1',
                                b'SSH-2.0-OpenSSH_', b'SSH-2.0-', b'SSH-2.0-OpenSSH_8.9p1 ' + b'c' * 300, b'SSH-1.99-OpenSSH_3.9', b'SSH-2.0-PuTTY_Release_0.81', b'SSH-2.0-OpenSSH_for_Windows_9.5'):
                        out.append((cert, n, stage, ('bytes', bad + b'\r\n' + (F.packet(base_server(cert=cert).kex) if n == 0 else b''))))
                    out += [(cert, n, stage, ('prebanner', [b'hello', b'world'])), (cert, n, stage, ('prebanner', [b'x' * 300])),
                            (cert, n, stage, ('bytes', b'SSH-2.0-\xff\xfe\r\n')), (cert, n, stage, ('bytes', b'\r\n\r\n')), (cert, n, stage, ('bytes', b'SSH-1.5-old\r\n')),
                            (cert, n, stage, ('bytes', b'SSH-9.9-future\r\n'))]
                    continue
                out += [(cert, n, stage, ('wrongtype', t)) for t in (1, 3, 21, 80, 255)]
                # correctly framed, payload cut short: every strict prefix of the message
                plen = L - 5 - 4                                      # (upper bound of the payload length: the framed size minus header and minimal padding)
                for k in range(1, plen, (1 if dense else 11)):
                    out.append((cert, n, stage, ('ptrunc', k)))
                # a packet with an empty payload; one whose padding length exceeds the packet length; an empty packet body
                out += [(cert, n, stage, ('bytes', b'\x00\x00\x00\x0c\x0b' + b'\x00' * 11)), (cert, n, stage, ('bytes', struct.pack('>IB', 4, 200) + b'\x00' * 3)),
                        (cert, n, stage, ('bytes', struct.pack('>IB', 0, 0) + b'\x00' * 3)), (cert, n, stage, ('bytes', struct.pack('>IB', 0xffffffff, 7) + b'\x00' * 11))]
                if stage == 'gex_group':
                    for pv in (0, 1, 2, 5, 6, 7, 255):
                        out.append((cert, n, stage, ('bytes', F.packet(b'\x1f' + F.mpint(pv) + F.mpint(2)))))
                    out.append((cert, n, stage, ('bytes', F.packet(b'\x1f' + F.mpint((1 << 2047) | 1) + F.mpint(0)))))
                out += [(cert, n, stage, ('debug-first', 1)), (cert, n, stage, ('debug-first', 5)), (cert, n, stage, ('debug-only', 2))]
                paths = {'kexinit': [(i,) for i in range(10)], 'kexdh_reply': [(0,), (1,), (2,), (0, 0), (0, 1), (0, 2), (0, 3)],
                         'gex_group': [(0,), (1,)], 'gex_reply': [(0,), (1,), (2,), (0, 0), (0, 1)]}[stage]
                for pth in paths:
                    for mode in ('zero', 'minus1', 'plus1', 'huge'):
                        out.append((cert, n, stage, ('setlen', pth, mode)))
                # random byte-level mutations of the framed packet
                for r in range(40 if dense else 8):
                    out.append((cert, n, stage, ('mutate', rnd.randrange(1 << 30))))
    return out
def apply_fault(cert, n, stage, fault):
    if fault[0] == 'mutate':
        rnd = random.Random(fault[1])
        srv = base_server(cert=cert)
        key = 'ssh-rsa-cert-v01@openssh.com' if cert else 'rsa-sha2-512'
        pk = {'kexinit': F.packet(srv.kex),
              'kexdh_reply': F.packet(b'\x1f' + F.ssh_string(srv.hostkeys[key]) + F.ssh_string(b'F' * 32) + F.ssh_string(b'sig')),
              'gex_group': F.packet(b'\x1f' + F.mpint((1 << 2047) | 0xf123456789abcdef) + F.mpint(2)),
              'gex_reply': F.packet(b'\x21' + F.ssh_string(srv.hostkeys['ssh-ed25519']) + F.mpint(12345) + F.ssh_string(b'sig'))}[stage]
        pl = bytearray(F.unframe(pk))
        for _ in range(rnd.choice((1, 1, 2, 4))):
            i = rnd.randrange(len(pl))
            pl[i] = rnd.choice((0, 0xff, pl[i] ^ 0x80, rnd.randrange(256)))
        if rnd.random() < 0.5:
            fault = ('bytes', F.packet(bytes(pl)))            # well framed, mutated payload
        else:
            raw = bytearray(pk)
            raw[rnd.randrange(len(raw))] ^= 1 << rnd.randrange(8)
            fault = ('bytes', bytes(raw))                        # raw bit flip (framing included)
    return base_server(faults={(n, stage): fault}, cert=cert)
def names_reported(out, srv_names):
    missing = []
    for prefix, names in srv_names:
        for nm in names:
            if not any(l.startswith('(%s) %s ' % (prefix, nm)) or l.rstrip() == '(%s) %s' % (prefix, nm) for l in out.split('\n')):
                missing.append((prefix, nm))
    return missing
'''

C09 = COMMON + SCENARIOS.replace('%', '%%') + r'''
def one(tr):
    cert, n, stage, fault = tr
    srv = apply_fault(cert, n, stage, fault)
    net = F.FakeNet({'s.test': srv})
    net.recv_budget = 20000
    st, out = F.run_main(['-n', '--skip-rate-test', 's.test'], net)
    fails = []
    inp = {'cert': cert, 'connection': n, 'stage': stage, 'fault': [str(x)[:60] for x in fault]}
    def fail(got, want, cls):
        fails.append({'input': dict(inp, **{'class': cls}), 'got': got, 'want': want})
    tail = out.strip().split('\n')[-1][:200] if out.strip() else ''
    if st == 99:
        fail('the audit keeps reading from a peer that has nothing more to say (more than 20000 reads)', 'termination', 'hang'); return fails
    if st not in (0, 1, 2, 3):
        # (a traceback inside a handled "[exception] ..." message with status 1 is the documented connection-error path)
        exc = [l for l in out.split('\n') if re.match(r'^[A-Za-z_.]+(Error|Exception)\b', l)]
        fail({'status': st, 'exception': (exc[-1][:160] if exc else tail)}, 'a documented status (0, 1, 2 or 3) and no uncaught exception', 'crash:' + (exc[-1].split(':')[0] if exc else 'status')); return fails
    keys = srv_keys_cert if cert else KEYS
    report = names_reported(out, [('kex', KEX), ('key', keys), ('enc', ENC), ('mac', MAC)])
    any_alg = any(l.startswith(('(kex) ', '(key) ', '(enc) ', '(mac) ')) for l in out.split('\n'))
    if fault[0] == 'segment' and stage != 'banner':
        # delivery in 1-byte segments is not misbehaviour at all: the report is the one of the undisturbed server
        if (st, out) != BASE[cert]:
            a, b = out.split('\n'), BASE[cert][1].split('\n')
            diff = [l for l in a if l not in b][:3] + ['MISSING: ' + l for l in b if l not in a][:3]
            fail({'status': st, 'differs': diff}, 'the same report as without segmentation (status %%d)' %% BASE[cert][0], 'segmentation-changes-report')
    if n >= 1:
        # the initial handshake was well-formed: a complete algorithm report, whatever the probes met
        if report or st not in (0, 2, 3):
            fail({'status': st, 'missing': report[:4], 'last line': tail}, 'complete algorithm report and status 0/2/3 (misbehaviour confined to a probe connection)', 'probe-fault-loses-report')
    elif fault[0] == 'ptrunc' and stage == 'kexinit' and fault[1] < len(F.unframe(F.packet(base_server(cert=cert).kex))):
        # a KEXINIT whose payload is a strict prefix of a valid one is malformed (the reserved word, at least, is missing)
        if any_alg or st != 1:
            fail({'status': st, 'algorithm report': any_alg}, 'no algorithm report and status 1 for a key-exchange-init message cut short', 'malformed-kexinit-reported')
    else:
        if any_alg:
            # (which names a mutated KEXINIT advertises is the peer's business: C01; here only report XOR status 1)
            if st not in (0, 2, 3):
                fail({'status': st}, 'status 0/2/3 with an algorithm report, or no algorithm report with status 1', 'report-with-status-1')
        elif st != 1:
            fail({'status': st, 'last line': tail}, 'status 1 when no algorithm report is shown', 'no-report-status')
    return fails
srv_keys_cert = ['ssh-rsa-cert-v01@openssh.com', 'ssh-ed25519']
BASE = {}
for c_ in (False, True):
    _, _, st_, out_ = stage_map(c_)
    BASE[c_] = (st_, out_)
work = fault_triples(TIER)
res = run_pool(one, work)
# ---- an SSH-1 server: its public-key message truncated at every offset, with a bad checksum, garbage, wrong type
def ssh1_case(arg):
    import struct as _s
    from ssh_audit.writebuf import WriteBuf
    from ssh_audit.ssh1 import SSH1
    kind, cut = arg
    w = WriteBuf()
    w.write_byte(2); w.write(b'\x88' * 8)
    w.write_int(1024).write_mpint1(0x10001).write_mpint1((1 << 1023) | 5)
    w.write_int(2048).write_mpint1(0x10001).write_mpint1((1 << 2047) | 7)
    w.write_int(2); w.write_int(72); w.write_int(36)
    full = w.write_flush()
    def pkt(payload, crc_ok=True):
        pad = b'\x00' * (8 - (len(payload) + 4) %% 8)
        return _s.pack('>I', len(payload) + 4) + pad + payload + _s.pack('>I', SSH1.crc32(pad + payload) if crc_ok else 0x12345678)
    if kind == 'masks':
        # a well-formed message with arbitrary cipher / authentication masks (bits beyond the defined ones included)
        w2 = WriteBuf()
        w2.write_byte(2); w2.write(b'\x88' * 8)
        w2.write_int(1024).write_mpint1(0x10001).write_mpint1((1 << 1023) | 5)
        w2.write_int(2048).write_mpint1(0x10001).write_mpint1((1 << 2047) | 7)
        w2.write_int(2); w2.write_int(cut); w2.write_int(cut)
        data = pkt(w2.write_flush())
    elif kind == 'truncate':
        data = pkt(full[:cut])
    elif kind == 'badcrc':
        data = pkt(full, False)
    elif kind == 'wrongtype':
        data = pkt(bytes([cut]) + full[1:])
    elif kind == 'rawcut':
        data = pkt(full)[:cut]
    else:
        data = bytes((i * 31 + 7) %% 256 for i in range(cut))
    peer = F.Peer('healthy', banner=b'SSH-1.5-OpenSSH_1.2.3\r\n')
    peer.script = lambda n: [peer.banner, data]
    net = F.FakeNet({'s.test': peer})
    net.recv_budget = 20000
    st, out = F.run_main(['-n', '-1', '--skip-rate-test', 's.test'], net)
    if kind == 'masks':
        peer.connections = 0
        net2 = F.FakeNet({'s.test': peer}); net2.recv_budget = 20000
        stj, outj = F.run_main(['-n', '-1', '-j', '--skip-rate-test', 's.test'], net2)
        if stj not in (0, 1, 2, 3):
            st, out = stj, outj
    inp = {'class': 'ssh1', 'stage': 'ssh1-public-key', 'fault': [kind, cut]}
    any_alg = any(l.startswith(('(enc) ', '(aut) ')) for l in out.split('\n'))
    whole = (kind == 'truncate' and cut == len(full)) or kind == 'masks'
    if st not in (0, 1, 2, 3):
        exc = [l for l in out.split('\n') if re.match(r'^[A-Za-z_.]+(Error|Exception)\b', l)]
        return [{'input': dict(inp, **{'class': 'crash:' + (exc[-1].split(':')[0] if exc else 'status')}), 'got': {'status': st, 'exception': exc[-1][:160] if exc else ''}, 'want': 'a documented status and no uncaught exception'}]
    if whole and not any_alg and kind != 'masks':          # (masks without any defined bit give empty lists: nothing to list)
        return [{'input': dict(inp, **{'class': 'ssh1-report-missing'}), 'got': {'status': st}, 'want': 'an SSH-1 algorithm report for a well-formed message'}]
    if not whole and kind in ('truncate', 'rawcut', 'garbage') and (any_alg or st != 1):
        return [{'input': dict(inp, **{'class': 'ssh1-malformed-reported'}), 'got': {'status': st, 'algorithm report': any_alg}, 'want': 'no algorithm report and status 1 for a malformed handshake'}]
    return []
def fallback_case(second):
    peer = F.Peer('healthy', banner=b'SSH-1.5-OpenSSH_1.2.3\r\n')
    peer.script = lambda n: [peer.banner, b'Protocol major versions differ.\n'] if (second == 'always-differs' or n == 0) else [peer.banner] if second == 'close' else [peer.banner, b'\x00' * 40]
    net = F.FakeNet({'s.test': peer})
    net.recv_budget = 20000
    st, out = F.run_main(['-n', '--skip-rate-test', 's.test'], net)
    if st not in (0, 1, 2, 3) or peer.connections > 2:
        return [{'input': {'class': 'hang-or-crash', 'stage': 'ssh1-fallback', 'fault': ['protocol major versions differ', second]}, 'got': {'status': st, 'connections': peer.connections},
                 'want': 'one retry with the SSH-1 identification, then a documented status'}]
    return []
def ratecheck_case(kind):
    # the connection-rate check is part of a standard audit unless skipped: with it, a well-formed peer still gets a complete report and a
    # documented status, whether the check's connections are served, throttled, refused or closed at once
    srv = base_server()
    if kind == 'throttled':
        srv.throttle_after, srv.throttle_answer = 3, b'Exceeded MaxStartups\r\n'
    elif kind == 'closed':
        srv.throttle_after, srv.throttle_answer = 2, None
    net = F.FakeNet({'s.test': srv})
    net.recv_budget = 100000
    st, out = F.run_main(['-n', 's.test'], net)
    missing = names_reported(out, [('kex', KEX), ('key', KEYS), ('enc', ENC), ('mac', MAC)])
    if st not in (0, 2, 3) or missing:
        return [{'input': {'class': 'hang-or-crash' if st not in (0, 1, 2, 3) else 'report-lost', 'stage': 'rate-check', 'fault': [kind]}, 'got': {'status': st, 'missing from the report': missing[:4], 'tail': out.strip().split('\n')[-2:]},
                 'want': 'a complete report and status 0, 2 or 3 (the initial handshake was well-formed)'}]
    return []
res += [fallback_case(x) for x in ('close', 'garbage', 'always-differs')]
res += [ratecheck_case(x) for x in ('served', 'throttled', 'closed')]
ssh1_work = [('masks', m) for m in (0, 1, 0x24, 0x48, 0x7f, 0x80, 0xa4, 0xff, 0x100, 0xffff, 0x7fffffff, 0xffffffff)] + [('truncate', c) for c in range(0, 428)] + [('badcrc', 0)] + [('wrongtype', t) for t in (0, 1, 3, 20, 255)] + [('rawcut', c) for c in range(0, 440, 7)] + [('garbage', n) for n in (1, 7, 8, 16, 64)]
res += run_pool(ssh1_case, ssh1_work)
work = list(work) + ssh1_work
failures, per = [], {}
for fl in res:
    for f in fl:
        c = f['input']['class'] + '@' + f['input']['stage']
        per[c] = per.get(c, 0) + 1
        if per[c] <= 2:
            failures.append(f)
print(json.dumps({'cases': len(work), 'failures': failures, 'per_class': per}))
'''

C19 = COMMON + SCENARIOS.replace('%', '%%') + r'''
from ssh_audit.hostkeytest import HostKeyTest
ALLKEYS = list(HostKeyTest.HOST_KEY_TYPES)
GEXA = ['diffie-hellman-group-exchange-sha256', 'diffie-hellman-group-exchange-sha1']
def footprint(srv, net, skip_rate, st, out, inp):
    fails = []
    def fail(got, want, cls):
        fails.append({'input': dict(inp, **{'class': cls}), 'got': got, 'want': want})
    log = srv.conn_log
    kexreq = [sum(1 for m in c['msgs'] if m in (30, 34)) for c in log]        # key-exchange computation requests per connection
    probes = [i for i, k in enumerate(kexreq) if k > 0]
    hk = [i for i, c in enumerate(log) if 30 in c['msgs'] and 34 not in c['msgs']]
    gx = [i for i, c in enumerate(log) if 34 in c['msgs']]
    quiet = [i for i, c in enumerate(log) if not c.get('sent')]                # nothing sent by the tool: rate-check connections
    nkeys = len(set(k for k in srv_keys(srv) if k in ALLKEYS))          # (distinct names: a server repeating a name does not earn more probes)
    ngex = len(set(k for k in srv_kex(srv) if k in GEXA))
    if log and kexreq[0] != 0:
        fail(log[0]['msgs'], 'no key-exchange request on the initial connection', 'kex-request-on-first-connection')
    if any(k > 1 for k in kexreq) or any(c['msgs'].count(32) > 1 for c in log):
        fail([c['msgs'] for c in log if c['msgs'].count(30) + c['msgs'].count(34) > 1][:2], 'at most one key exchange per connection', 'several-kex-requests-on-one-connection')
    if len(hk) > nkeys + (1 if False else 0):
        fail({'host-key probe connections': len(hk)}, 'at most one per offered host-key type (%%d)' %% nkeys, 'host-key-connections')
    # host-key probing via group exchange sends (34) too: those connections are host-key probes, recognised by the (1024, 2048, 8192) request
    gex_probe = [r for r in srv.requests if r[1] == 'gex_request' and r[2] != (1024, 2048, 8192)]
    if len(gex_probe) > 9 * ngex:
        fail({'group-exchange probe connections': len(gex_probe)}, 'at most 9 per offered group-exchange algorithm', 'gex-connections')
    rate = len(quiet)
    if skip_rate and rate > 0:
        fail({'connections on which nothing was sent': rate}, 'no rate-check connection with --skip-rate-test', 'rate-check-not-skipped')
    if rate > 38:
        fail({'rate-check connections': rate}, 'at most 38', 'rate-check-connections')
    total = len(log)
    bound = 1 + nkeys + 9 * ngex + (0 if skip_rate else 38) + nkeys    # (+nkeys: reconnects of probes that found the connection unusable)
    if total > bound:
        fail({'connections': total}, 'at most %%d' %% bound, 'total-connections')
    # every connection (and every socket object the tool created) is closed by the time main() returns
    open_ = [i for i, c in enumerate(log) if not c['closed']]
    if open_:
        fail({'connections left open': open_[:5], 'of': total}, 'every connection closed at exit', 'left-open')
    return fails
def srv_keys(srv):
    return F_lists(srv)[1]
def srv_kex(srv):
    return F_lists(srv)[0]
def F_lists(srv):
    import struct as _s
    pl = srv.kex; off = 17; out = []
    for _ in range(10):
        n = _s.unpack('>I', pl[off:off + 4])[0]
        out.append(pl[off + 4:off + 4 + n].decode().split(',')); off += 4 + n
    return out
def one(case):
    kind = case[0]
    if kind == 'fault':
        _, cert, n, stage, fault, skip = case
        srv = apply_fault(cert, n, stage, fault)
        inp = {'cert': cert, 'connection': n, 'stage': stage, 'fault': [str(x)[:40] for x in fault], 'skip_rate_test': skip}
        extra = []
    else:
        _, kexl, keys, moduli, style, skip, policy = case
        srv = base_server(kex=list(kexl), keys=list(keys), moduli=moduli, select=style)
        srv.hostkeys = {k: (F.rsa_blob(2048) if 'rsa' in k and 'cert' not in k else F.ed25519_blob() if k == 'ssh-ed25519' else
                            F.cert_blob('rsa', 2048, F.rsa_blob(2048)) if 'rsa' in k else F.cert_blob('ed25519', 256, F.ed25519_blob()) if k.startswith('ssh-ed25519-cert') else None)
                        for k in keys}
        srv.hostkeys = {k: v for k, v in srv.hostkeys.items() if v is not None}
        inp = {'kex': list(kexl), 'keys': len(keys), 'moduli': list(moduli), 'style': style, 'skip_rate_test': skip, 'policy': policy}
        extra = ['-P', 'Hardened OpenSSH Server v9.9 (version 1)'] if policy else []
    net = F.FakeNet({'s.test': srv})
    net.recv_budget = 50000
    st, out = F.run_main(['-n'] + (['--skip-rate-test'] if skip else []) + extra + ['s.test'], net)
    if st == 99:
        return [{'input': dict(inp, **{'class': 'hang'}), 'got': 'more than 50000 reads', 'want': 'termination'}]
    if st == 'hang':
        # "has closed every connection by the time it exits" presupposes that it exits
        return [{'input': dict(inp, **{'class': 'hang'}), 'got': out.strip().split('\n')[-1][:120], 'want': 'the audit exits (the scripted peer never blocks)'}]
    return footprint(srv, net, skip, st, out, inp)
def throttle_case(arg):
    """the connections of the rate check are throttled by the server (no identification string): still at most 38 of them"""
    answer, dup = arg
    kexl = ['curve25519-sha256'] + ['diffie-hellman-group-exchange-sha256'] * (6 if dup else 1) + ['diffie-hellman-group14-sha256']
    probe = base_server(kex=kexl, keys=['ssh-ed25519'])
    st0, out0 = F.run_main(['-n', '--skip-rate-test', 's.test'], F.FakeNet({'s.test': probe}))
    n_probe = len(probe.conn_log)
    srv = base_server(kex=kexl, keys=['ssh-ed25519'])
    srv.throttle_after = n_probe
    srv.throttle_answer = F.PENDING if answer == 'PENDING' else answer      # PENDING: accepted, then silence (the check must still end after its 1.5 s)
    net = F.FakeNet({'s.test': srv})
    net.recv_budget = 200000
    st, out = F.run_main(['-n', 's.test'], net)
    inp = {'class': 'throttled-rate-check', 'rate-check connections answered with': repr(answer)[:40], 'group-exchange name repeated': dup}
    fails = []
    if n_probe > 1 + 1 + 9:
        fails.append({'input': dict(inp, **{'class': 'probe-connections-repeated-name'}), 'got': {'probe connections': n_probe}, 'want': 'at most 1 + 1 host-key type + 9 group-exchange probes'})
    extra = len(srv.conn_log) - n_probe
    if st == 99:
        fails.append({'input': dict(inp, **{'class': 'rate-check-never-ends'}), 'got': 'still polling after 3000 select() calls / 200000 reads', 'want': 'the rate check ends after its time limit (1.5 s)'})
    if extra > 38 or st == 99:
        fails.append({'input': inp, 'got': {'rate-check connections': extra}, 'want': 'at most 38'})
    if any(not c['closed'] for c in srv.conn_log):
        fails.append({'input': dict(inp, **{'class': 'throttled-left-open'}), 'got': 'connections left open', 'want': 'all closed'})
    return fails
def multiaddr_case(n_addr):
    """a name that resolves to several addresses (dual stack, round robin): one connection per connect, the first address that answers"""
    srv = base_server(keys=['ssh-ed25519'])
    net = F.FakeNet({'s.test': srv})
    extra = ['10.77.0.' + str(k + 1) for k in range(n_addr - 1)]
    for ip in extra:
        net.by_ip[ip] = srv
    net.extra_addresses = {'s.test': extra}
    st, out = F.run_main(['-n', '--skip-rate-test', 's.test'], net)
    ref = base_server(keys=['ssh-ed25519'])
    st0, out0 = F.run_main(['-n', '--skip-rate-test', 's.test'], F.FakeNet({'s.test': ref}))
    inp = {'class': 'multi-address-target', 'addresses': n_addr}
    fails = []
    if len(srv.conn_log) != len(ref.conn_log):
        fails.append({'input': inp, 'got': {'connections': len(srv.conn_log)}, 'want': {'connections': len(ref.conn_log)}})
    if any(not c['closed'] for c in srv.conn_log):
        fails.append({'input': dict(inp, **{'class': 'multi-address-left-open'}), 'got': {'left open': len([c for c in srv.conn_log if not c['closed']])}, 'want': 'all closed'})
    return fails
def ssh1_case(second):
    """an SSH-1-only server: it answers an SSH-2 identification with 'Protocol major versions differ.' and closes; the tool retries once with SSH-1"""
    from ssh_audit.writebuf import WriteBuf
    from ssh_audit.ssh1 import SSH1
    import struct as _s
    w = WriteBuf()
    w.write_byte(2); w.write(b'\x88\x99\xaa\xbb\xcc\xdd\xee\xff')
    w.write_int(1024).write_mpint1(0x10001).write_mpint1((1 << 1023) | 12345)
    w.write_int(2048).write_mpint1(0x10001).write_mpint1((1 << 2047) | 54321)
    w.write_int(2); w.write_int(72); w.write_int(36)
    payload = w.write_flush()
    pad = b'\x00' * (-(len(payload) + 4) %% 8)
    pkt = _s.pack('>I', len(payload) + 4) + pad + payload + _s.pack('>I', SSH1.crc32(pad + payload))
    peer = F.Peer('healthy', banner=b'SSH-1.5-OpenSSH_1.2.3\r\n')
    closed = []
    def script(n):
        if second == 'always-differs' or n == 0:
            return [peer.banner, b'Protocol major versions differ.\n']
        return [peer.banner, pkt] if second == 'pkm' else [peer.banner] if second == 'close' else [peer.banner, b'\x00' * 40]
    peer.script = script
    net = F.FakeNet({'s.test': peer})
    net.recv_budget = 50000
    st, out = F.run_main(['-n', '--skip-rate-test', 's.test'], net)
    inp = {'class': 'ssh1-fallback', 'server': 'SSH-1 only', 'second connection': second}
    fails = []
    if st == 99 or peer.connections > 2:
        fails.append({'input': inp, 'got': {'connections': peer.connections, 'status': st}, 'want': 'at most 2 connections (one retry with the SSH-1 identification)'})
    open_ = [i for i, sk in enumerate(net.sockets) if sk.chunks is not None and not sk.closed]
    if open_:
        fails.append({'input': dict(inp, **{'class': 'ssh1-left-open'}), 'got': {'sockets left open': len(open_), 'of': len(net.sockets)}, 'want': 'every connection closed at exit'})
    return fails
work = []
trip = fault_triples(TIER)
for i, (cert, n, stage, fault) in enumerate(trip):
    if n == 0 and stage in ('banner', 'kexinit') and fault[0] == 'truncate' and fault[1] %% 5:
        continue
    if fault[0] == 'truncate' and fault[1] %% 3 and TIER == 'quick':
        continue
    work.append(('fault', cert, n, stage, fault, bool(i %% 4)))
KEXL = [('curve25519-sha256',), ('curve25519-sha256', GEXA[0]), (GEXA[0], GEXA[1], 'diffie-hellman-group14-sha256'), (GEXA[1],), ('sntrup761x25519-sha512@openssh.com',),
        ('diffie-hellman-group1-sha1', GEXA[0], GEXA[1])]
KEYL = [('ssh-ed25519',), ('rsa-sha2-512', 'rsa-sha2-256', 'ssh-rsa', 'ssh-ed25519'), tuple(ALLKEYS), ('ssh-rsa-cert-v01@openssh.com', 'ssh-ed25519-cert-v01@openssh.com', 'ssh-dss')]
MODS = [((), 'strict'), ((2048, 3072, 4096), 'strict'), ((512, 768, 1024, 1536, 2048, 3072, 4096, 6144, 8192), 'roundup'), ((3072,), 'openssh-fallback'), ((8192,), 'roundup'), ((1024,), 'strict')]
for kexl in KEXL:
    for keys in KEYL:
        for moduli, style in MODS:
            for skip in (False, True):
                work.append(('cfg', kexl, keys, moduli, style, skip, False))
            work.append(('cfg', kexl, keys, moduli, style, True, True))
res = run_pool(one, work)
for second in ('pkm', 'close', 'garbage', 'always-differs'):
    res.append(ssh1_case(second))
work.extend(['ssh1'] * 4)
for n_addr in (2, 3):
    res.append(multiaddr_case(n_addr))
work.extend(['multiaddr'] * 2)
thr = [(a, d) for a in (b'Exceeded MaxStartups\r\n', None, b'\x00\x01garbage', b'HTTP/1.1 400\r\n', socket.timeout('timed out'), 'PENDING') for d in (False, True)]
res += run_pool(throttle_case, thr)
work.extend(thr)
failures, per = [], {}
for fl in res:
    for f in fl:
        c = f['input']['class']
        per[c] = per.get(c, 0) + 1
        if per[c] <= 3:
            failures.append(f)
print(json.dumps({'cases': len(work), 'failures': failures, 'per_class': per}))
'''
