"""Contracts for C10 (wire codecs).  Clauses are Python expressions over the function's parameters, `result`,
`old.<param>` (entry value), the `let` names (entry-state abbreviations) and the spec functions of spec.py."""
import z3
from pyvc.contracts import Contract
from pyvc.driver import Unit
from pyvc.values import fresh
from pyvc.state import mk

IMPORTS = "from ssh_audit.readbuf import ReadBuf\nfrom ssh_audit.writebuf import WriteBuf\n"


def setup_readbuf(ip, st, fr, case):
    data = fresh('data', 'bytes')
    pos = fresh('pos', 'int')
    st.assume(pos.t >= 0)
    st.assume(pos.t <= z3.Length(data.t))
    buf = st.new_obj('<BytesIO>', {'data': data, 'pos': pos})
    fr['self'] = st.new_obj(case.get('$cls', 'ReadBuf'), {'_buf': buf, '_len': mk(z3.Length(data.t), 'int')})
    return {'g_data': data, 'g_pos': pos}


def setup_writebuf(ip, st, fr, case):
    data = fresh('wdata', 'bytes')
    buf = st.new_obj('<BytesIO>', {'data': data, 'pos': mk(z3.Length(data.t), 'int')})
    fr['self'] = st.new_obj(case.get('$cls', 'WriteBuf'), {'_wbuf': buf})
    return {'g_w': data}


def m_send(ip, st, args, kwargs):
    """assumed model of SSH_Socket.send: the bytes handed to the socket are recorded in ghost `sent`"""
    st.ghost['sent'] = st.ghost['sent'] + (args[1],)
    return (0, None)


def setup_socket_w(ip, st, fr, case):
    data = fresh('wdata', 'bytes')
    buf = st.new_obj('<BytesIO>', {'data': data, 'pos': mk(z3.Length(data.t), 'int')})
    fr['self'] = st.new_obj('SSH_Socket', {'_wbuf': buf})
    st.ghost['sent'] = ()
    ip.models['SSH_Socket.send'] = m_send
    return {'g_w': data}


def setup_socket_r(ip, st, fr, case):
    from pyvc.values import ClassRef
    out = ip.instantiate(ClassRef('OutputBuffer'), [], {}, st)
    fr = st.frame          # (inlining a call replaces the state's frame dictionaries)
    setup_readbuf(ip, st, fr, dict(case, **{'$cls': 'SSH_Socket'}))
    o = st.mut(fr['self'])
    o.f['_SSH_Socket__outputbuffer'] = out
    o.f['_SSH_Socket__block_size'] = 8
    o.f['_SSH_Socket__sock'] = None
    fr['g_pl'], fr['g_pad'], fr['g_padbytes'] = fresh('pl', 'bytes'), fresh('pad', 'int'), fresh('padbytes', 'bytes')
    return {'g_pl': fr['g_pl'], 'g_pad': fr['g_pad'], 'g_padbytes': fr['g_padbytes']}


def setup_kex_write(ip, st, fr, case):
    names = ['kex', 'key', 'cenc', 'senc', 'cmac', 'smac', 'ccomp', 'scomp', 'clang', 'slang']
    g = {}
    for n in names:
        g[n] = st.new_symlist(fresh(n, ('list', 'str')).t, 'str')
    cookie, follows, unused = fresh('cookie', 'bytes'), fresh('follows', 'bool'), fresh('unused', 'int')
    cli = st.new_obj('SSH2_KexParty', {'_SSH2_KexParty__enc': g['cenc'], '_SSH2_KexParty__mac': g['cmac'],
                                       '_SSH2_KexParty__compression': g['ccomp'], '_SSH2_KexParty__languages': g['clang']})
    srv = st.new_obj('SSH2_KexParty', {'_SSH2_KexParty__enc': g['senc'], '_SSH2_KexParty__mac': g['smac'],
                                       '_SSH2_KexParty__compression': g['scomp'], '_SSH2_KexParty__languages': g['slang']})
    fr['self'] = st.new_obj('SSH2_Kex', {'_SSH2_Kex__cookie': cookie, '_SSH2_Kex__kex_algs': g['kex'], '_SSH2_Kex__key_algs': g['key'],
                                         '_SSH2_Kex__client': cli, '_SSH2_Kex__server': srv, '_SSH2_Kex__follows': follows,
                                         '_SSH2_Kex__unused': unused})
    data = fresh('wdata', 'bytes')
    buf = st.new_obj('<BytesIO>', {'data': data, 'pos': mk(z3.Length(data.t), 'int')})
    fr['wbuf'] = st.new_obj('WriteBuf', {'_wbuf': buf})
    for n in names:
        fr['g_' + n] = g[n]
    fr['g_cookie'], fr['g_follows'], fr['g_unused'] = cookie, follows, unused
    return {}


RB_SETUP = "rb = ReadBuf(g_data); _ = rb.read(g_pos)"
WB_SETUP = "wb = WriteBuf(); _ = wb.write(g_w)"
RB_LET = {'D': 'self._buf.data', 'P': 'self._buf.pos'}
RB_REQ = ["0 <= self._buf.pos and self._buf.pos <= len(self._buf.data) and self._len == len(self._buf.data)"]
UNREAD = "len(D) - P"
RB_FRAME = "self._buf.data == D and self._len == len(D) and P <= self._buf.pos and self._buf.pos <= len(D)"
WB_LET = {'W': 'self._wbuf.data'}
WB_REQ = ["self._wbuf.pos == len(self._wbuf.data)"]
WB_POS = "self._wbuf.pos == len(self._wbuf.data)"


def units():
    U = []

    def rb(name, **kw):
        harness = dict(imports=IMPORTS, setup=RB_SETUP, call=kw.pop('call'), self='rb')
        kw.setdefault('let', RB_LET)
        kw['requires'] = RB_REQ + list(kw.get('requires', []))
        kw.setdefault('modifies', ['self._buf'])
        U.append(Unit(Contract('ReadBuf.' + name, setup=setup_readbuf, mode='contract', **kw), harness=harness))

    def wb(name, **kw):
        harness = dict(imports=IMPORTS, setup=WB_SETUP, call=kw.pop('call'), self='wb')
        kw.setdefault('let', WB_LET)
        kw['requires'] = WB_REQ + list(kw.get('requires', []))
        kw.setdefault('modifies', ['self._wbuf'])
        kw.setdefault('result', lambda ip, st: st.frame['self'])
        U.append(Unit(Contract('WriteBuf.' + name, setup=setup_writebuf, mode='contract', **kw), harness=harness))

    # ------------------------------------------------------------------ decoders (ReadBuf)
    rb('read', params=dict(size='nat'), call='rb.read(size)', raises={}, result='bytes',
       ensures=["result == D[P:P + size]", "self._buf.pos == P + len(result)", RB_FRAME])
    rb('read_byte', call='rb.read_byte()', raises={'struct.error': UNREAD + " < 1"}, result='int',
       ensures=["result == D[P]", "0 <= result and result < 256", "self._buf.pos == P + 1", RB_FRAME])
    rb('read_bool', call='rb.read_bool()', raises={'struct.error': UNREAD + " < 1"}, result='bool',
       ensures=["result == (D[P] != 0)", "self._buf.pos == P + 1", RB_FRAME])
    rb('read_int', call='rb.read_int()', raises={'struct.error': UNREAD + " < 4"}, result='int',
       ensures=["result == val_be(D[P:P + 4])", "0 <= result and result < 4294967296", "self._buf.pos == P + 4", RB_FRAME],
       use=["val_be_word(D[P:P + 4])"])
    rb('read_string', call='rb.read_string()', raises={'struct.error': UNREAD + " < 4"}, result='bytes',
       ensures=["result == D[P + 4:P + 4 + val_be(D[P:P + 4])]", "self._buf.pos == P + 4 + len(result)", RB_FRAME],
       use=["val_be_word(D[P:P + 4])"])
    U.append(Unit(Contract(
        'ReadBuf._parse_mpint', params=dict(v='bytes'), mode='contract', result='int',
        cases=[dict(pad=b'\x00', f='>I'), dict(pad=b'\xff', f='>i')],
        requires=["(pad == b'\\x00' and f == '>I') or (pad == b'\\xff' and f == '>i')",
                  "implies(f == '>i', len(v) > 0 and v[0] >= 128)"],
        ensures=["result == (val_be(old.v) if f == '>I' else val_be(old.v) - pow256(len(old.v)))"],
        raises={},
        use=["val_be_concat(rep(pad, 4 - len(old.v) % 4), old.v)", "val_be_ff(4 - len(old.v) % 4)", "val_be_00(4 - len(old.v) % 4)",
             "pow256_add(4 - len(old.v) % 4, len(old.v))"],
        loops={1: dict(header='for i in range(0, len(v), 4)', invariant=["i % 4 == 0 and 0 <= i and i <= len(v) + 3",
                                  "r == (val_be(v[:i]) if (f == '>I' or i == 0) else val_be(v[:i]) - pow256(i))"],
                       use_head=["rep_first(pad, 4 - len(old.v) % 4)"],
                       use=["val_be_concat(v[:i], v[i:i+4])", "val_be_word(v[i:i+4])", "pow256_4(len(v[i:i+4]))",
                            "pow256_add(i, 4)"])}),
        harness=dict(imports=IMPORTS, call="ReadBuf._parse_mpint(v, pad, f)")))
    # RFC 4251 section 5 mpint: two's complement, big-endian; the empty string is zero
    rb('read_mpint2', call='rb.read_mpint2()', raises={'struct.error': UNREAD + " < 4"}, result='int',
       let=dict(RB_LET, S="self._buf.data[self._buf.pos + 4:self._buf.pos + 4 + val_be(self._buf.data[self._buf.pos:self._buf.pos + 4])]"),
       ensures=["result == (0 if len(S) == 0 else sval_be(S))", "self._buf.pos == P + 4 + len(S)", RB_FRAME])
    # SSH-1 mpint: 16-bit bit count, then ceil(bits/8) bytes, unsigned big-endian
    rb('read_mpint1', call='rb.read_mpint1()', raises={'struct.error': UNREAD + " < 2"}, result='int',
       let=dict(RB_LET, NB="(val_be(self._buf.data[self._buf.pos:self._buf.pos + 2]) + 7) // 8"),
       ensures=["result == val_be(D[P + 2:P + 2 + NB])", "self._buf.pos == P + 2 + len(D[P + 2:P + 2 + NB])", RB_FRAME],
       use=["val_be_half(D[P:P + 2])"])

    # ------------------------------------------------------------------ encoders (WriteBuf)
    wb('write', params=dict(data='bytes'), call='wb.write(data)', raises={},
       ensures=["self._wbuf.data == W + data", WB_POS, "result is self"])
    wb('write_byte', params=dict(v='int'), call='wb.write_byte(v)', raises={'struct.error': "v < 0 or v > 255"},
       ensures=["self._wbuf.data == W + u8(v)", WB_POS, "result is self"])
    wb('write_bool', params=dict(v='bool'), call='wb.write_bool(v)', raises={},
       ensures=["self._wbuf.data == W + enc_bool(v)", WB_POS, "result is self"])
    wb('write_int', params=dict(v='int'), call='wb.write_int(v)', raises={'struct.error': "v < 0 or v > 4294967295"},
       ensures=["self._wbuf.data == W + u32(v)", WB_POS, "result is self"])
    wb('write_string', params=dict(v='bytes'), call='wb.write_string(v)', raises={'struct.error': "len(as_bytes(v)) > 4294967295"},
       ensures=["self._wbuf.data == W + enc_string(as_bytes(v))", WB_POS, "result is self"])
    U.append(Unit(Contract('WriteBuf.write_flush', setup=setup_writebuf, mode='contract', let=WB_LET, requires=WB_REQ,
                           modifies=['self._wbuf'], result='bytes', raises={},
                           ensures=["result == W", "self._wbuf.data == b''", "self._wbuf.pos == 0"]),
                  harness=dict(imports=IMPORTS, setup=WB_SETUP, call='wb.write_flush()', self='wb')))
    wb('write_list', params=dict(v='list[str]'), call='wb.write_list(v)',
       raises={'struct.error': "len(utf8(join(',', v))) > 4294967295"},
       ensures=["self._wbuf.data == W + enc_namelist(v)", WB_POS, "result is self"])
    rb('read_list', call='rb.read_list()', raises={'struct.error': UNREAD + " < 4"}, result='list[str]',
       ensures=["result == dec_namelist(fld(D, P))", "self._buf.pos == nxt(D, P)", RB_FRAME],
       use=["val_be_word(D[P:P + 4])"])
    # ------------------------------------------------------------------ KEXINIT (RFC 4253 section 7.1): field order
    U.append(Unit(Contract(
        'SSH2_Kex.write', setup=setup_kex_write, let={'W': 'wbuf._wbuf.data'},
        requires=["wbuf._wbuf.pos == len(wbuf._wbuf.data)"], may_raise={'struct.error': "True"},
        ensures=["wbuf._wbuf.data == W + g_cookie + enc_namelist(g_kex) + enc_namelist(g_key) + enc_namelist(g_cenc)"
                 " + enc_namelist(g_senc) + enc_namelist(g_cmac) + enc_namelist(g_smac) + enc_namelist(g_ccomp)"
                 " + enc_namelist(g_scomp) + enc_namelist(g_clang) + enc_namelist(g_slang) + enc_bool(g_follows) + u32(g_unused)"]),
        harness=None))
    U.append(Unit(Contract(
        'SSH2_Kex.parse', params=dict(payload='bytes', outputbuffer='const:None'), raises={}, may_raise={'struct.error': "True"},
        opaque=('fld', 'nxt'),
        let={'P1': '16', 'P2': 'nxt(payload, P1)', 'P3': 'nxt(payload, P2)', 'P4': 'nxt(payload, P3)', 'P5': 'nxt(payload, P4)',
             'P6': 'nxt(payload, P5)', 'P7': 'nxt(payload, P6)', 'P8': 'nxt(payload, P7)', 'P9': 'nxt(payload, P8)',
             'P10': 'nxt(payload, P9)', 'P11': 'nxt(payload, P10)'},
        ensures=["result.cookie == payload[0:16]",
                 "result.kex_algorithms == dec_namelist(fld(payload, P1))",
                 "result.key_algorithms == dec_namelist(fld(payload, P2))",
                 "result.client.encryption == dec_namelist(fld(payload, P3))",
                 "result.server.encryption == dec_namelist(fld(payload, P4))",
                 "result.client.mac == dec_namelist(fld(payload, P5))",
                 "result.server.mac == dec_namelist(fld(payload, P6))",
                 "result.client.compression == dec_namelist(fld(payload, P7))",
                 "result.server.compression == dec_namelist(fld(payload, P8))",
                 "result.client.languages == dec_namelist(fld(payload, P9))",
                 "result.server.languages == dec_namelist(fld(payload, P10))",
                 "result.follows == (payload[P11] != 0)",
                 "result.unused == val_be(payload[P11 + 1:P11 + 5])"]),
        harness=None))
    # ------------------------------------------------------------------ RFC 4253 section 6 framing
    U.append(Unit(Contract(
        'SSH_Socket.send_packet', setup=setup_socket_w, let={'PAY': 'self._wbuf.data'},
        requires=WB_REQ + ["len(self._wbuf.data) < 4294967280"], raises={},      # the uint32 length field bounds the payload
        ensures=["len(ghost('sent')) == 1",
                 "len(ghost('sent')[0]) % 8 == 0",                                            # total length multiple of 8
                 "len(ghost('sent')[0]) >= 16",
                 "ghost('sent')[0][0:4] == u32(len(ghost('sent')[0]) - 4)",                   # packet_length field
                 "ghost('sent')[0][4] >= 4 and ghost('sent')[0][4] <= 255",                   # at least four bytes of padding
                 "len(ghost('sent')[0]) == 4 + 1 + len(PAY) + ghost('sent')[0][4]",           # consistent length fields
                 "ghost('sent')[0][5:5 + len(PAY)] == PAY",                                   # payload unchanged
                 "self._wbuf.data == b''"],
        cuts={"data = struct.pack('>Ib', plen, padding) + payload + pad_bytes":
              ["4 <= padding and padding <= 11", "len(pad_bytes) == padding", "payload == PAY", "plen == len(PAY) + padding + 1"],
              "return self.send(data)":
              ["len(data) == 5 + len(PAY) + padding", "data[4] == padding", "data[0:4] == u32(plen)", "data[5:5 + len(PAY)] == PAY"]}),
        harness=None))
    U.append(Unit(Contract(
        'SSH_Socket.read_packet', setup=setup_socket_r, cases=[dict(sshv=2)], let=RB_LET,
        requires=RB_REQ + ["len(g_pl) >= 1 and 0 <= g_pad and g_pad < 256 and len(g_padbytes) == g_pad",
                           "(5 + len(g_pl) + g_pad) % 8 == 0 and 1 + len(g_pl) + g_pad < 4294967296",
                           "self._buf.data[self._buf.pos:] == u32(1 + len(g_pl) + g_pad) + u8(g_pad) + g_pl + g_padbytes"],
        raises={'SystemExit': "False"},
        ensures=["result == (g_pl[0], g_pl[1:])", "self._buf.pos == len(D)", "self._buf.data == D"],
        use_entry=["u32_val(1 + len(g_pl) + g_pad)"],
        cuts={"if check_size % self.__block_size != 0:": ["packet_length == 1 + len(g_pl) + g_pad", "padding_length == g_pad",
                                                          "payload_length == len(g_pl)", "self._buf.pos == P + 5", "self._buf.data == D"],
              "packet_type = ord(payload[0:1])": ["payload == g_pl", "self._buf.pos == P + 5 + len(g_pl)", "self._buf.data == D"]}),
        harness=None))
    # ------------------------------------------------------------------ round trips (lemmas over the contracts above)
    def rt(name, params, requires, ensures, use=()):
        U.append(Unit(Contract('rt_codec:' + name, params=params, requires=requires, ensures=ensures, raises={}, use=use),
                      harness=None))
    rt('rt_byte', dict(v='int'), ["0 <= v and v < 256"], ["result == v"])
    rt('rt_bool', dict(v='bool'), [], ["result == v"])
    rt('rt_int', dict(v='int'), ["0 <= v and v < 4294967296"], ["result == v"], use=["u32_val(v)"])
    rt('rt_string', dict(v='bytes'), ["len(v) < 4294967296"], ["result == v"], use=["u32_val(len(v))"])
    rt('rt_int_int', dict(a='int', b='int'), ["0 <= a and a < 4294967296 and 0 <= b and b < 4294967296"],
       ["result == (a, b)"], use=["u32_val(a)", "u32_val(b)"])
    rt('rt_string_byte', dict(s='bytes', b='int'), ["len(s) < 4294967296 and 0 <= b and b < 256"],
       ["result == (s, b)"], use=["u32_val(len(s))"])
    return U


def stubs():
    """assumed contracts of the socket layer (external: any behaviour allowed by these contracts is covered)"""
    return [Contract('SSH_Socket.ensure_read', mode='contract', let=RB_LET, requires=[], modifies=['self._buf', 'self._len'],
                     may_raise={'InsufficientReadException': "len(D) - P < size"},
                     ensures=["self._buf.pos == P", "self._buf.data[:len(D)] == D", "len(self._buf.data) >= len(D)",
                              "self._len == len(self._buf.data)", "len(self._buf.data) - P >= size",
                              "implies(len(D) - P >= size, self._buf.data == D)"])]


LEMMAS = ['u32_val', 'u32_bytes', 'u32_arith', 'rep_len', 'rep_first', 'val_be_ff', 'val_be_00', 'concat_init', 'val_be_concat', 'val_be_word', 'val_be_half', 'pow256_4', 'pow256_add']


# ---------------------------------------------------------------------------------------------------- bounded stand-ins
# (never counted as proved) for the parts of C10 that have no discharged contract yet: mpint *encoders*
# (WriteBuf._create_mpint), whole-message round trips, the SSH-1 CRC.
NATIVE_ROUNDTRIP = r'''
import json, itertools, random
from ssh_audit.readbuf import ReadBuf
from ssh_audit.writebuf import WriteBuf
from ssh_audit.ssh2_kex import SSH2_Kex
from ssh_audit.ssh2_kexparty import SSH2_KexParty
from ssh_audit.ssh1_publickeymessage import SSH1_PublicKeyMessage
from ssh_audit.outputbuffer import OutputBuffer
cases, failures = 0, []
def fail(inp, got, want):
    if len(failures) < 8:
        failures.append({'input': inp, 'got': got, 'want': want})
# --- mpints of either sign: dense window around 0 and around +-2^k, every 32-bit word pattern at the boundaries
vals = set(range(-300, 301))
for k in list(range(1, 130)) + [255, 256, 257, 511, 512, 1023, 1024, 2047, 2048, 4095, 4096, 8191, 8192]:
    for d in (-2, -1, 0, 1, 2):
        vals.add(2 ** k + d); vals.add(-(2 ** k) + d)
for hi in (0x7f, 0x80, 0xff, 0x01):
    for lo in (0x00000000, 0x7fffffff, 0x80000000, 0xffffffff):
        for words in (1, 2, 3):
            v = hi
            for _ in range(words):
                v = (v << 32) | lo
            vals.add(v); vals.add(-v)
rnd = random.Random(1234)
for _ in range(300):
    vals.add(rnd.getrandbits(rnd.randrange(1, 600)) * rnd.choice((1, -1)))
def rfc_mpint2(n):
    # RFC 4251 section 5: two's complement, big-endian, minimal length, zero is the empty string
    if n == 0:
        return b''
    l = (n.bit_length() // 8) + 1 if n > 0 else ((n + 1).bit_length() // 8) + 1
    return n.to_bytes(l, 'big', signed=True)
for n in sorted(vals):
    cases += 1
    w = WriteBuf(); w.write_mpint2(n); p = w.write_flush()
    body = rfc_mpint2(n)
    want = len(body).to_bytes(4, 'big') + body
    if p != want:
        fail({'mpint2': str(n)}, p.hex(), want.hex())
    r = ReadBuf(p).read_mpint2()
    if r != n:
        fail({'mpint2 round trip': str(n)}, str(r), str(n))
    if n >= 0:
        w = WriteBuf(); w.write_mpint1(n); p = w.write_flush()
        body = n.to_bytes((n.bit_length() + 7) // 8, 'big')
        want = n.bit_length().to_bytes(2, 'big') + body if n.bit_length() < 65536 else None
        if want is not None and p != want:
            fail({'mpint1': str(n)}, p.hex(), want.hex())
        r = ReadBuf(p).read_mpint1()
        if r != n:
            fail({'mpint1 round trip': str(n)}, str(r), str(n))
# --- whole KEXINIT: ten pairwise different name-lists, parse(payload) field-equal and payload reproduced
out = OutputBuffer()
names = [['kexA', 'kexB'], ['keyA'], ['cencA', 'cencB', 'cencC'], ['sencA'], ['cmacA'], ['smacA', 'smacB'], ['ccompA'], ['scompA', 'scompB'], ['en-US'], ['de-DE', 'fr-FR']]
for rot in range(10):
    l = names[rot:] + names[:rot]
    for follows, unused in ((False, 0), (True, 7), (False, 0xffffffff)):
        cases += 1
        cli = SSH2_KexParty(l[2], l[4], l[6], l[8]); srv = SSH2_KexParty(l[3], l[5], l[7], l[9])
        k = SSH2_Kex(out, bytes(range(16)), l[0], l[1], cli, srv, follows, unused)
        p = k.payload
        k2 = SSH2_Kex.parse(out, p)
        got = [k2.cookie, k2.kex_algorithms, k2.key_algorithms, k2.client.encryption, k2.server.encryption, k2.client.mac, k2.server.mac, k2.client.compression, k2.server.compression, k2.client.languages, k2.server.languages, k2.follows, k2.unused]
        want = [bytes(range(16))] + l + [follows, unused]
        if got != want:
            fail({'kexinit fields': l}, repr(got), repr(want))
        if k2.payload != p:
            fail({'kexinit re-encode': l}, k2.payload.hex(), p.hex())
# --- name-lists with empty names (legal on the wire: consecutive commas), single empty name, long lists: encode/decode are inverse
for l in (['a', '', 'b'], ['', ''], [''], ['', 'a'], ['a', ''], ['x'] * 50, ['a,b'.replace(',', '-'), 'c']):
    cases += 1
    w = WriteBuf(); w.write_list(l); p = w.write_flush()
    if p != len(','.join(l).encode()).to_bytes(4, 'big') + ','.join(l).encode():
        fail({'write_list': l}, p.hex(), 'uint32 length + names joined by commas')
    r = ReadBuf(p).read_list()
    if r != l:
        fail({'name-list round trip': l}, r, l)
    w = WriteBuf(); w.write_list(ReadBuf(p).read_list()); p2 = w.write_flush()
    if p2 != p:
        fail({'name-list re-encode': l}, p2.hex(), p.hex())
# --- packets through the real socket classes over a loopback byte pipe: what send_packet emits, read_packet returns, however the bytes are segmented
import struct as _st
from ssh_audit.ssh_socket import SSH_Socket
from ssh_audit.ssh1 import SSH1
class Pipe:
    def __init__(self, seg):
        self.buf, self.seg = b'', seg
    def send(self, data):
        self.buf += bytes(data); return len(data)
    sendall = send
    def recv(self, n, flags=0):
        k = min(n, self.seg, len(self.buf))
        out, self.buf = self.buf[:k], self.buf[k:]
        return out
    def settimeout(self, t): pass
    def close(self): pass
def rfc_decode(stream):
    # independent RFC 4253 section 6 reader
    plen, pad = _st.unpack('>IB', stream[:5])
    assert (4 + plen) % 8 == 0 and 4 <= pad <= 255 and plen >= pad + 1, (plen, pad)
    return stream[5:4 + plen - pad], stream[4 + plen:]
for seg in (1 << 20, 1, 7, 512, 2048, 4095):
    for sizes in ([1], [5, 13], [100, 4095, 4096, 1], [8191, 3], [20000], [2, 2, 2, 2]):
        cases += 1
        s_ = SSH_Socket(OutputBuffer(), 'localhost', 22)
        pipe = Pipe(seg)
        s_._SSH_Socket__sock = pipe
        payloads = [bytes([30 + (i % 5)]) + bytes((j * 7 + i) % 256 for j in range(n - 1)) for i, n in enumerate(sizes)]
        for pl in payloads:
            s_.write(pl); s_.send_packet()
        rest = pipe.buf
        for pl in payloads:
            got, rest = rfc_decode(rest)
            if got != pl:
                fail({'send_packet framing': len(pl)}, got[:16].hex(), pl[:16].hex())
        for pl in payloads:
            try:
                t, body = s_.read_packet(2)
            except BaseException as e:
                t, body = 'raised ' + type(e).__name__, b''
            if (t, body) != (pl[0], pl[1:]):
                fail({'send_packet -> read_packet': {'payload bytes': len(pl), 'segment size': seg, 'sizes': sizes}}, {'type': t, 'bytes': len(body)}, {'type': pl[0], 'bytes': len(pl) - 1})
                break
# --- SSH-1 packets with non-zero padding: the CRC-32 covers padding and payload
import binascii
def ssh1_crc(data):
    # SSH-1 CRC-32: the IEEE polynomial with zero initial value and no final inversion
    return binascii.crc32(data, 0xffffffff) ^ 0xffffffff
for n, padbyte in ((9, 0x00), (9, 0x55), (15, 0xff), (40, 0xa7), (5, 0x01), (1, 0x00), (1, 0x3c), (2, 0x00), (3, 0x7f), (4, 0x00), (6, 0x10), (7, 0x00), (8, 0x99), (12, 0x00), (13, 0x42)):      # (n == 1: a message with no data, the shortest legal packet: length field 5)
    for good in (True, False):
        cases += 1
        payload = bytes([2]) + bytes((i * 11 + 3) % 256 for i in range(n - 1))
        padding = bytes([padbyte]) * (8 - (len(payload) + 4) % 8)
        crc = ssh1_crc(padding + payload) if good else ssh1_crc(payload) ^ (0 if padbyte else 1)
        raw = _st.pack('>I', len(payload) + 4) + padding + payload + _st.pack('>I', crc)
        s_ = SSH_Socket(OutputBuffer(), 'localhost', 22)
        s_._SSH_Socket__sock = Pipe(1 << 20); s_._SSH_Socket__sock.buf = raw
        try:
            t, body = s_.read_packet(1)
            outcome = (t, body)
        except SystemExit as e:
            outcome = 'rejected'
        want = (2, payload[1:]) if good else 'rejected'
        if outcome != want and not (not good and padbyte == 0 and ssh1_crc(payload) == ssh1_crc(padding + payload)):
            fail({'ssh1 packet': {'payload bytes': n, 'padding byte': padbyte, 'crc over padding+payload': good}}, repr(outcome)[:60], repr(want)[:60])
if SSH1.crc32(b'\x55\x55\x02abc') != ssh1_crc(b'\x55\x55\x02abc'):
    fail({'ssh1 crc': 'reference'}, SSH1.crc32(b'\x55\x55\x02abc'), ssh1_crc(b'\x55\x55\x02abc'))
# --- SSH-1 public key message
for skey, hkey, flags, cm, am in (((768, 0x10001, 0xc0ffee), (1024, 0x23, 0xdeadbeef1234567), 2, 0x48, 0x2c), ((1, 1, 1), (2, 3, 2 ** 600 + 1), 0, 0, 0), ((0xffffffff, 0, 0), (7, 2 ** 64, 2 ** 65 - 1), 0xffffffff, 0xffffffff, 0xffffffff)):
    cases += 1
    m = SSH1_PublicKeyMessage(b'\x01\x02\x03\x04\x05\x06\x07\x08', skey, hkey, flags, cm, am)
    p = m.payload
    m2 = SSH1_PublicKeyMessage.parse(p)
    got = ((m2.server_key_bits, m2.server_key_public_exponent, m2.server_key_public_modulus), (m2.host_key_bits, m2.host_key_public_exponent, m2.host_key_public_modulus), m2.protocol_flags, m2.supported_ciphers_mask, m2.supported_authentications_mask, m2.cookie)
    want = (skey, hkey, flags, cm, am, b'\x01\x02\x03\x04\x05\x06\x07\x08')
    if got != want:
        fail({'pkm': repr((skey, hkey))}, repr(got), repr(want))
    if m2.payload != p:
        fail({'pkm re-encode': repr((skey, hkey))}, m2.payload.hex(), p.hex())
print(json.dumps({'cases': cases, 'failures': failures}))
'''

NATIVE_CRC = r'''
import json, random
from ssh_audit.ssh1_crc32 import SSH1_CRC32
from ssh_audit.ssh1 import SSH1
def crc_bitwise(data):
    # reflected CRC-32, polynomial 0xEDB88320, initial value 0, no final xor (the SSH-1 variant), bit by bit
    crc = 0
    for b in data:
        crc ^= b
        for _ in range(8):
            crc = (crc >> 1) ^ (0xedb88320 if crc & 1 else 0)
    return crc
cases, failures = 0, []
c = SSH1_CRC32()
for i in range(256):
    cases += 1
    want = crc_bitwise(bytes([i]))
    if c._table[i] != want and len(failures) < 4:
        failures.append({'input': {'table index': i}, 'got': hex(c._table[i]), 'want': hex(want)})
rnd = random.Random(7)
datas = [bytes([a]) for a in range(256)] + [bytes([a, b]) for a in (0, 1, 0x80, 0xff) for b in range(256)] + [bytes(rnd.getrandbits(8) for _ in range(n)) for n in range(0, 200)]
for d in datas:
    cases += 1
    got, want = c.calc(d), crc_bitwise(d)
    if (got != want or SSH1.crc32(d) != want) and len(failures) < 8:
        failures.append({'input': {'data': d.hex()}, 'got': hex(got), 'want': hex(want)})
print(json.dumps({'cases': cases, 'failures': failures}))
'''
