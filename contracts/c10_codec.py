"""Contracts for C10 (wire codecs).  Clauses are Python expressions over the function's parameters, `result`,
`old.<param>` (entry value) and the spec functions of spec.py; ghost names g_* are bound by the setup functions."""
import z3
from pyvc.contracts import Contract
from pyvc.driver import Unit
from pyvc.values import fresh
from pyvc.state import mk

IMPORTS = "from ssh_audit.readbuf import ReadBuf\nfrom ssh_audit.writebuf import WriteBuf\n"


def setup_readbuf(ip, st, fr, case):
    data = fresh('data', 'bytes')
    pos = fresh('pos', 'int')
    st.assume(pos.t >= 0)
    st.assume(pos.t <= z3.Length(data.t))
    buf = st.new_obj('<BytesIO>', {'data': data, 'pos': pos})
    fr['self'] = st.new_obj(case.get('$cls', 'ReadBuf'), {'_buf': buf, '_len': mk(z3.Length(data.t), 'int')})
    fr['g_data'], fr['g_pos'] = data, pos
    return {'g_data': data, 'g_pos': pos}


def setup_writebuf(ip, st, fr, case):
    data = fresh('wdata', 'bytes')
    buf = st.new_obj('<BytesIO>', {'data': data, 'pos': mk(z3.Length(data.t), 'int')})
    fr['self'] = st.new_obj(case.get('$cls', 'WriteBuf'), {'_wbuf': buf})
    fr['g_w'] = data
    return {'g_w': data}


RB_SETUP = "rb = ReadBuf(g_data); _ = rb.read(g_pos)"
WB_SETUP = "wb = WriteBuf(); _ = wb.write(g_w)"
UNREAD = "len(g_data) - g_pos"
RB_FRAME = "self._buf.data == g_data and self._len == len(g_data)"


def units():
    U = []

    def rb(name, **kw):
        harness = dict(imports=IMPORTS, setup=RB_SETUP, call=kw.pop('call'))
        U.append(Unit(Contract('ReadBuf.' + name, setup=setup_readbuf, **kw), harness=harness))

    def wb(name, **kw):
        harness = dict(imports=IMPORTS, setup=WB_SETUP, call=kw.pop('call'))
        U.append(Unit(Contract('WriteBuf.' + name, setup=setup_writebuf, **kw), harness=harness))

    # ------------------------------------------------------------------ decoders
    rb('read', params=dict(size='nat'), call='rb.read(size)', raises={},
       ensures=["result == g_data[g_pos:g_pos + size]", "self._buf.pos == g_pos + len(result)", RB_FRAME])
    rb('read_byte', call='rb.read_byte()', raises={'struct.error': UNREAD + " < 1"},
       ensures=["result == g_data[g_pos]", "self._buf.pos == g_pos + 1", RB_FRAME])
    rb('read_bool', call='rb.read_bool()', raises={'struct.error': UNREAD + " < 1"},
       ensures=["result == (g_data[g_pos] != 0)", "self._buf.pos == g_pos + 1", RB_FRAME])
    rb('read_int', call='rb.read_int()', raises={'struct.error': UNREAD + " < 4"},
       ensures=["result == val_be(g_data[g_pos:g_pos + 4])", "0 <= result and result < 4294967296",
                "self._buf.pos == g_pos + 4", RB_FRAME],
       use=["val_be_word(g_data[g_pos:g_pos + 4])"])
    rb('read_string', call='rb.read_string()', raises={'struct.error': UNREAD + " < 4"},
       ensures=["result == g_data[g_pos + 4:g_pos + 4 + val_be(g_data[g_pos:g_pos + 4])]",
                "self._buf.pos == g_pos + 4 + len(result)", RB_FRAME],
       use=["val_be_word(g_data[g_pos:g_pos + 4])"])
    U.append(Unit(Contract(
        'ReadBuf._parse_mpint', params=dict(v='bytes'),
        cases=[dict(pad=b'\x00', f='>I'), dict(pad=b'\xff', f='>i')],
        requires=["implies(f == '>i', len(v) > 0 and v[0] >= 128)"],
        ensures=["result == (val_be(v) if f == '>I' else val_be(v) - pow256(len(v)))"],
        raises={},
        loops={1: dict(invariant=["i % 4 == 0 and 0 <= i and i <= len(v) + 3",
                                  "r == (val_be(v[:i]) if (f == '>I' or i == 0) else val_be(v[:i]) - pow256(i))"],
                       use=["val_be_concat(v[:i], v[i:i+4])", "val_be_word(v[i:i+4])", "pow256_4(len(v[i:i+4]))",
                            "pow256_add(i, 4)"])}),
        harness=dict(imports=IMPORTS, call="ReadBuf._parse_mpint(v, pad, f)")))
    return U


LEMMAS = ['concat_init', 'val_be_concat', 'val_be_word', 'pow256_4', 'pow256_add']
