"""Specification vocabulary (DESIGN.md section 4.1).  Plain Python: executed natively on concrete values (replay,
ground checks) and read symbolically by pyvc (see pyvc/specs.py for what the decorators mean to the solver)."""


def recursive(sig, fuel=1):
    def deco(f):
        return f
    return deco


uninterpreted = recursive


# ---------------------------------------------------------------------------------------------- numbers and bytes
@recursive('int->int', fuel=1)
def pow256(k):
    return 1 if k <= 0 else 256 * pow256(k - 1)


@recursive('bytes->int', fuel=1)
def val_be(b):
    """big-endian value of a byte string (RFC 4251: most significant byte first)"""
    return 0 if len(b) == 0 else val_be(b[:-1]) * 256 + b[-1]


def sval_be(b):
    """two's complement value of a non-empty byte string (RFC 4251 section 5, mpint)"""
    return val_be(b) - (pow256(len(b)) if b[0] >= 128 else 0)


@uninterpreted('int->int')
def bitlen(n):
    return n.bit_length()


# ---------------------------------------------------------------------------------------------- text
@uninterpreted('str->bytes')
def utf8(s):
    return s.encode('utf-8')


@uninterpreted('bytes->bool')
def utf8_valid(b):
    try:
        b.decode('utf-8')
        return True
    except UnicodeDecodeError:
        return False


@uninterpreted('bytes->str')
def utf8_decode_replace(b):
    return b.decode('utf-8', 'replace')


@recursive('str;list[str]->str', fuel=1)
def join(sep, xs):
    return '' if len(xs) == 0 else (xs[0] if len(xs) == 1 else join(sep, xs[:-1]) + sep + xs[-1])


@uninterpreted('str;str->list[str]')
def split(s, sep):
    """str.split with a non-empty separator.  The solver sees an uninterpreted function; the engine states, where it
    is applied, the sound facts join(sep, split(s, sep)) == s, len >= 1 and the first fields up to a fixed depth."""
    return s.split(sep)


@uninterpreted('str;str;str->str')
def replace_all(s, a, b):
    return s.replace(a, b)


@uninterpreted('str->str')
def lower(s):
    return s.lower()


@uninterpreted('str->str')
def upper(s):
    return s.upper()


# ---------------------------------------------------------------------------------------------- lemma library
def lemma(types, **kw):
    def deco(f):
        return f
    return deco


@lemma('bytes;bytes', requires='len(b) > 0')
def concat_init(a, b):
    """pure string fact: dropping / taking the last byte of a + b"""
    return (a + b)[:-1] == a + b[:-1] and (a + b)[-1] == b[-1]


@lemma('bytes;bytes', induction='b', smaller='b[:-1]', base='len(b) == 0', fuel=1, uses='concat_init(a, b)')
def val_be_concat(a, b):
    """L-BE: value of a concatenation"""
    return val_be(a + b) == val_be(a) * pow256(len(b)) + val_be(b)


@lemma('bytes', requires='len(w) == 4', fuel=5)
def val_be_word(w):
    """a 4-byte string read as '>I' is val_be of it; pow256(4) == 2**32"""
    return val_be(w) == ((w[0] * 256 + w[1]) * 256 + w[2]) * 256 + w[3] and pow256(4) == 4294967296 and val_be(w) >= 0 and val_be(w) < 4294967296


@lemma('int', requires='n == 4', fuel=5)
def pow256_4(n):
    return pow256(n) == 4294967296


# ---------------------------------------------------------------------------------------------- RFC 4251 section 5 data types
def primitive(f):
    return f


@primitive
def chr8(v):
    """one byte (engine primitive when symbolic)"""
    return bytes([v % 256])


def u8(v):
    return chr8(v)


def u16(v):
    return chr8(v // 256 % 256) + chr8(v % 256)


def u32(v):
    """uint32: four bytes in the order of decreasing significance (network byte order)"""
    return chr8(v // 16777216 % 256) + chr8(v // 65536 % 256) + chr8(v // 256 % 256) + chr8(v % 256)


def as_bytes(v):
    """what write_string puts on the wire for a bytes or str argument"""
    return v if isinstance(v, bytes) else utf8(v)


def enc_string(b):
    """string: uint32 length followed by that many bytes"""
    return u32(len(b)) + b


def enc_bool(v):
    return b'\x01' if v else b'\x00'


@lemma('int;int', requires='a >= 0 and b >= 0', induction='b', smaller='b - 1', base='b == 0', fuel=2)
def pow256_add(a, b):
    """L-POW"""
    return pow256(a + b) == pow256(a) * pow256(b) and pow256(b) >= 1


@lemma('bytes', requires='len(w) == 2', fuel=3)
def val_be_half(w):
    return val_be(w) == w[0] * 256 + w[1] and val_be(w) >= 0 and val_be(w) < 65536


@recursive('bytes;int->bytes', fuel=1)
def rep(c, k):
    """c repeated k times (c is one byte)"""
    return b'' if k <= 0 else rep(c, k - 1) + c


@recursive('str;int->str', fuel=1)
def rep_s(c, k):
    return '' if k <= 0 else rep_s(c, k - 1) + c


@lemma('bytes;int', requires='len(c) == 1', induction='k', smaller='k - 1', base='k <= 0', fuel=2)
def rep_len(c, k):
    return len(rep(c, k)) == (k if k > 0 else 0)


@lemma('str;int', requires='len(c) == 1', induction='k', smaller='k - 1', base='k <= 0', fuel=2)
def rep_s_len(c, k):
    return len(rep_s(c, k)) == (k if k > 0 else 0)


@lemma('bytes;int', requires='len(c) == 1 and k >= 1', induction='k', smaller='k - 1', base='k <= 1', fuel=3, uses='rep_len(c, k - 1)')
def rep_first(c, k):
    return rep(c, k)[0] == c[0]


@lemma('int', induction='k', smaller='k - 1', base='k <= 0', fuel=2)
def val_be_ff(k):
    """a run of 0xff bytes is 256^k - 1"""
    return val_be(rep(b'\xff', k)) == pow256(k) - 1


@lemma('int', induction='k', smaller='k - 1', base='k <= 0', fuel=2)
def val_be_00(k):
    """a run of zero bytes is 0"""
    return val_be(rep(b'\x00', k)) == 0


@lemma('int')
def u32_bytes(v):
    """pure string fact"""
    return (len(u32(v)) == 4 and u32(v)[0] == v // 16777216 % 256 and u32(v)[1] == v // 65536 % 256
            and u32(v)[2] == v // 256 % 256 and u32(v)[3] == v % 256)


@lemma('int', requires='0 <= v and v < 4294967296')
def u32_arith(v):
    """pure arithmetic fact"""
    return ((v // 16777216 % 256 * 256 + v // 65536 % 256) * 256 + v // 256 % 256) * 256 + v % 256 == v


@lemma('int', requires='0 <= v and v < 4294967296', fuel=1, uses='val_be_word(u32(v));;u32_bytes(v);;u32_arith(v)')
def u32_val(v):
    """uint32 encoding is 4 bytes whose big-endian value is v"""
    return val_be(u32(v)) == v and len(u32(v)) == 4


# ---------------------------------------------------------------------------------------------- RFC 4253 messages
def enc_namelist(l):
    """name-list: a string containing a comma-separated list of names (RFC 4251 section 5)"""
    return enc_string(utf8(join(',', l)))


def dec_namelist(b):
    return split(utf8_decode_replace(b), ',')


@recursive('bytes;int->bytes', fuel=1)
def fld(d, p):
    """the RFC 4251 string starting at offset p of d"""
    return d[p + 4:p + 4 + val_be(d[p:p + 4])]


@recursive('bytes;int->int', fuel=1)
def nxt(d, p):
    """offset just after the string that starts at offset p"""
    return p + 4 + len(d[p + 4:p + 4 + val_be(d[p:p + 4])])


# ---------------------------------------------------------------------------------------------- ratings and status (C02/C03)
@recursive('list[opt[str]]->bool', fuel=2)
def has_some(xs):
    """some element of a note list is a note (not None)"""
    return False if len(xs) == 0 else (has_some(xs[:-1]) or xs[-1] is not None)


@recursive('list[tuple[str,str]];str->bool', fuel=2)
def has_level(ts, lvl):
    """some (level, text) pair of the list has the given level"""
    return False if len(ts) == 0 else (has_level(ts[:-1], lvl) or ts[-1][0] == lvl)


def status_after(s0, any_fail, any_warn):
    """exit status after rendering notes: failure is sticky, a warning never downgrades a failure (exitcodes: 3/2/0)"""
    return 3 if (s0 == 3 or any_fail) else (2 if any_warn else s0)


@primitive
def is_blank(s):
    return len(s.strip()) == 0


@uninterpreted('str;str->bool')
def alg_fail(cat, name):
    """the rating table holds a failure note for (category, name) -- a function of the table only"""
    return False


@uninterpreted('str;str->bool')
def alg_warn(cat, name):
    """the rating table holds a warning note for (category, name), or does not know the name"""
    return False


def alg_step(cat, name, s0):
    """status after rendering one algorithm"""
    return s0 if is_blank(name) else status_after(s0, alg_fail(cat, name), alg_warn(cat, name))


@recursive('str;list[str];int->int', fuel=1)
def fold_algs(cat, names, s0):
    """status after rendering a list of algorithms, in order"""
    return s0 if len(names) == 0 else alg_step(cat, names[-1], fold_algs(cat, names[:-1], s0))


@recursive('str;list[str]->bool', fuel=1)
def any_fail(cat, names):
    return False if len(names) == 0 else (any_fail(cat, names[:-1]) or (not is_blank(names[-1]) and alg_fail(cat, names[-1])))


@recursive('str;list[str]->bool', fuel=1)
def any_warn(cat, names):
    return False if len(names) == 0 else (any_warn(cat, names[:-1]) or (not is_blank(names[-1]) and alg_warn(cat, names[-1])))


@lemma('str;list[str];int', requires='s0 == 0 or s0 == 2 or s0 == 3', induction='names', smaller='names[:-1]', base='len(names) == 0', fuel=2)
def fold_is_worst(cat, names, s0):
    """the fold over a list equals 'failure if any failure, else warning if any warning, else unchanged' (order independent)"""
    return fold_algs(cat, names, s0) == status_after(s0, any_fail(cat, names), any_warn(cat, names))


# ---------------------------------------------------------------------------------------------- Terrapin (C04): the published rule
def is_chacha(c):
    return c.startswith('chacha20-poly1305')


def is_cbc(c):
    return c.endswith('-cbc') or c.endswith('-cbc@openssh.org') or c.endswith('-cbc@ssh.com') or c == 'rijndael-cbc@lysator.liu.se'


def is_etm(m):
    return m.endswith('-etm@openssh.com')


@recursive('list[str]->list[str]', fuel=1)
def filter_chacha(xs):
    return xs if len(xs) == 0 else (filter_chacha(xs[:-1]) + [xs[-1]] if is_chacha(xs[-1]) else filter_chacha(xs[:-1]))


@recursive('list[str]->list[str]', fuel=1)
def filter_cbc(xs):
    return xs if len(xs) == 0 else (filter_cbc(xs[:-1]) + [xs[-1]] if is_cbc(xs[-1]) else filter_cbc(xs[:-1]))


@recursive('list[str]->list[str]', fuel=1)
def filter_etm(xs):
    return xs if len(xs) == 0 else (filter_etm(xs[:-1]) + [xs[-1]] if is_etm(xs[-1]) else filter_etm(xs[:-1]))


# ---------------------------------------------------------------------------------------------- banners (C16)
def printable(c):
    """one character of printable US-ASCII (RFC 4253 section 4.2 asks for it in the identification string)"""
    return ' ' <= c and c <= '~'


@recursive('str->bool', fuel=1)
def all_printable(s):
    return True if len(s) == 0 else (all_printable(s[:-1]) and printable(s[-1]))


@recursive('str->str', fuel=1)
def sanitize(s):
    """every character outside printable ASCII replaced by '?'"""
    return '' if len(s) == 0 else sanitize(s[:-1]) + (s[-1] if printable(s[-1]) else '?')


@recursive('str->str', fuel=1)
def drop_unprintable(s):
    """every character outside printable ASCII removed"""
    return '' if len(s) == 0 else drop_unprintable(s[:-1]) + (s[-1] if printable(s[-1]) else '')


@lemma('str', induction='s', smaller='s[:-1]', base='len(s) == 0', fuel=2)
def sanitize_len(s):
    return len(sanitize(s)) == len(s)


@primitive
def latin(b):
    return b.decode('latin-1')


@primitive
def in_ascii(v):
    return all((c if isinstance(c, int) else ord(c)) < 128 for c in v)


@lemma('str;int', induction='s', smaller='s[:-1]', base='len(s) == 0', fuel=1)
def all_printable_at(s, j):
    """a string of printable characters has a printable character at every position"""
    return implies(0 <= j and j < len(s) and all_printable(s), printable(s[j]))


# ---------------------------------------------------------------------------------------------------- C06: subset matching
@recursive('list[str];list[str]->bool', fuel=1)
def all_in(xs, pol):
    """every element of xs occurs in pol"""
    return True if len(xs) == 0 else (all_in(xs[:-1], pol) and xs[-1] in pol)


@lemma('list[str];list[str];int', induction='xs', smaller='xs[:-1]', base='len(xs) == 0', fuel=1)
def all_in_at(xs, pol, j):
    """a list all of whose elements are allowed has an allowed element at every position"""
    return implies(0 <= j and j < len(xs) and all_in(xs, pol), xs[j] in pol)
