"""Contracts for C14 (version ordering)."""
import itertools
import re
import z3
from pyvc.contracts import Contract
from pyvc.driver import Unit
from pyvc.values import fresh, Sym, Unsupported
from pyvc.state import mk

IMPORTS = "from ssh_audit.software import Software\n"
DIG = z3.Range(z3.StringVal('0'), z3.StringVal('9'))
LOW = z3.Range(z3.StringVal('a'), z3.StringVal('z'))
RX_SPLIT = r'^([\d\.]*\d+)(.*)$'
WHY_RX = ("re.match(r'^([\\d\\.]*\\d+)(.*)$', v + p) for a dotted-decimal v and a suffix p that is empty or "
          "starts with a lower-case letter captures exactly (v, p) (hand-derived from re's greedy rules; cross-checked "
          "against CPython on an enumerated domain in every run)")


def dotted(st, prefix, n):
    """a version string of n dot-separated decimal numerals (any number of digits each) and its integer components"""
    comps, ints = [], []
    for i in range(n):
        c = fresh('%s%d' % (prefix, i), 'str')
        st.assume(z3.InRe(c.t, z3.Plus(DIG)))
        comps.append(c)
        ints.append(mk(z3.StrToInt(c.t), 'int'))
    parts = []
    for i, c in enumerate(comps):
        if i:
            parts.append(z3.StringVal('.'))
        parts.append(c.t)
    term = parts[0] if len(parts) == 1 else z3.Concat(*parts)
    return Sym(term, 'str'), comps, tuple(ints)


def setup_compare(ip, st, fr, case):
    n1, n2, product = case['$n1'], case['$n2'], case['$product']
    v1, c1, a = dotted(st, 'a', n1)
    v2, c2, b = dotted(st, 'b', n2)
    spatch = fresh('spatch', ('opt', 'str'))
    opatch = fresh('opatch', 'str')
    # patch suffixes of the products' grammars: empty, or a lower-case word followed by letters/digits (p1, test3, rc2 ...)
    word = z3.Union(z3.Re(z3.StringVal('')), z3.Concat(LOW, z3.Star(z3.Union(LOW, DIG))))
    st.assume(z3.InRe(opatch.t, word))
    from pyvc.values import opt_is_none, opt_val
    st.assume(z3.Or(opt_is_none(spatch.ty, spatch.t), z3.InRe(opt_val(spatch.ty, spatch.t), word)))
    fr['self'] = st.new_obj('Software', {'_Software__vendor': None, '_Software__product': product, '_Software__version': v1,
                                         '_Software__patch': spatch, '_Software__os': None})
    other = mk(z3.Concat(v2.t, opatch.t), 'str')
    fr['other'] = other
    fr['g_a'], fr['g_b'] = a, b
    st.ghost['$rx_hints'] = ((RX_SPLIT, other.t, True, (v2, opatch), WHY_RX),)
    st.ghost['$dotted'] = ((v1.t, a, None), (v2.t, b, None), (other.t, b, opatch.t == z3.StringVal('')))
    inputs = {'g_opatch': opatch}
    for i, c in enumerate(c1):
        inputs['g_a%d' % i] = c
    for i, c in enumerate(c2):
        inputs['g_b%d' % i] = c
    return inputs


def version_tuple_result(ip, st):
    """call-site view of Software._version_tuple: for the designated dotted-decimal ghost versions, their components"""
    v = st.frame['version']
    for term, ints, cond in st.ghost.get('$dotted', ()):
        if isinstance(v, Sym) and v.t.eq(term):
            if cond is None:
                return ints
            # dotted-decimal exactly when the suffix is empty
            return ints if ip.branch(st, cond) else None
    raise Unsupported('_version_tuple called on a string that is not one of the designated dotted-decimal versions: %r' % (v,))


def harness(n1, n2, product):
    a = " + '.' + ".join('g_a%d' % i for i in range(n1))
    b = " + '.' + ".join('g_b%d' % i for i in range(n2))
    return dict(imports=IMPORTS,
                setup="sw = Software(None, %r, %s, None, None); g_a = tuple(int(x) for x in (%s).split('.')); g_b = tuple(int(x) for x in (%s).split('.'))" % (product, a, a, b),
                call="sw.compare_version(%s + g_opatch)" % b)


PRODUCTS = ['OpenSSH', 'Dropbear SSH', 'libssh']


def setup_vt(ip, st, fr, case):
    v, comps, ints = dotted(st, 'c', case['$n'])
    fr['version'] = v
    fr['g_ints'] = ints
    return {'g_c%d' % i: c for i, c in enumerate(comps)}


def units(max_components=4):
    U = []
    # the numeric core: compare_version with _version_tuple seen through its contract
    for product in PRODUCTS:
        for n1 in range(1, max_components + 1):
            for n2 in range(1, max_components + 1):
                if product != 'OpenSSH' and (n1 > 2 or n2 > 2):
                    continue        # the full grid is proved for one product; the numeric branch is product independent
                con = Contract('Software.compare_version', setup=setup_compare,
                               cases=[{'$n1': n1, '$n2': n2, '$product': product}], raises={},
                               ensures=["implies(g_a < g_b, result == -1)", "implies(g_a > g_b, result == 1)",
                                        "result == -1 or result == 0 or result == 1"])
                U.append(Unit(con, harness=harness(n1, n2, product)))
    return U


VT_BOUNDED = r'''
import itertools, json
from ssh_audit.software import Software
vals = [str(i) for i in range(0, 13)] + ['99', '100', '101', '2011', '2016', '2020', '007', '00']
cases, failures = 0, []
for n in (1, 2, 3, 4):
    dom = vals if n < 4 else vals[:13] + ['99', '100', '2016']
    for combo in itertools.product(dom, repeat=n):
        v = '.'.join(combo)
        want = tuple(int(x) for x in combo)
        got = Software._version_tuple(v)
        cases += 1
        if got != want and len(failures) < 5:
            failures.append({'input': {'version': v}, 'got': repr(got), 'want': repr(want)})
for v in ['', '.', '1.', '.1', '1..2', '1.2p1', 'a', '1 .2', '1.2 ', '-1.2', '1.2.3.4.']:
    got = Software._version_tuple(v)
    cases += 1
    if got is not None and len(failures) < 5:
        failures.append({'input': {'version': v}, 'got': repr(got), 'want': 'None'})
print(json.dumps({'cases': cases, 'failures': failures}))
'''


CMP_BOUNDED = r'''
import itertools, json
from ssh_audit.software import Software
vals = ['0', '1', '9', '10', '12', '99', '100', '2016']
versions = []
for n in (1, 2, 3):
    for combo in itertools.product(vals, repeat=n):
        versions.append(('.'.join(combo), tuple(int(x) for x in combo)))
versions += [('1.2.3.4', (1, 2, 3, 4)), ('1.2.3.10', (1, 2, 3, 10)), ('10.0.0.1', (10, 0, 0, 1)), ('9.9.9.9', (9, 9, 9, 9))]
patches = {'OpenSSH': ['', 'p1', 'p2'], 'Dropbear SSH': ['', 'test3'], 'libssh': ['', 'rc1']}
cases, failures = 0, []
for product, ps in patches.items():
    objs = [(Software(None, product, v, None, None), t) for v, t in versions]
    for (sw, ta) in objs:
        for (v2, tb) in versions:
            for p in ps:
                got = sw.compare_version(v2 + p)
                cases += 1
                want = -1 if ta < tb else (1 if ta > tb else None)
                if want is not None and got != want and len(failures) < 5:
                    failures.append({'input': {'product': product, 'self_version': sw.version, 'other': v2 + p}, 'got': got, 'want': want})
# the judgement is antisymmetric and transitive with the product-specific patch suffixes too (both sides may carry one)
sub = [v for v, t in versions if len(t) <= 2 and all(x in (0, 1, 9, 10) for x in t)]
na = nt = 0
for product, ps in patches.items():
    ps2 = ps + (['p10'] if product == 'OpenSSH' else ['test10'] if product == 'Dropbear SSH' else ['rc2'])
    objs = [Software(None, product, v, (p or None), None) for v in sub for p in ps2]
    cmpm = {}
    for a in objs:
        for b in objs:
            cases += 1
            cmpm[(id(a), id(b))] = a.compare_version(b)
    for a in objs:
        for b in objs:
            x, y = cmpm[(id(a), id(b))], cmpm[(id(b), id(a))]
            if x != -y and na < 3:
                na += 1
                failures.append({'input': {'class': 'antisymmetry', 'product': product, 'a': a.version + (a.patch or ''), 'b': b.version + (b.patch or '')}, 'got': {'cmp(a,b)': x, 'cmp(b,a)': y}, 'want': 'cmp(a,b) == -cmp(b,a)'})
    small = objs[::3]
    for a in small:
        for b in small:
            for c in small:
                cases += 1
                if cmpm[(id(a), id(b))] <= 0 and cmpm[(id(b), id(c))] <= 0 and cmpm[(id(a), id(c))] > 0 and nt < 3:
                    nt += 1
                    failures.append({'input': {'class': 'transitivity', 'product': product, 'a': a.version + (a.patch or ''), 'b': b.version + (b.patch or ''), 'c': c.version + (c.patch or '')},
                                     'got': 'a <= b, b <= c but a > c', 'want': 'a <= c'})
print(json.dumps({'cases': cases, 'failures': failures}))
'''


def vt_units(max_components=4):
    U = []
    for n in range(1, max_components + 1):
        con = Contract('Software._version_tuple', setup=setup_vt, cases=[{'$n': n}], raises={},
                       ensures=["result == g_ints"])
        U.append(Unit(con, harness=dict(imports=IMPORTS, setup="version = " + " + '.' + ".join('g_c%d' % i for i in range(n)) + "; g_ints = tuple(int(x) for x in version.split('.'))",
                                        call="Software._version_tuple(version)")))
    return U


def stubs():
    return [Contract('Software._version_tuple', mode='contract', result=version_tuple_result,
                     note='proved separately against the same clause (vt_units) or bounded, see evidence')]


def crosscheck_regex():
    """the assumed regex decomposition against CPython's re on an enumerated domain"""
    n = 0
    digs = ['0', '1', '9', '10', '007']
    versions = []
    for k in (1, 2, 3):
        for combo in itertools.product(digs, repeat=k):
            versions.append('.'.join(combo))
    patches = ['', 'p1', 'p', 'test3', 'a', 'rc2', 'z9z']
    for v in versions:
        for p in patches:
            m = re.match(RX_SPLIT, v + p)
            n += 1
            if m is None or m.groups() != (v, p):
                return n, 'model says groups (%r, %r), CPython says %r' % (v, p, m.groups() if m else None)
    return n, None


# ---------------------------------------------------------------------------------------------------- compatibility ranges
NATIVE_COMPAT = r'''
import json, sys, re, itertools
sys.path.insert(0, %(native)r)
import harness as H
from ssh_audit.ssh2_kexdb import SSH2_KexDB
DB = SSH2_KexDB.MASTER_DB
def vt(v):
    return tuple(int(x) for x in v.split('.'))
def since(entry, prefix):
    """first-appeared server-side version of one product ('' OpenSSH, 'd' Dropbear), for entries that list appearance only"""
    vs = entry[0]
    if len(vs) != 1 or vs[0] is None:
        return 'skip'
    out = None
    for it in vs[0].split(','):
        if it.endswith('C'):
            continue
        if prefix == '' and it[:1].isdigit():
            out = it
        elif prefix == 'd' and it.startswith('d'):
            out = it[1:]
    return out
cases, failures = 0, []
per = {}
def fail(inp, got, want, cls):
    per[cls] = per.get(cls, 0) + 1
    if per[cls] <= 3:
        failures.append({'input': dict(inp, **{'class': cls}), 'got': got, 'want': want})
# (a) ground: wherever the tool orders first-appeared versions of one product as strings (Timeframe), string order agrees with numeric order on the current tables
for prefix, prod in (('', 'OpenSSH'), ('d', 'Dropbear SSH')):
    vs = set()
    for cat in DB:
        for n, e in DB[cat].items():
            for cell in e[0]:
                for it in (cell or '').split(','):
                    it = it[:-1] if it.endswith('C') else it
                    if prefix == '' and it[:1].isdigit(): vs.add(it)
                    if prefix == 'd' and it.startswith('d'): vs.add(it[1:])
    for a, b in itertools.combinations(sorted(vs), 2):
        cases += 1
        if (a < b) != (vt(a) < vt(b)):
            fail({'product': prod, 'versions': [a, b]}, 'string order differs from numeric order', 'the same order (Timeframe compares these as strings)', 'table-version-order')
# (b) a server offering two algorithms is compatible from the numerically later of their first-appeared versions
simple = {}
for cat in ('kex', 'enc', 'mac'):
    for n, e in DB[cat].items():
        if n.endswith('-*') or (len(e) > 1 and False):
            continue
        so, sd = since(e, ''), since(e, 'd')
        if so not in ('skip', None):
            simple.setdefault(cat, []).append((n, so, sd if sd != 'skip' else None))
base = dict(kex=['curve25519-sha256'], key=['ssh-ed25519'], enc=['aes128-ctr'], mac=['hmac-sha2-256'])
import random
r = random.Random(14)
for cat in simple:
    names = simple[cat]
    pairs = [(names[i], names[j]) for i in range(len(names)) for j in range(i + 1, len(names))]
    r.shuffle(pairs)
    for (a, va, da), (b, vb, db_) in pairs[:40]:
        cases += 1
        p = dict(base); p[cat] = [a, b]
        kex = H.make_kex(p['kex'], p['key'], p['enc'], p['mac'])
        st, text = H.run_output(kex=kex, banner='SSH-2.0-OpenSSH_9.9')
        line = [l for l in text.split('\n') if l.startswith('(gen) compatibility:')]
        want = max([va, vb] + [since(DB[c][p[c][0]], '') for c in ('kex', 'key', 'enc', 'mac') if c != cat], key=vt)
        m = re.search(r'OpenSSH (\d[\d.]*)', line[0]) if line else None
        if not m or m.group(1) != want:
            fail({'category': cat, 'algorithms': [a, b], 'first appeared': [va, vb]}, line[:1], 'compatibility from OpenSSH %%s (the numerically latest first-appeared version)' %% want, 'compat-from')
        elif cases %% 4 == 0:
            # names the database does not know say nothing about versions: wherever they stand in the list, the range is the same
            for pos in (0, 1, 2):
                cases += 1
                l2 = [a, b]; l2.insert(pos, 'unknown-alg@example.com')
                p2 = dict(base); p2[cat] = l2
                st2, text2 = H.run_output(kex=H.make_kex(p2['kex'], p2['key'], p2['enc'], p2['mac']), banner='SSH-2.0-OpenSSH_9.9')
                line2 = [l for l in text2.split('\n') if l.startswith('(gen) compatibility:')]
                if line2 != line:
                    fail({'category': cat, 'algorithms': l2}, line2[:1], line[0], 'compat-unknown-name')
# (c) ... and ends at the numerically earliest removal version among the advertised algorithms that were removed from the server
removed = {}
for cat in ('kex', 'enc', 'mac'):
    for n, e in DB[cat].items():
        vs = e[0]
        if len(vs) >= 2 and vs[0] and vs[1] and re.match(r'^\d[\d.]*$', vs[1]) and re.match(r'^\d[\d.]*(,.*)?$', vs[0]):
            removed.setdefault(cat, []).append((n, vs[0].split(',')[0], vs[1]))
for cat in removed:
    names = removed[cat]
    pairs = [(names[i], names[j]) for i in range(len(names)) for j in range(i + 1, len(names))]
    r.shuffle(pairs)
    for (a, sa, ta), (b, sb, tb) in pairs[:25]:
        cases += 1
        p = dict(base); p[cat] = [a, b]
        kex = H.make_kex(p['kex'], p['key'], p['enc'], p['mac'])
        st, text = H.run_output(kex=kex, banner='SSH-2.0-OpenSSH_6.0')
        line = [l for l in text.split('\n') if l.startswith('(gen) compatibility:')]
        want_till = min([ta, tb], key=vt)
        m = re.search(r'OpenSSH (\d[\d.]*)(?:-(\d[\d.]*)|\+ \(some functionality from (\d[\d.]*)\))?', line[0]) if line else None
        got_till = (m.group(2) or m.group(3)) if m else None
        if got_till != want_till:
            fail({'category': cat, 'algorithms': [a, b], 'removed in': [ta, tb]}, line[:1], 'compatibility until OpenSSH %%s (the numerically earliest removal)' %% want_till, 'compat-till')
print(json.dumps({'cases': cases, 'failures': failures}))
'''
