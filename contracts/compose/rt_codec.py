"""Composition lemmas for C10, written as code over the repository's own classes.  Every call below is resolved
through the callee's *contract* (never its body): the round trip is a lemma over contracts."""
from ssh_audit.readbuf import ReadBuf
from ssh_audit.writebuf import WriteBuf


def rt_byte(v):
    w = WriteBuf()
    w.write_byte(v)
    payload = w.write_flush()
    r = ReadBuf(payload)
    return r.read_byte()


def rt_bool(v):
    w = WriteBuf()
    w.write_bool(v)
    payload = w.write_flush()
    r = ReadBuf(payload)
    return r.read_bool()


def rt_int(v):
    w = WriteBuf()
    w.write_int(v)
    payload = w.write_flush()
    r = ReadBuf(payload)
    return r.read_int()


def rt_string(v):
    w = WriteBuf()
    w.write_string(v)
    payload = w.write_flush()
    r = ReadBuf(payload)
    return r.read_string()


def rt_int_int(a, b):
    """two values in sequence: the cursor discipline composes"""
    w = WriteBuf()
    w.write_int(a)
    w.write_int(b)
    payload = w.write_flush()
    use_lemma(u32_val(a))
    use_lemma(u32_val(b))
    r = ReadBuf(payload)
    x = r.read_int()
    y = r.read_int()
    return (x, y)


def rt_string_byte(s, b):
    w = WriteBuf()
    w.write_string(s)
    w.write_byte(b)
    payload = w.write_flush()
    use_lemma(u32_val(len(s)))
    r = ReadBuf(payload)
    x = r.read_string()
    y = r.read_byte()
    return (x, y)
