"""Bounded run-time contract checks for C05 / C06 on the REAL Policy code."""

C06 = r'''
import json, sys, itertools, random
sys.path.insert(0, %(native)r)
import harness as H
from ssh_audit.policy import Policy
from ssh_audit.banner import Banner
U = ['a', 'b', 'kex-strict-s-v00@openssh.com']
def lists(maxlen=3):
    out = [None]
    for n in range(0, maxlen + 1):
        for t in itertools.product(U, repeat=n):
            out.append(list(t))
    return out
def peer_lists(maxlen=3):
    out = []
    for n in range(1, maxlen + 1):
        for t in itertools.product(U, repeat=n):
            out.append(list(t))
    return out
def mk_policy(host_keys=None, optional=None, kex=None, ciphers=None, macs=None, hk_sizes=None, dh=None, subset=False, larger=False, banner=None, comp=None):
    p = Policy(manual_load=True)
    p._name, p._version = 'T', '1'
    p._banner, p._compressions = banner, comp
    p._host_keys, p._optional_host_keys, p._kex, p._ciphers, p._macs = host_keys, optional, kex, ciphers, macs
    p._hostkey_sizes, p._dh_modulus_sizes = hk_sizes, dh
    p._allow_algorithm_subset_and_reordering, p._allow_larger_keys = subset, larger
    p._normalize_hostkey_sizes()
    return p
def size_ok(larger, e, a):
    return a >= e if larger else a == e
def spec(p, banner, kex):
    """the documented matching rules (written from the property statement): list of violated fields"""
    bad = []
    if p._banner is not None and str(banner) != p._banner: bad.append('Banner')
    if kex is None: return bad
    if p._compressions is not None and kex.server.compression != p._compressions: bad.append('Compression')
    sub = p._allow_algorithm_subset_and_reordering
    if p._host_keys is not None:
        if sub:
            if any(h not in p._host_keys for h in kex.key_algorithms): bad.append('Host keys')
        else:
            pruned = [h for h in kex.key_algorithms if h not in (p._optional_host_keys or [])]
            if pruned != p._host_keys: bad.append('Host keys')
    if p._hostkey_sizes is not None:
        for t in sorted(p._hostkey_sizes):
            if t in kex.host_keys():
                e, a = p._hostkey_sizes[t], kex.host_keys()[t]
                if not size_ok(p._allow_larger_keys, e['hostkey_size'], a['hostkey_size']): bad.append('Host key (%%s) sizes' %% t)
                if len(e['ca_key_type']) > 0 and e['ca_key_size'] > 0:
                    if a['ca_key_type'] != e['ca_key_type']: bad.append('CA signature type')
                    elif not size_ok(p._allow_larger_keys, e['ca_key_size'], a['ca_key_size']): bad.append('CA signature size (%%s)' %% a['ca_key_type'])
    if p._kex is not None:
        if sub:
            if any(x not in p._kex for x in kex.kex_algorithms): bad.append('Key exchanges')
            for mk in ('kex-strict-s-v00@openssh.com', 'kex-strict-c-v00@openssh.com'):
                if mk in p._kex and mk not in kex.kex_algorithms:
                    bad.append('Key exchanges'); break
        elif kex.kex_algorithms != p._kex: bad.append('Key exchanges')
    for fld, pol, act in (('Ciphers', p._ciphers, kex.server.encryption), ('MACs', p._macs, kex.server.mac)):
        if pol is not None:
            if sub:
                if any(x not in pol for x in act): bad.append(fld)
            elif act != pol: bad.append(fld)
    if p._dh_modulus_sizes is not None:
        for g in sorted(p._dh_modulus_sizes):
            if g in kex.dh_modulus_sizes():
                if not size_ok(p._allow_larger_keys, p._dh_modulus_sizes[g], kex.dh_modulus_sizes()[g]): bad.append('Group exchange (%%s) modulus sizes' %% g)
    return bad
cases, failures = 0, []
per = {}
def fail(inp, got, want, cls):
    per[cls] = per.get(cls, 0) + 1
    if per[cls] <= 3:
        failures.append({'input': dict(inp, **{'class': cls}), 'got': got, 'want': want})
def check(p, banner, kex, inp):
    global cases
    cases += 1
    want = spec(p, banner, kex)
    ok, errs, text = p.evaluate(banner, kex)
    got = [e['mismatched_field'] for e in errs]
    if ok != (len(errs) == 0):
        fail(inp, {'passed': ok, 'errors': got}, 'passed iff the error list is empty', 'verdict-vs-errors')
    if sorted(got) != sorted(want):
        fail(inp, {'errors': got}, {'violated fields': want}, 'fields')
    for e in errs:
        if e['mismatched_field'] not in text or not all(k in e for k in ('expected_required', 'expected_optional', 'actual')):
            fail(inp, e, 'each error names its field with expected and actual values', 'error-shape')
        # the error shows the peer's values as sent (order and repetitions included)
        if kex is not None:
            sent = {'Key exchanges': kex.kex_algorithms, 'Host keys': kex.key_algorithms, 'Ciphers': kex.server.encryption, 'MACs': kex.server.mac}.get(e['mismatched_field'])
            if sent is not None and list(e['actual']) != list(sent):
                fail(inp, {'field': e['mismatched_field'], 'actual in the error': e['actual']}, {'as sent': sent}, 'error-actual')
            if sent is not None and ('Actual:   ' + ', '.join(sent)) not in text and ', '.join(sent) not in text:
                fail(inp, {'field': e['mismatched_field'], 'text': text[-300:]}, {'as sent': sent}, 'error-actual-text')
    return ok
banner = Banner.parse('SSH-2.0-OpenSSH_9.9')
# 1. list fields, exhaustively over the small universe: policy lists x peer lists x flags (host keys with optional lists)
pl = lists(2) + [['a', 'b', 'kex-strict-s-v00@openssh.com'], ['kex-strict-s-v00@openssh.com', 'a', 'b']]
for sub in (False, True):
    for pol in pl:
        for act in peer_lists(3):
            kex = H.make_kex(act, ['a'], ['a'], ['a'])
            check(mk_policy(kex=pol, subset=sub), banner, kex, {'field': 'kex', 'policy': pol, 'peer': act, 'subset': sub})
            kex = H.make_kex(['a'], ['a'], act, list(reversed(act)), cli_enc=['c2s-x'], cli_mac=['c2s-y', 'a'])
            check(mk_policy(ciphers=pol, macs=pol, subset=sub), banner, kex, {'field': 'ciphers+macs', 'policy': pol, 'peer': act, 'subset': sub})
    for pol in lists(2):
        for opt in (None, [], ['b'], ['a', 'b']):
            for act in peer_lists(3):
                kex = H.make_kex(['a'], act, ['a'], ['a'])
                check(mk_policy(host_keys=pol, optional=opt, subset=sub), banner, kex, {'field': 'host keys', 'policy': pol, 'optional': opt, 'peer': act, 'subset': sub})
# 2. sizes: boundary values x larger-keys flag x CA type/size precedence
sizes = [1024, 2047, 2048, 3072, 4096]
for larger in (False, True):
    for e, a in itertools.product(sizes, repeat=2):
        for eca, aca in (('', ''), ('ssh-rsa', 'ssh-rsa'), ('ssh-rsa', 'ssh-ed25519'), ('ssh-ed25519', 'ssh-ed25519')):
            for ecs, acs in ((0, 0), (2048, 2048), (2048, 4096), (4096, 2048), (0, 2048)):
                kex = H.make_kex(['a'], ['rsa-sha2-512'], ['a'], ['a'])
                kex.set_host_key('rsa-sha2-512', b'', a, aca, acs)
                kex.set_dh_modulus_size('diffie-hellman-group-exchange-sha256', a)
                p = mk_policy(hk_sizes={'rsa-sha2-512': {'hostkey_size': e, 'ca_key_type': eca, 'ca_key_size': ecs}, 'absent-type': {'hostkey_size': 1}},
                              dh={'diffie-hellman-group-exchange-sha256': e, 'absent-gex': 1}, larger=larger)
                check(p, banner, kex, {'field': 'sizes', 'expected': [e, eca, ecs], 'actual': [a, aca, acs], 'larger': larger})
# 3. banner / compression / no kex
for pb in (None, 'SSH-2.0-OpenSSH_9.9', 'SSH-2.0-OpenSSH_9.8'):
    for pc in (None, ['none'], ['none', 'zlib@openssh.com']):
        kex = H.make_kex(['a'], ['a'], ['a'], ['a'], comp=['none', 'zlib@openssh.com'])
        check(mk_policy(banner=pb, comp=pc), banner, kex, {'field': 'banner/compression', 'policy': [pb, pc]})
        check(mk_policy(banner=pb, comp=pc, kex=['zzz']), banner, None, {'field': 'no kex', 'policy': [pb, pc]})
# 4. monotonicity: shrinking a passing peer's lists under subset mode / growing keys under larger-keys mode never turns a pass into a fail
rnd = random.Random(99)
for _ in range(3000):
    pol = [rnd.choice(U) for _ in range(rnd.randrange(1, 4))]
    act = [rnd.choice(U) for _ in range(rnd.randrange(1, 5))]
    p = mk_policy(kex=pol, ciphers=pol, macs=pol, host_keys=pol, subset=True)
    kex = H.make_kex(act, act, act, act)
    cases += 1
    if p.evaluate(banner, kex)[0]:
        i = rnd.randrange(len(act))
        small = act[:i] + act[i + 1:]
        if small and not ('kex-strict-s-v00@openssh.com' in pol and 'kex-strict-s-v00@openssh.com' not in small):
            p2 = mk_policy(kex=pol, ciphers=pol, macs=pol, host_keys=pol, subset=True)
            if not p2.evaluate(banner, H.make_kex(small, small, small, small))[0]:
                fail({'policy': pol, 'peer': act, 'shrunk': small}, 'fail', 'still passes', 'monotone-subset')
    e, a, d = rnd.choice(sizes), rnd.choice(sizes), rnd.choice([0, 1, 1024])
    kex = H.make_kex(['a'], ['rsa-sha2-512'], ['a'], ['a']); kex.set_host_key('rsa-sha2-512', b'', a, '', 0); kex.set_dh_modulus_size('g', a)
    kex2 = H.make_kex(['a'], ['rsa-sha2-512'], ['a'], ['a']); kex2.set_host_key('rsa-sha2-512', b'', a + d, '', 0); kex2.set_dh_modulus_size('g', a + d)
    mkp = lambda: mk_policy(hk_sizes={'rsa-sha2-512': {'hostkey_size': e}}, dh={'g': e}, larger=True)
    if mkp().evaluate(banner, kex)[0] and not mkp().evaluate(banner, kex2)[0]:
        fail({'expected': e, 'actual': a, 'grown': a + d}, 'fail', 'still passes', 'monotone-larger')
# 5. a policy file written with the deprecated per-key directives is enforced like the equivalent new-style policy
GEXN = 'diffie-hellman-group-exchange-sha256'
OLD = """name = "Old style"
version = 1
hostkey_size_rsa-sha2-512 = 3072
hostkey_size_ssh-rsa-cert-v01@openssh.com = 3072
cakey_size_ssh-rsa-cert-v01@openssh.com = 4096
dh_modulus_size_%%s = 3072
host keys = rsa-sha2-512, ssh-rsa-cert-v01@openssh.com
key exchanges = %%s
ciphers = a
macs = a
""" %% (GEXN, GEXN)
import io
for larger in (False, True):
    text = OLD + ('allow_larger_keys = true\n' if larger else '')
    for hs, cs, ds in itertools.product((2048, 3072, 4096), (2048, 4096, 8192), (2048, 3072, 4096)):
        cases += 1
        try:
            p = Policy(policy_data=text)
            p._warning_target = io.StringIO()
        except Exception as e:
            fail({'policy': 'deprecated directives'}, repr(e), 'the policy loads', 'deprecated-load'); break
        kex = H.make_kex([GEXN], ['rsa-sha2-512', 'ssh-rsa-cert-v01@openssh.com'], ['a'], ['a'])
        kex.set_host_key('rsa-sha2-512', b'', hs, '', 0)
        kex.set_host_key('ssh-rsa-cert-v01@openssh.com', b'', hs, 'ssh-rsa', cs)
        kex.set_dh_modulus_size(GEXN, ds)
        ok, errs, txt = p.evaluate(banner, kex)
        got = sorted(e['mismatched_field'] for e in errs)
        want = []
        if not size_ok(larger, 3072, hs): want += ['Host key (rsa-sha2-512) sizes', 'Host key (ssh-rsa-cert-v01@openssh.com) sizes']
        if not size_ok(larger, 4096, cs): want += ['CA signature size (ssh-rsa)']
        if not size_ok(larger, 3072, ds): want += ['Group exchange (%%s) modulus sizes' %% GEXN]
        if got != sorted(want) or ok != (not want):
            fail({'policy': 'deprecated directives', 'larger': larger, 'peer sizes (host, CA, modulus)': [hs, cs, ds]}, {'passed': ok, 'errors': got}, {'errors': sorted(want)}, 'deprecated-directives')
# 6. one policy, several targets: each target's verdict and error list are its own (a failing target leaves nothing behind for the next)
sys.path.insert(0, %(native)r)
import fakenet as F, os, tempfile
from ssh_audit.builtin_policies import BUILTIN_POLICIES
pol = 'Hardened OpenSSH Server v9.9 (version 1)'
bp = BUILTIN_POLICIES[pol]
good = F.kexinit(bp['kex'], bp['host_keys'], bp['ciphers'], bp['macs'])
bad = F.kexinit(bp['kex'] + ['diffie-hellman-group1-sha1'], bp['host_keys'], bp['ciphers'], bp['macs'])
for order in (['bad.test', 'good.test'], ['bad.test', 'bad2.test', 'good.test']):
    cases += 1
    f = tempfile.NamedTemporaryFile('w', suffix='.txt', delete=False); f.write(''.join(h + '\n' for h in order)); f.close()
    try:
        net = F.FakeNet({h: F.Peer('healthy', kex=(good if h.startswith('good') else bad)) for h in order})
        st, out = F.run_main(['-n', '-j', '--skip-rate-test', '-P', pol, '-T', f.name, '--threads', '1'], net)
    finally:
        os.unlink(f.name)
    try:
        arr = json.loads(out)
        for h in order:
            el = [e for e in arr if e.get('host') == h][0]
            wantp = h.startswith('good')
            if el['passed'] != wantp or len(el['errors']) != (0 if wantp else 1):
                fail({'policy targets': order, 'host': h}, {'passed': el['passed'], 'errors': len(el['errors'])}, {'passed': wantp, 'errors': 0 if wantp else 1}, 'verdict-leaks-between-targets')
    except Exception as e:
        fail({'policy targets': order}, repr(e) + out[:200], 'a JSON array with one verdict per target', 'multi-target-json')
print(json.dumps({'cases': cases, 'failures': failures}))
'''

C05 = r'''
import json, sys, itertools, random, copy
sys.path.insert(0, %(native)r)
import harness as H
from ssh_audit.policy import Policy
from ssh_audit.banner import Banner
from ssh_audit.builtin_policies import BUILTIN_POLICIES
cases, failures = 0, []
per = {}
def fail(inp, got, want, cls):
    per[cls] = per.get(cls, 0) + 1
    if per[cls] <= 3:
        failures.append({'input': dict(inp, **{'class': cls}), 'got': got, 'want': want})
banner = Banner.parse('SSH-2.0-OpenSSH_9.9')
GSS = 'gss-group14-sha256-toWM5Slw5Ew8Mqkay+al2g=='
peers = [
 dict(kex=['curve25519-sha256', 'diffie-hellman-group-exchange-sha256'], key=['ssh-ed25519', 'rsa-sha2-512'], enc=['aes256-gcm@openssh.com', 'aes128-ctr'], mac=['hmac-sha2-256-etm@openssh.com'], sizes={'rsa-sha2-512': (3072, '', 0)}, dh={'diffie-hellman-group-exchange-sha256': 3072}),
 dict(kex=[GSS, 'curve25519-sha256@libssh.org', 'a=b', 'x+y/z@example.com'], key=['ssh-ed25519-cert-v01@openssh.com', 'ssh-rsa'], enc=['chacha20-poly1305@openssh.com'], mac=['umac-128-etm@openssh.com', 'hmac-sha1'], sizes={'ssh-ed25519-cert-v01@openssh.com': (256, 'ssh-rsa', 4096), 'ssh-rsa': (2048, '', 0)}, dh={}),
 dict(kex=['k'], key=['h'], enc=['c'], mac=['m'], sizes={}, dh={}),
 dict(kex=['k1', 'k2', 'k3', 'k1'], key=['h1', 'h2'], enc=['c1', 'c2', 'c3'], mac=['m1', 'm2'], sizes={'h1': (4096, 'ssh-ed25519', 256)}, dh={'k2': 2048, 'k3': 4096}),
]
# seeded random peers: names drawn from the database and odd-but-legal spellings, random sizes
import os
from ssh_audit.ssh2_kexdb import SSH2_KexDB
_r = random.Random(4242)
_DB = SSH2_KexDB.MASTER_DB
def _names(cat, k):
    pool = [n for n in _DB[cat] if not n.endswith('-*')] + ['x=y@example.com', 'a+b/c==', 'name-with-dash_and.dot@host.example']
    return _r.sample(pool, k)
for _i in range(8 if os.environ.get('VERIF_TIER', 'quick') == 'quick' else 80):
    _key = _names('key', _r.randrange(1, 5))
    _kex = _names('kex', _r.randrange(1, 6))
    peers.append(dict(kex=_kex, key=_key, enc=_names('enc', _r.randrange(1, 6)), mac=_names('mac', _r.randrange(1, 5)),
                      sizes={t: (_r.choice([1024, 2048, 3072, 4096, 256]), _r.choice(['', 'ssh-rsa', 'ssh-ed25519']), _r.choice([0, 2048, 4096])) for t in _key[:_r.randrange(0, 3)]},
                      dh={g: _r.choice([1024, 2048, 3072, 4096]) for g in _kex[:_r.randrange(0, 2)]}))
for _p in peers:
    # a CA type without a CA size (or the reverse) is not a certificate: keep the generated peers well-formed
    _p['sizes'] = {t: (sz, (cat if cas else ''), (cas if cat else 0)) for t, (sz, cat, cas) in _p['sizes'].items()}
def build(p):
    # (the client-to-server lists differ from the server-to-client ones: policies are made from, and compared with, the latter)
    kex = H.make_kex(p['kex'], p['key'], p['enc'], p['mac'], cli_enc=['c2s-' + x for x in reversed(p['enc'])] + ['c2s-extra'], cli_mac=['c2s-only-mac'])
    for t, (sz, cat, cas) in p['sizes'].items():
        kex.set_host_key(t, b'rawbytes', sz, cat, cas)
    for g, sz in p['dh'].items():
        kex.set_dh_modulus_size(g, sz)
    return kex
def fields(errs):
    return sorted(e['mismatched_field'] for e in errs)
for pi, p in enumerate(peers):
    inp = {'peer': pi}
    cases += 1
    try:
        data = Policy.create('src', banner, build(p), False)
        pol = Policy(policy_data=data)
    except Exception as e:
        fail(inp, 'exception %%r' %% (e,), 'the generated policy loads', 'load' + ('-equals-sign' if any('=' in n for n in p['kex']) else ''))
        continue
    ok, errs, text = pol.evaluate(banner, build(p))
    if not ok or errs:
        fail(inp, {'passed': ok, 'errors': fields(errs)}, 'passes with no errors on the same peer', 'self-pass')
        continue
    # single-attribute perturbations under the default exact-match settings
    def perturbed():
        for cat, fld in (('kex', 'Key exchanges'), ('key', 'Host keys'), ('enc', 'Ciphers'), ('mac', 'MACs')):
            l = p[cat]
            yield 'add ' + cat, dict(p, **{cat: l + ['extra-alg']}), fld
            yield 'insert ' + cat, dict(p, **{cat: ['extra-alg'] + l}), fld
            if len(l) > 1:
                yield 'remove ' + cat, dict(p, **{cat: l[:-1]}), fld
                if l[0] != l[1]:
                    yield 'reorder ' + cat, dict(p, **{cat: [l[1], l[0]] + l[2:]}), fld
            yield 'rename ' + cat, dict(p, **{cat: l[:-1] + [l[-1] + 'x']}), fld
        for t, (sz, cat_, cas) in p['sizes'].items():
            s2 = dict(p['sizes']); s2[t] = (sz + 1024, cat_, cas); yield 'hostkey size ' + t, dict(p, sizes=s2), 'Host key (%%s) sizes' %% t
            s2 = dict(p['sizes']); s2[t] = (sz - 1, cat_, cas); yield 'hostkey size- ' + t, dict(p, sizes=s2), 'Host key (%%s) sizes' %% t
            if cat_:
                s2 = dict(p['sizes']); s2[t] = (sz, cat_, cas + 1024); yield 'ca size ' + t, dict(p, sizes=s2), 'CA signature size (%%s)' %% cat_
                s2 = dict(p['sizes']); s2[t] = (sz, 'ssh-foo', cas); yield 'ca type ' + t, dict(p, sizes=s2), 'CA signature type'
        for g, sz in p['dh'].items():
            d2 = dict(p['dh']); d2[g] = sz + 1024; yield 'modulus ' + g, dict(p, dh=d2), 'Group exchange (%%s) modulus sizes' %% g
            d2 = dict(p['dh']); d2[g] = sz - 1; yield 'modulus- ' + g, dict(p, dh=d2), 'Group exchange (%%s) modulus sizes' %% g
    for name, q, fld in perturbed():
        cases += 1
        pol = Policy(policy_data=data)
        ok, errs, text = pol.evaluate(banner, build(q))
        if ok or fld not in fields(errs):
            fail(dict(inp, perturbation=name), {'passed': ok, 'errors': fields(errs)}, {'passed': False, 'error names': fld}, 'drift')
# the kind of peer is part of what -M records: a policy made in a client audit is a client policy (-P in a client audit accepts only those,
# and a server audit only server policies), and it passes on the same peer either way
for pi, p in enumerate(peers[:4]):
    for client in (False, True):
        cases += 1
        inp = {'peer': pi, 'client audit': client}
        try:
            pol = Policy(policy_data=Policy.create('src', banner, build(p), client))
            ok, errs, text = pol.evaluate(banner, build(p))
        except Exception as e:
            fail(inp, 'exception %%r' %% (e,), 'the generated policy loads and evaluates', 'kind-load'); continue
        if pol.is_server_policy() != (not client) or not ok or errs:
            fail(inp, {'is_server_policy': pol.is_server_policy(), 'passed': ok, 'errors': fields(errs)}, {'is_server_policy': not client, 'passed': True, 'errors': []}, 'policy-kind')
# the peer as parsed from the wire (SSH2_Kex.parse of a KEXINIT payload): repeated names and empty name-lists are part of what the peer sent
sys.path.insert(0, %(native)r)
import fakenet as F
from ssh_audit.ssh2_kex import SSH2_Kex
from ssh_audit.outputbuffer import OutputBuffer
def wire(kx, ky, en, mc):
    return SSH2_Kex.parse(OutputBuffer(), F.kexinit(kx, ky, en, mc)[1:])
WIRE = [dict(kex=['a', 'b', 'c'], key=['h'], enc=['c1', 'c2'], mac=['m1']),
        dict(kex=['curve25519-sha256'], key=['ssh-ed25519'], enc=['aes256-gcm@openssh.com'], mac=[]),          # AEAD-only peer: empty MAC list
        dict(kex=['k'], key=['h'], enc=[], mac=['m'])]
for wi, p in enumerate(WIRE):
    cases += 1
    inp = {'wire peer': wi}
    try:
        data = Policy.create('src', banner, wire(p['kex'], p['key'], p['enc'], p['mac']), False)
        ok, errs, text = Policy(policy_data=data).evaluate(banner, wire(p['kex'], p['key'], p['enc'], p['mac']))
    except Exception as e:
        fail(inp, 'exception %%r' %% (e,), 'the generated policy loads and evaluates', 'wire-load'); continue
    if not ok or errs:
        fail(dict(inp, lists=p), {'passed': ok, 'errors': fields(errs)}, 'passes with no errors on the same peer', 'wire-self-pass')
    for cat, fld in (('kex', 'Key exchanges'), ('key', 'Host keys'), ('enc', 'Ciphers'), ('mac', 'MACs')):
        if not p[cat]:
            continue
        for name, l2 in (('repeat-first', p[cat] + [p[cat][0]]), ('repeat-last-in-front', [p[cat][-1]] + p[cat])):
            cases += 1
            q = dict(p, **{cat: l2})
            ok, errs, text = Policy(policy_data=data).evaluate(banner, wire(q['kex'], q['key'], q['enc'], q['mac']))
            if ok or fld not in fields(errs):
                fail(dict(inp, perturbation=name + ' ' + cat, lists=q[cat]), {'passed': ok, 'errors': fields(errs)}, {'passed': False, 'error names': fld}, 'wire-drift-repeated-name')
# end to end over the fake network: a policy made with -M from a probed server passes on that server (-P) and fails on one whose host key or
# CA key differs in size by a few bits, or whose group-exchange modulus differs
import tempfile, os
def psrv(rsa_bits, cert_bits, ca_bits, modulus):
    return F.Server(['curve25519-sha256', 'diffie-hellman-group-exchange-sha256'], ['rsa-sha2-512', 'ssh-rsa-cert-v01@openssh.com', 'ssh-ed25519'], ['aes256-gcm@openssh.com'], ['hmac-sha2-512-etm@openssh.com'],
                    hostkeys={'rsa-sha2-512': F.rsa_blob(rsa_bits), 'ssh-rsa-cert-v01@openssh.com': F.cert_blob('rsa', cert_bits, F.rsa_blob(ca_bits)), 'ssh-ed25519': F.ed25519_blob()},
                    moduli=[modulus], select='roundup')
pf = tempfile.NamedTemporaryFile('w', suffix='.policy', delete=False); pf.close(); os.unlink(pf.name)
try:
    st, out = F.run_main(['-n', '--skip-rate-test', '-M', pf.name, 'a.test'], F.FakeNet({'a.test': psrv(4096, 4096, 4096, 3072)}))
    cases += 1
    if not os.path.exists(pf.name):
        fail({'step': '-M'}, {'status': st, 'tail': out[-200:]}, 'a policy file', 'make-policy')
    else:
        for name, args, want in (('same server', (4096, 4096, 4096, 3072), 0), ('host key 4088 bits', (4088, 4096, 4096, 3072), 3), ('certificate key 4088 bits', (4096, 4088, 4096, 3072), 3),
                                 ('CA key 4080 bits', (4096, 4096, 4080, 3072), 3), ('modulus 4096', (4096, 4096, 4096, 4096), 3), ('host key 4104 bits', (4104, 4096, 4096, 3072), 3)):
            cases += 1
            st, out = F.run_main(['-n', '--skip-rate-test', '-P', pf.name, 'b.test'], F.FakeNet({'b.test': psrv(*args)}))
            if st != want:
                fail({'probed peer': name, 'sizes (rsa, cert, CA, modulus)': list(args)}, {'status': st, 'tail': out.strip().split('\n')[-4:]}, {'status': want}, 'probed-roundtrip')
finally:
    if os.path.exists(pf.name):
        os.unlink(pf.name)
# every built-in policy is passed by a peer configured exactly as it lists
for name, b in BUILTIN_POLICIES.items():
    cases += 1
    pol = Policy.load_builtin_policy(name)
    kex = H.make_kex(b['kex'] or ['k'], b['host_keys'] or ['h'], b['ciphers'] or ['c'], b['macs'] or ['m'], comp=(b['compressions'] or ['none']))
    for t, info in (b['hostkey_sizes'] or {}).items():
        kex.set_host_key(t, b'', info['hostkey_size'], info.get('ca_key_type', ''), info.get('ca_key_size', 0))
    for g, sz in (b['dh_modulus_sizes'] or {}).items():
        kex.set_dh_modulus_size(g, sz)
    bn = Banner.parse(b['banner']) if b['banner'] else banner
    ok, errs, text = pol.evaluate(bn, kex)
    if not ok:
        fail({'builtin': name}, {'passed': ok, 'errors': fields(errs)}, 'passes on a peer configured exactly per the policy', 'builtin')
    # ... and on a peer that additionally offers the host keys the policy declares optional
    if b.get('optional_host_keys'):
        cases += 1
        kex2 = H.make_kex(b['kex'] or ['k'], list(b['host_keys'] or ['h']) + list(b['optional_host_keys']), b['ciphers'] or ['c'], b['macs'] or ['m'], comp=(b['compressions'] or ['none']))
        for t, info in (b['hostkey_sizes'] or {}).items():
            kex2.set_host_key(t, b'', info['hostkey_size'], info.get('ca_key_type', ''), info.get('ca_key_size', 0))
        for g, sz in (b['dh_modulus_sizes'] or {}).items():
            kex2.set_dh_modulus_size(g, sz)
        ok2, errs2, text2 = Policy.load_builtin_policy(name).evaluate(bn, kex2)
        if not ok2:
            fail({'builtin': name, 'peer': 'required + optional host keys'}, {'passed': ok2, 'errors': fields(errs2)}, 'passes: optional host keys may be offered', 'builtin-optional')
print(json.dumps({'cases': cases, 'failures': failures}))
'''
