"""Contract for Policy.evaluate (C06): the verdict and the set of errors are exactly the documented per-field conditions.

The peer (kex) and the policy are arbitrary: name lists are unbounded symbolic sequences, sizes unconstrained integers.
_append_error is a recorder (one counter per mismatched field); _get_errors is abstract."""
import z3
from pyvc.contracts import Contract
from pyvc.driver import Unit
from pyvc.values import fresh, Sym
from pyvc.state import mk
from pyvc import ops

T = 'rsa-sha2-512'
G = 'diffie-hellman-group-exchange-sha256'
FIELDS = ['Banner', 'Compression', 'Host keys', 'Host key (%s) sizes' % T, 'CA signature type', 'CA signature size', 'Key exchanges', 'Ciphers', 'MACs',
          'Group exchange (%s) modulus sizes' % G]


def key_of(field):
    if isinstance(field, Sym):
        return 'CA signature size'          # the only field name built from a peer value ('CA signature size (<actual CA type>)')
    if field.startswith('CA signature size'):
        return 'CA signature size'
    return field


def append_error_result(ip, st):
    k = 'n:' + key_of(st.frame['mismatched_field'])
    if k not in st.ghost:
        from pyvc.values import Unsupported
        raise Unsupported('unexpected error field %r' % (st.frame['mismatched_field'],))
    st.ghost[k] = ops.binop(ip, st, __import__('ast').Add(), st.ghost[k], 1)
    return None


def m_host_keys(ip, st, recv, args, kwargs):
    return st.ghost['$host_keys']


def m_dh_sizes(ip, st, recv, args, kwargs):
    return st.ghost['$dh_sizes']


def symlist(st, name):
    return st.new_symlist(fresh(name, ('list', 'str')).t, 'str')


def setup_evaluate(ip, st, fr, case):
    present, subset, sizes = case['$present'], case['$subset'], case['$sizes']
    f = {}
    f['_banner'] = fresh('pol_banner', ('opt', 'str')) if present else None
    for n in ('_compressions', '_host_keys', '_kex', '_ciphers', '_macs'):
        f[n] = symlist(st, 'pol' + n) if present else None
    f['_optional_host_keys'] = None
    f['_allow_algorithm_subset_and_reordering'] = subset
    f['_allow_larger_keys'] = fresh('larger', 'bool')
    f['_errors'] = st.new_list([])
    g = {}
    if sizes:
        for n in ('e_hs', 'e_cs', 'a_hs', 'a_cs', 'e_dh', 'a_dh'):
            g[n] = fresh(n, 'int')
        g['e_cat'], g['a_cat'] = fresh('e_cat', 'str'), fresh('a_cat', 'str')
        f['_hostkey_sizes'] = st.new_dict({T: st.new_dict({'hostkey_size': g['e_hs'], 'ca_key_type': g['e_cat'], 'ca_key_size': g['e_cs']}),
                                           'absent-type': st.new_dict({'hostkey_size': 1, 'ca_key_type': '', 'ca_key_size': 0})})
        f['_dh_modulus_sizes'] = st.new_dict({G: g['e_dh'], 'absent-gex': 1})
        st.ghost['$host_keys'] = st.new_dict({T: st.new_dict({'raw_hostkey_bytes': b'', 'hostkey_size': g['a_hs'], 'ca_key_type': g['a_cat'], 'ca_key_size': g['a_cs']})})
        st.ghost['$dh_sizes'] = st.new_dict({G: g['a_dh']})
    else:
        f['_hostkey_sizes'] = None
        f['_dh_modulus_sizes'] = None
        st.ghost['$host_keys'] = st.new_dict({})
        st.ghost['$dh_sizes'] = st.new_dict({})
    fr['self'] = st.new_obj('Policy', f)
    party = st.new_obj('<party>', {'compression': symlist(st, 'comp'), 'encryption': symlist(st, 'enc'), 'mac': symlist(st, 'mac')})
    other = st.new_obj('<party>', {'compression': symlist(st, 'ccomp'), 'encryption': symlist(st, 'cenc'), 'mac': symlist(st, 'cmac')})
    fr['kex'] = st.new_obj('<kex>', {'key_algorithms': symlist(st, 'keys'), 'kex_algorithms': symlist(st, 'kexs'), 'server': party, 'client': other})
    fr['banner'] = None
    for k in FIELDS:
        st.ghost['n:' + k] = 0
    for n, v in g.items():
        fr['g_' + n] = v
    ip.method_models[('<kex>', 'host_keys')] = m_host_keys
    ip.method_models[('<kex>', 'dh_modulus_sizes')] = m_dh_sizes
    return {}


def stubs():
    return [Contract('Policy._append_error', mode='contract', result=append_error_result, modifies=[], ensures=[],
                     note='recorder: counts one error for the named field (the rendering of errors is checked by the bounded part)'),
            Contract('Policy._get_errors', mode='contract', result=lambda ip, st: (st.new_list([]), fresh('error_text', 'str')), modifies=[], ensures=[])]


def N(k):
    return "ghost(%r)" % ('n:' + k)


def size_bad(e, a):
    return "((larger and %s < %s) or (not larger and %s != %s))" % (a, e, a, e)


def units():
    U = []
    LARGER = "self._allow_larger_keys"
    for present in (True, False):
        for subset in (False, True):
            for sizes in (False, True):
                if not present and (subset or sizes):
                    continue
                if present and sizes and subset:
                    continue
                ens = []
                want = {}
                if present:
                    want['Banner'] = "(self._banner is not None and 'None' != self._banner)"
                    want['Compression'] = "(kex.server.compression != self._compressions)"
                    if subset:
                        want['Host keys'] = "(not all_in(kex.key_algorithms, self._host_keys))"
                        want['Ciphers'] = "(not all_in(kex.server.encryption, self._ciphers))"
                        want['MACs'] = "(not all_in(kex.server.mac, self._macs))"
                    else:
                        want['Host keys'] = "(kex.key_algorithms != self._host_keys)"
                        want['Key exchanges'] = "(kex.kex_algorithms != self._kex)"
                        want['Ciphers'] = "(kex.server.encryption != self._ciphers)"
                        want['MACs'] = "(kex.server.mac != self._macs)"
                if sizes:
                    lg = LARGER
                    want['Host key (%s) sizes' % T] = "((%s and g_a_hs < g_e_hs) or (not %s and g_a_hs != g_e_hs))" % (lg, lg)
                    ca_on = "(len(g_e_cat) > 0 and g_e_cs > 0)"
                    want['CA signature type'] = "(%s and g_a_cat != g_e_cat)" % ca_on
                    want['CA signature size'] = "(%s and g_a_cat == g_e_cat and ((%s and g_a_cs < g_e_cs) or (not %s and g_a_cs != g_e_cs)))" % (ca_on, lg, lg)
                    want['Group exchange (%s) modulus sizes' % G] = "((%s and g_a_dh < g_e_dh) or (not %s and g_a_dh != g_e_dh))" % (lg, lg)
                for k in FIELDS:
                    if present and subset and k == 'Key exchanges':
                        # subset mode: an unlisted name, and/or a strict-kex marker the policy lists but the peer lacks (two separate errors are possible)
                        miss = "(('kex-strict-s-v00@openssh.com' in self._kex and 'kex-strict-s-v00@openssh.com' not in kex.kex_algorithms) or ('kex-strict-c-v00@openssh.com' in self._kex and 'kex-strict-c-v00@openssh.com' not in kex.kex_algorithms))"
                        ens.append("%s == (1 if not all_in(kex.kex_algorithms, self._kex) else 0) + (1 if %s else 0)" % (N(k), miss))
                        want[k] = "(not all_in(kex.kex_algorithms, self._kex) or %s)" % miss
                        continue
                    ens.append("%s == (1 if %s else 0)" % (N(k), want.get(k, 'False')))
                # the verdict: pass exactly when no field is violated
                ens.append("result[0] == (not (%s))" % ' or '.join(want.values()) if want else "result[0] == True")
                loops = {}
                if present and subset:
                    # (loop ordinals in source order: 1 host keys, 2 host-key sizes, 3 key exchanges, 4 ciphers, 5 MACs, 6 modulus sizes)
                    for i, var, (lst, pol) in zip((1, 3, 4, 5), ('hostkey_t', 'kex_t', 'cipher_t', 'mac_t'),
                                                  (('kex.key_algorithms', 'self._host_keys'), ('kex.kex_algorithms', 'self._kex'), ('kex.server.encryption', 'self._ciphers'),
                                                   ('kex.server.mac', 'self._macs'))):
                        loops[i] = dict(header='for %s in %s' % (var, lst), invariant=["ret == at_entry.ret", "all_in(%s[:_k], %s)" % (lst, pol)], use_head=["all_in_at(%s, %s, _k)" % (lst, pol)])
                U.append(Unit(Contract('Policy.evaluate', setup=setup_evaluate, raises={}, loops=loops,
                                       cases=[{'$present': present, '$subset': subset, '$sizes': sizes}], ensures=ens), harness=None))
    return U
