"""Bounded run-time stand-ins for the clauses of C02 that lie outside the proved units (main()'s fold over targets; the message parser
in front of audit())."""

NATIVE = r'''
import json, sys, os, tempfile, itertools
sys.path.insert(0, %(native)r)
import fakenet as F
from ssh_audit import exitcodes
cases, failures = 0, []
per = {}
def fail(inp, got, want, cls):
    per[cls] = per.get(cls, 0) + 1
    if per[cls] <= 3:
        failures.append({'input': dict(inp, **{'class': cls}), 'got': got, 'want': want})
def has_report(out):
    return any(l.startswith(('(kex) ', '(key) ', '(enc) ', '(mac) ')) for l in out.split('\n'))
# 1. incomplete audits never look clean: a KEXINIT whose payload is cut short (correct framing) gives no algorithm report and status 1,
#    in text and JSON; the complete message gives a report and a status that is 0 only if the report shows no warning or failure
ARCHS = {'clean': (['sntrup761x25519-sha512@openssh.com'], ['ssh-ed25519'], ['aes256-gcm@openssh.com'], ['hmac-sha2-512-etm@openssh.com']),
         # the only finding is the context-dependent Terrapin warning (no strict-kex marker)
         'terrapin-only': (['sntrup761x25519-sha512@openssh.com'], ['ssh-ed25519'], ['chacha20-poly1305@openssh.com'], ['hmac-sha2-512-etm@openssh.com']),
         'legacy': (['diffie-hellman-group1-sha1'], ['ssh-dss'], ['3des-cbc'], ['hmac-md5'])}
for name, (kx, ky, en, mc) in ARCHS.items():
    payload = F.kexinit(kx, ky, en, mc)
    for js in (False, True):
        for k in list(range(1, len(payload), 5)) + list(range(max(1, len(payload) - 12), len(payload) + 1)):
            cases += 1
            srv = F.Server(kx, ky, en, mc, hostkeys={'ssh-ed25519': F.ed25519_blob()}, faults={(0, 'kexinit'): ('ptrunc', k)})
            st, out = F.run_main(['-n', '--skip-rate-test'] + (['-j'] if js else []) + ['s.test'], F.FakeNet({'s.test': srv}))
            inp = {'peer': name, 'payload bytes kept': k, 'of': len(payload), 'json': js}
            if k < len(payload):
                rep = has_report(out) or (js and '"kex"' in out)
                if rep or st != exitcodes.CONNECTION_ERROR:
                    fail(inp, {'status': st, 'algorithm report': rep}, {'status': 1, 'algorithm report': False}, 'incomplete-looks-complete')
            else:
                if st not in (0, 2, 3) or (not js and not has_report(out)):
                    fail(inp, {'status': st}, 'a report with status 0/2/3', 'complete-message')
                if not js and st == 0 and ('[fail]' in out or '[warn]' in out):
                    fail(inp, {'status': st}, 'non-zero status when the report shows a warning or failure', 'clean-status-with-findings')
                if js:
                    doc = json.loads(out)
                    lv = set(l for c in ('kex', 'key', 'enc', 'mac') for e in doc[c] for l, v in e['notes'].items() if v)
                    want = 3 if 'fail' in lv else (2 if 'warn' in lv else 0)
                    if st != want:
                        fail(inp, {'status': st, 'levels in the JSON report': sorted(lv)}, {'status': want}, 'json-status-vs-findings')
# 2. a multi-target run exits with the highest-ranked status among its targets (ranking: 0 < 2 < 3 < 1 < internal error), in every order
RANK = [exitcodes.GOOD, exitcodes.WARNING, exitcodes.FAILURE, exitcodes.CONNECTION_ERROR, exitcodes.UNKNOWN_ERROR]
def mk(kind):
    if kind == 'refused':
        return F.Peer('refused')
    kx, ky, en, mc = {'good': ARCHS['clean'], 'fail': ARCHS['legacy'], 'warn': (['curve25519-sha256'], ['ssh-ed25519'], ['aes128-ctr'], ['hmac-sha2-256'])}[kind]
    return F.Peer('healthy', kex=F.kexinit(kx, ky, en, mc))
alone = {}
for kind in ('good', 'warn', 'fail', 'refused'):
    st, out = F.run_main(['-n', '--skip-rate-test', 'x.test'], F.FakeNet({'x.test': mk(kind)}))
    alone[kind] = st
if [alone[k] for k in ('good', 'warn', 'fail', 'refused')] != [0, 2, 3, 1]:
    fail({'single targets': alone}, alone, {'good': 0, 'warn': 2, 'fail': 3, 'refused': 1}, 'single-target-status')
for r in (2, 3):
    for kinds in itertools.permutations(('good', 'warn', 'fail', 'refused'), r):
        for js in (False, True):
            cases += 1
            hosts = ['t%%d-%%s.test' %% (i, k) for i, k in enumerate(kinds)]
            f = tempfile.NamedTemporaryFile('w', suffix='.txt', delete=False); f.write(''.join(h + '\n' for h in hosts)); f.close()
            try:
                st, out = F.run_main(['-n', '--skip-rate-test', '-T', f.name, '--threads', '1'] + (['-j'] if js else []), F.FakeNet({h: mk(k) for h, k in zip(hosts, kinds)}))
            finally:
                os.unlink(f.name)
            want = max((alone[k] for k in kinds), key=RANK.index)
            if st != want:
                fail({'targets': list(kinds), 'json': js}, {'exit status': st}, {'highest-ranked status': want}, 'multi-target-status')
# 3. a target with an out-of-range port is an internal error of that target only (status -1 / 255 for the run when nothing ranks higher)
print(json.dumps({'cases': cases, 'failures': failures}))
'''
