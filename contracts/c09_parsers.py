"""Contracts for C09 (no peer can crash the auditor): exception safety of the probe-reply parsers for EVERY payload.

Modular: each parser is verified against the contracts of the parsers it calls.  The socket is a method model whose
read_packet() returns an unconstrained (type, payload) pair each time it is called.  Result: the only exception that can
leave KexDH.recv_reply / KexGroupExchange.send_init_gex is KexDHException, which the probe loops handle."""
import z3
from pyvc.contracts import Contract
from pyvc.driver import Unit
from pyvc.values import fresh, Sym
from pyvc.state import mk

PARSE_ERRORS = {'struct.error': 'True', 'ValueError': 'True', 'IndexError': 'True'}     # (UnicodeDecodeError is a ValueError)


def m_noop(ip, st, recv, args, kwargs):
    return None


def m_read_packet(ip, st, recv, args, kwargs):
    t = fresh('ptype', 'int')
    st.assume(z3.And(t.t >= -1, t.t <= 255))
    return (t, fresh('payload', 'bytes'))


def new_kexdh(ip, st, cls='KexDH'):
    out = st.new_obj('<out>', {})
    for name in ('d', 'v', 'fail', 'warn', 'info'):
        ip.method_models[('<out>', name)] = m_noop
    return st.new_obj(cls, {
        'out': out, '_KexDH__hostkey_type': fresh('hk_type0', 'str'), '_KexDH__hostkey_e': fresh('hk_e0', 'int'), '_KexDH__hostkey_n': fresh('hk_n0', 'int'),
        '_KexDH__hostkey_n_len': fresh('hk_len0', 'int'), '_KexDH__ca_key_type': fresh('ca_type0', 'str'), '_KexDH__ca_n_len': fresh('ca_len0', 'int'),
        '_KexDH__ca_n': fresh('ca_n0', 'int'), '_KexDH__g': 0, '_KexDH__p': 0, '_KexDH__q': 0, '_KexDH__x': 0, '_KexDH__e': 0})


def setup_self(ip, st, fr, case):
    fr['self'] = new_kexdh(ip, st, case.get('$cls', 'KexDH'))
    return {}


def setup_recv_reply(ip, st, fr, case):
    setup_self(ip, st, fr, case)
    fr['s'] = st.new_obj('<sock>', {})
    fr['parse_host_key_size'] = fresh('parse_size', 'bool')
    ip.method_models[('<sock>', 'read_packet')] = m_read_packet
    for name in ('write_byte', 'write_int', 'write_mpint2', 'send_packet'):
        ip.method_models[('<sock>', name)] = m_noop
    return {}


def get_bytes_result(ip, st):
    """call-site view of KexDH.__get_bytes (proved in the unit of the same name): (buf[ptr+4 : ptr+4+n], n, ptr+4+n) with n the big-endian length field"""
    n = fresh('n', 'int')
    st.assume(z3.And(n.t >= 0, n.t < 2 ** 32))
    env = {'g_n': n}
    st.assume(ip._z(ip.truth(ip.eval_spec("g_n == val_be(buf[ptr:ptr + 4])", st, env), st)))
    return (ip.eval_spec("buf[ptr + 4:ptr + 4 + g_n]", st, env), n, ip.eval_spec("ptr + 4 + g_n", st, env))


def ca_key_result(ip, st):
    t, n = fresh('ca_type', 'str'), fresh('ca_len', 'int')
    st.assume(n.t >= 0)
    return (t, n)


# KexDH.send_init raises nothing exactly under this precondition (q is what set_params derives from p; the group-exchange unit has to establish
# it from the server-supplied modulus through the real set_params)
SEND_INIT_REQUIRES = ["self._KexDH__q >= 3", "self._KexDH__p != 0"]


def m_wire_byte(ip, st, recv, args, kwargs):
    st.ghost['ordered'] = st.ghost['ordered'] and st.ghost['n_byte'] == 0 and st.ghost['n_mp'] == 0 and st.ghost['n_pkt'] == 0
    st.ghost['n_byte'] += 1
    st.ghost['byte_val'] = args[0]
    return None


def m_wire_mpint2(ip, st, recv, args, kwargs):
    st.ghost['ordered'] = st.ghost['ordered'] and st.ghost['n_byte'] == 1 and st.ghost['n_mp'] == 0 and st.ghost['n_pkt'] == 0
    st.ghost['n_mp'] += 1
    st.ghost['mp_val'] = args[0]
    return None


def m_wire_send(ip, st, recv, args, kwargs):
    st.ghost['ordered'] = st.ghost['ordered'] and st.ghost['n_byte'] == 1 and st.ghost['n_mp'] == 1 and st.ghost['n_pkt'] == 0
    st.ghost['n_pkt'] += 1
    return None


def setup_send_init(ip, st, fr, case):
    """KexDH with arbitrary group parameters; a socket that records what is written (ghost counters; the order of the calls is concrete)"""
    fr['self'] = new_kexdh(ip, st, 'KexDH')
    for f in ('g', 'p', 'q', 'x', 'e'):
        st.mut(fr['self']).f['_KexDH__' + f] = fresh('dh_' + f + '0', 'int')
    fr['s'] = st.new_obj('<wire>', {})
    fr['init_msg'] = fresh('init_msg', 'int')
    st.ghost.update({'n_byte': 0, 'n_mp': 0, 'n_pkt': 0, 'byte_val': None, 'mp_val': None, 'ordered': True})
    ip.method_models[('<wire>', 'write_byte')] = m_wire_byte
    ip.method_models[('<wire>', 'write_mpint2')] = m_wire_mpint2
    ip.method_models[('<wire>', 'send_packet')] = m_wire_send
    return {}


def send_init_units():
    """KexDH.send_init itself (was an assumed contract): under SEND_INIT_REQUIRES nothing is raised, the private exponent is drawn from [2, q), the
    public value lies in the range of the modulus, and exactly one packet goes out: the message type byte, then e as an mpint, then send_packet"""
    return [Unit(Contract('KexDH.send_init', setup=setup_send_init,
                          raises={'ValueError': "not (%s)" % " and ".join(SEND_INIT_REQUIRES)},     # exactly when: the precondition is sufficient AND necessary
                          modifies=['self._KexDH__x:int', 'self._KexDH__e:int'],
                          ensures=["2 <= self._KexDH__x and self._KexDH__x < self._KexDH__q",
                                   "implies(self._KexDH__p > 0, 0 <= self._KexDH__e and self._KexDH__e < self._KexDH__p)",
                                   "self._KexDH__g == old.self._KexDH__g and self._KexDH__p == old.self._KexDH__p and self._KexDH__q == old.self._KexDH__q",
                                   "ghost('n_byte') == 1 and ghost('n_mp') == 1 and ghost('n_pkt') == 1 and ghost('ordered')",
                                   "ghost('byte_val') == init_msg and ghost('mp_val') == self._KexDH__e"]), harness=None)]


def m_wire_string(ip, st, recv, args, kwargs):
    st.ghost['ordered'] = st.ghost['ordered'] and st.ghost['n_byte'] == 1 and st.ghost['n_mp'] == 0 and st.ghost['n_pkt'] == 0
    st.ghost['n_mp'] += 1
    st.ghost['mp_val'] = args[0]
    return None


def setup_send_init_fixed(ip, st, fr, case):
    setup_send_init(ip, st, fr, case)
    fr['self'] = new_kexdh(ip, st, case['$cls'])
    ip.method_models[('<wire>', 'write_string')] = m_wire_string
    return {}


# the curve methods send one value of a fixed size (a random Curve25519 public value; a static point for the NIST curves: 1 + 2 * field bytes)
FIXED_INIT = {'KexCurve25519_SHA256': 32, 'KexNISTP256': 65, 'KexNISTP384': 97, 'KexNISTP521': 133}


def send_init_fixed_units():
    """send_init of the four elliptic-curve methods: nothing is raised and exactly one packet goes out: the type byte, then ONE string of the
    method's size (an uncompressed point starts with 0x04), then send_packet"""
    U = []
    for cls, size in FIXED_INIT.items():
        ens = ["ghost('n_byte') == 1 and ghost('n_mp') == 1 and ghost('n_pkt') == 1 and ghost('ordered')",
               "ghost('byte_val') == init_msg and len(ghost('mp_val')) == %d" % size]
        if cls != 'KexCurve25519_SHA256':
            ens.append("ghost('mp_val')[0] == 4")
        U.append(Unit(Contract(cls + '.send_init', setup=setup_send_init_fixed, cases=[{'$cls': cls}], raises={}, ensures=ens), harness=None))
    return U


def stubs():
    return [Contract('traceback:format_exc', mode='contract', result='str', modifies=[], ensures=[])]


def callee_contracts():
    return [
        Contract('KexDH.send_init', mode='contract', result=lambda ip, st: None, requires=list(SEND_INIT_REQUIRES), raises={},
                 modifies=['self._KexDH__x:int', 'self._KexDH__e:int'], ensures=[],
                 note='call-site view; the function itself is verified against the same precondition (unit KexDH.send_init): randrange(2, q) needs a non-empty range, pow(g, x, p) a non-zero modulus'),
        Contract('KexDH.__get_bytes', mode='contract', result=get_bytes_result, requires=["ptr >= 0"], raises={'struct.error': "len(buf) < ptr + 4"}, modifies=[], ensures=[],
                 note='call-site view; the function itself is verified against the same clauses (unit KexDH.__get_bytes)'),
    ]


def units():
    U = []
    # 1. certificate tail: serial, type, key id, principals, validity, options, extensions, reserved, CA key -> (CA type, CA length)
    U.append(Unit(Contract('KexDH.__parse_ca_key', mode='contract', result=ca_key_result, setup=setup_self,
                           params=dict(hostkey='bytes', hostkey_type='str', ptr='int'), requires=["ptr >= 0"],
                           modifies=['self._KexDH__ca_n:int'], raises={}, may_raise=PARSE_ERRORS, ensures=["result[1] >= 0"]), harness=None))
    # 2. the reply payload: host-key blob, F, signature; then the blob: type, (nonce), e, n, (certificate tail)
    U.append(Unit(Contract('KexDH.__parse_reply', mode='contract', result='bytes', setup=setup_self,
                           params=dict(payload='bytes', parse_host_key_size='bool'),
                           modifies=['self._KexDH__hostkey_type:str', 'self._KexDH__hostkey_e:int', 'self._KexDH__hostkey_n:int', 'self._KexDH__hostkey_n_len:int',
                                     'self._KexDH__ca_key_type:str', 'self._KexDH__ca_n_len:int', 'self._KexDH__ca_n:int'],
                           raises={}, may_raise=PARSE_ERRORS,
                           let=dict(L0="val_be(payload[0:4])", BLOB="payload[4:4 + val_be(payload[0:4])]",
                                    T0="val_be(payload[4:4 + val_be(payload[0:4])][0:4])"),
                           ensures=[
                               # C11: what is returned and recorded is read from the presented blob (first length-prefixed field of the reply)
                               "result == BLOB",
                               "implies(parse_host_key_size, self._KexDH__hostkey_type == latin(BLOB[4:4 + T0]))",
                               # plain RSA blob  string 'ssh-rsa', mpint e, mpint n : the recorded modulus is n, its recorded length the length field of n
                               "implies(parse_host_key_size and BLOB[4:4 + T0] == b'ssh-rsa', "
                               "self._KexDH__hostkey_n == val_be(BLOB[12 + T0 + val_be(BLOB[4 + T0:8 + T0]):12 + T0 + val_be(BLOB[4 + T0:8 + T0]) + val_be(BLOB[8 + T0 + val_be(BLOB[4 + T0:8 + T0]):12 + T0 + val_be(BLOB[4 + T0:8 + T0])])]) "
                               "and self._KexDH__hostkey_n_len == val_be(BLOB[8 + T0 + val_be(BLOB[4 + T0:8 + T0]):12 + T0 + val_be(BLOB[4 + T0:8 + T0])]))",
                               # Ed25519: fixed 32 bytes; no CA data for plain keys
                               "implies(parse_host_key_size and BLOB[4:4 + T0] == b'ssh-ed25519', self._KexDH__hostkey_n_len == 32)",
                               "implies(parse_host_key_size and (BLOB[4:4 + T0] == b'ssh-rsa' or BLOB[4:4 + T0] == b'ssh-ed25519'), self._KexDH__ca_key_type == old.self._KexDH__ca_key_type and self._KexDH__ca_n_len == old.self._KexDH__ca_n_len)",
                           ]), harness=None))
    # 3. recv_reply: any number of debug messages (loop cut), then the reply: only KexDHException can escape
    dbg_loop = {1: dict(header='while packet_type == Protocol.MSG_DEBUG', invariant=["True"], types={'packet_type': 'int', 'payload': 'bytes'})}
    U.append(Unit(Contract('KexDH.recv_reply', setup=setup_recv_reply, raises={}, may_raise={'KexDHException': 'True'}, loops=dbg_loop,
                           ensures=["True"]), harness=None))
    # 4. group-exchange init: request, (debug messages), group message -> p, g; then the DH init.  Only KexDHException can escape, and the
    #    exchange is started only with a modulus for which KexDH.send_init cannot fail (p >= 7: randrange(2, (p-1)//2) non-empty, pow modulus non-zero)
    gex_loop = {1: dict(header='while packet_type == Protocol.MSG_DEBUG', invariant=["True"], types={'packet_type': 'int', 'payload': 'bytes'})}
    U.append(Unit(Contract('KexGroupExchange.send_init_gex', setup=setup_gex, raises={}, may_raise={'KexDHException': 'True'}, loops=gex_loop,
                           ensures=["self._KexDH__p >= 7"]), harness=None))
    return U


def setup_gex(ip, st, fr, case):
    fr['self'] = new_kexdh(ip, st, 'KexGroupExchange')
    fr['s'] = st.new_obj('<sock>', {})
    for k in ('minbits', 'prefbits', 'maxbits'):
        fr[k] = fresh(k, 'int')
    ip.method_models[('<sock>', 'read_packet')] = m_read_packet
    for name in ('write_byte', 'write_int', 'write_mpint2', 'send_packet'):
        ip.method_models[('<sock>', name)] = m_noop
    return {}
