"""Bounded run-time contract checks of multi-target runs (C07, C08) on the REAL main(), over a fake network."""

COMMON = r'''
import json, sys, os, tempfile, itertools
sys.path.insert(0, %(native)r)
import fakenet as F
cases, failures = 0, []
per = {}
def fail(inp, got, want, cls):
    per[cls] = per.get(cls, 0) + 1
    if per[cls] <= 3:
        failures.append({'input': dict(inp, **{'class': cls}), 'got': got, 'want': want})
ARCH = {
 'chacha-nonstrict': dict(kex=['curve25519-sha256'], key=['ssh-ed25519'], enc=['chacha20-poly1305@openssh.com', 'aes128-ctr'], mac=['hmac-sha2-256']),
 'chacha-strict': dict(kex=['curve25519-sha256', 'kex-strict-s-v00@openssh.com'], key=['ssh-ed25519'], enc=['chacha20-poly1305@openssh.com'], mac=['hmac-sha2-256']),
 'cbc-etm': dict(kex=['diffie-hellman-group14-sha256'], key=['rsa-sha2-512'], enc=['aes256-cbc', 'aes128-ctr'], mac=['hmac-sha2-256-etm@openssh.com']),
 'clean': dict(kex=['sntrup761x25519-sha512@openssh.com'], key=['ssh-ed25519'], enc=['aes256-gcm@openssh.com'], mac=['hmac-sha2-512-etm@openssh.com']),
 'legacy-unknown': dict(kex=['diffie-hellman-group1-sha1', 'foo-kex'], key=['ssh-dss'], enc=['3des-cbc', 'arcfour'], mac=['hmac-md5']),
}
def peer(name):
    a = ARCH[name]
    return F.Peer('healthy', kex=F.kexinit(a['kex'], a['key'], a['enc'], a['mac']))
def targets_file(hosts):
    f = tempfile.NamedTemporaryFile('w', suffix='.txt', delete=False)
    f.write(''.join(h + '\n' for h in hosts)); f.close()
    return f.name
def split_blocks(out):
    return [b.strip('\n') for b in out.split('-' * 80 + '\n')]
def block_of(blocks, host):
    hit = [b for b in blocks if ('(gen) target: %%s' %% host) in b or ('Host:   %%s' %% host) in b or ('%%s:22' %% host) in b.split('\n')[0:3].__str__()]
    return hit
def norm_block(b, host):
    return [l for l in b.split('\n') if l.strip() and not l.startswith('(gen) target:')]
'''

C07 = COMMON + r'''
single = {}
single_json = {}
for name in ARCH:
    st, out = F.run_main(['-n', '--skip-rate-test', name + '.test'], F.FakeNet({name + '.test': peer(name)}))
    single[name] = (st, [l for l in out.split('\n') if l.strip()])
    st, out = F.run_main(['-n', '-j', '--skip-rate-test', name + '.test'], F.FakeNet({name + '.test': peer(name)}))
    single_json[name] = (st, json.loads(out))
names = list(ARCH)
for a, b in itertools.product(names, repeat=2):
    for threads in (1, 2):
        hosts = [a + '.test', b + '.test2'] if a == b else [a + '.test', b + '.test']
        which = {hosts[0]: a, hosts[1]: b}
        path = targets_file(hosts)
        try:
            # text
            cases += 1
            net = F.FakeNet({hosts[0]: peer(a), hosts[1]: peer(b)})
            st, out = F.run_main(['-n', '--skip-rate-test', '-T', path, '--threads', str(threads)], net)
            blocks = split_blocks(out)
            inp = {'targets': [a, b], 'threads': threads, 'mode': 'text'}
            if len(blocks) != 2:
                fail(inp, {'blocks': len(blocks)}, 2, 'block-count')
            for h in hosts:
                hit = [blk for blk in blocks if ('(gen) target: %%s' %% h) in blk.split('\n')]
                if len(hit) != 1:
                    fail(dict(inp, host=h), {'blocks for host': len(hit)}, 1, 'block-per-target'); continue
                got = norm_block(hit[0], h)
                want = single[which[h]][1]
                if got != want:
                    diff = [l for l in got if l not in want][:3] + ['MISSING: ' + l for l in want if l not in got][:3]
                    fail(dict(inp, host=h), diff, 'identical to the single-target report', 'leak-text')
            # JSON
            cases += 1
            net = F.FakeNet({hosts[0]: peer(a), hosts[1]: peer(b)})
            st, out = F.run_main(['-n', '-j', '--skip-rate-test', '-T', path, '--threads', str(threads)], net)
            inp = {'targets': [a, b], 'threads': threads, 'mode': 'json'}
            try:
                arr = json.loads(out)
            except Exception as e:
                fail(inp, 'stdout is not JSON: %%r' %% (e,), 'a JSON array', 'json'); continue
            for h in hosts:
                el = [e for e in arr if isinstance(e, dict) and e.get('target') == h + ':22']
                if len(el) != 1:
                    fail(dict(inp, host=h), {'elements for host': len(el)}, 1, 'json-per-target'); continue
                want = dict(single_json[which[h]][1]); want['target'] = h + ':22'
                if el[0] != want:
                    ks = [k for k in want if el[0].get(k) != want[k]]
                    fail(dict(inp, host=h), {'differing keys': ks}, 'identical to the single-target JSON', 'leak-json')
        finally:
            os.unlink(path)
# forced interleaving: target A (small RSA key: its scan edits its rating table) is held at its first group-exchange probe until target B's
# whole scan has finished on the other worker thread; A's report must still be its single-target report
def slow_a(delay):
    srv = F.Server(['curve25519-sha256', 'diffie-hellman-group-exchange-sha256'], ['rsa-sha2-512', 'ssh-rsa', 'ssh-ed25519'], ['aes128-ctr'], ['hmac-sha2-256'],
                   hostkeys={'rsa-sha2-512': F.rsa_blob(1024), 'ssh-rsa': F.rsa_blob(1024), 'ssh-ed25519': F.ed25519_blob()}, moduli=[1024, 2048], select='strict')
    if delay:
        srv.delays = {3: delay}
    return srv
def quick_b():
    return F.Server(['curve25519-sha256'], ['ssh-ed25519'], ['aes128-ctr'], ['hmac-sha2-256'], hostkeys={'ssh-ed25519': F.ed25519_blob()})
st, out = F.run_main(['-n', '--skip-rate-test', 'slow.test'], F.FakeNet({'slow.test': slow_a(0)}))
ref_a = [l for l in out.split('\n') if l.strip()]
for order in (['slow.test', 'quick.test'], ['quick.test', 'slow.test']):
    cases += 1
    path = targets_file(order)
    try:
        net = F.FakeNet({'slow.test': slow_a(0.7), 'quick.test': quick_b()})
        st, out = F.run_main(['-n', '--skip-rate-test', '-T', path, '--threads', '2'], net)
    finally:
        os.unlink(path)
    hit = [blk for blk in split_blocks(out) if '(gen) target: slow.test' in blk.split('\n')]
    got = norm_block(hit[0], 'slow.test') if len(hit) == 1 else None
    if got != ref_a:
        diff = ([l for l in got if l not in ref_a][:3] + ['MISSING: ' + l for l in ref_a if l not in got][:3]) if got else 'no block'
        fail({'targets': order, 'threads': 2, 'forced interleaving': 'slow target held until the quick one has finished'}, diff, 'identical to the single-target report', 'leak-interleaved')
# entries with and without an explicit port in one list: each target is scanned on its own port whatever precedes it
for order in (['p1.test:2200', 'p2.test'], ['p2.test', 'p1.test:2200'], ['p1.test:2200', 'p2.test', 'p3.test:2201', 'p2.test']):
    for threads in (1, 2):
        cases += 1
        path = targets_file(order)
        try:
            net = F.FakeNet({h: peer('clean') for h in ('p1.test', 'p2.test', 'p3.test')})
            st, out = F.run_main(['-n', '--skip-rate-test', '-T', path, '--threads', str(threads)], net)
        finally:
            os.unlink(path)
        want = {'p1.test': {2200}, 'p2.test': {22}, 'p3.test': {2201}}
        got = {}
        for e in net.events:
            if e[0] == 'connect':
                h = [x for x, ip in net.ip_of.items() if ip == e[1][0]][0]
                got.setdefault(h, set()).add(e[1][1])
        for h in got:
            if got[h] != want[h]:
                fail({'targets': order, 'threads': threads, 'host': h}, {'ports': sorted(got[h])}, {'ports': sorted(want[h])}, 'port-leaks-between-targets')
# policy verdicts: a failing target must not make a later compliant target fail (error accumulation)
pol = 'Hardened OpenSSH Server v9.9 (version 1)'
from ssh_audit.builtin_policies import BUILTIN_POLICIES
bp = BUILTIN_POLICIES[pol]
good = F.kexinit(bp['kex'], bp['host_keys'], bp['ciphers'], bp['macs'])
bad = F.kexinit(bp['kex'] + ['diffie-hellman-group1-sha1'], bp['host_keys'], bp['ciphers'], bp['macs'])
for order in (['bad.test', 'good.test'], ['good.test', 'bad.test'], ['bad.test', 'good.test', 'good2.test', 'bad2.test']):
    for threads in (1, 3):
        cases += 1
        path = targets_file(order)
        try:
            net = F.FakeNet({h: F.Peer('healthy', kex=(good if h.startswith('good') else bad)) for h in order})
            st, out = F.run_main(['-n', '-j', '--skip-rate-test', '-P', pol, '-T', path, '--threads', str(threads)], net)
            try:
                arr = json.loads(out)
            except Exception as e:
                fail({'policy targets': order, 'threads': threads}, out[:200], 'a JSON array', 'policy-json'); continue
            for h in order:
                el = [e for e in arr if e.get('host') == h]
                wantp = h.startswith('good')
                if len(el) != 1 or el[0]['passed'] != wantp or (wantp and el[0]['errors']) or (not wantp and len(el[0]['errors']) != 1):
                    fail({'policy targets': order, 'threads': threads, 'host': h}, el[:1], {'passed': wantp, 'errors': 0 if wantp else 1}, 'policy-leak')
        finally:
            os.unlink(path)
print(json.dumps({'cases': cases, 'failures': failures}))
'''

C08 = COMMON + r'''
from ssh_audit import exitcodes
RANK = [exitcodes.GOOD, exitcodes.WARNING, exitcodes.FAILURE, exitcodes.CONNECTION_ERROR, exitcodes.UNKNOWN_ERROR]
a = ARCH['clean']
KX = F.kexinit(a['kex'], a['key'], a['enc'], a['mac'])
def mk(kind):
    if kind == 'unresolvable':
        return 'unresolvable'
    if kind in ARCH:
        return peer(kind)
    return F.Peer(kind, kex=KX)
bad_kinds = ['unresolvable', 'refused', 'silent', 'early-close', 'close-after-banner', 'bad-block-size', 'truncated-kexinit', 'short-kexinit-payload', 'garbage', 'wrong-type', 'not-ssh']
# expected status of each kind alone (single-target run through the same code)
alone = {}
for k in bad_kinds + ['clean', 'cbc-etm', 'legacy-unknown']:
    st, out = F.run_main(['-n', '--skip-rate-test', 'x.test'], F.FakeNet({'x.test': mk(k)}))
    alone[k] = st
def rank(s):
    return RANK.index(s) if s in RANK else len(RANK)
# a target that cannot be reached or answers nonsense is a connection error (status 1, an "[exception] ..." message), never an internal error
for k in bad_kinds:
    cases += 1
    st, out = F.run_main(['-n', '--skip-rate-test', 'x.test'], F.FakeNet({'x.test': mk(k)}))
    if st != exitcodes.CONNECTION_ERROR:
        fail({'single target': k}, {'status': st, 'tail': out.strip().split('\n')[-1][:120]}, {'status': 1}, 'bad-target-status')
for bad in bad_kinds:
    for pos in (0, 1, 2):
        kinds = ['clean', 'cbc-etm']
        kinds.insert(pos, bad)
        hosts = ['h%%d-%%s.test' %% (i, k) for i, k in enumerate(kinds)]
        for threads in (1, 3):
            for js in (False, True):
                cases += 1
                path = targets_file(hosts)
                inp = {'targets': kinds, 'threads': threads, 'json': js}
                try:
                    net = F.FakeNet({h: mk(k) for h, k in zip(hosts, kinds)})
                    st, out = F.run_main(['-n', '--skip-rate-test', '-T', path, '--threads', str(threads)] + (['-j'] if js else []), net)
                finally:
                    os.unlink(path)
                want = max((alone[k] for k in kinds), key=rank)
                if st != want:
                    fail(inp, {'exit status': st}, {'highest-ranked status among the targets': want}, 'status')
                if js:
                    try:
                        arr = json.loads(out)
                        ok = isinstance(arr, list) and len(arr) == 3
                    except Exception as e:
                        arr, ok = None, False
                    if not ok:
                        fail(inp, out[:160], 'stdout is one JSON array with one element per target', 'json-array' if st == want else 'json-array-aborted')
                else:
                    blocks = split_blocks(out)
                    if len(blocks) != 3:
                        fail(inp, {'result blocks': len(blocks), 'tail': out[-200:]}, 3, 'blocks')
                    else:
                        for h, k in zip(hosts, kinds):
                            if k in ARCH and not any(('(gen) target: %%s' %% h) in b.split('\n') for b in blocks):
                                fail(dict(inp, host=h), 'no report for the healthy target', 'one result block per target', 'lost-report')
# inside a list: the block of a target that cannot be reached is its error message, not a stack trace; bare IPv6 literals are legal lines
for bad, line in (('unresolvable', 'nosuch.test'), ('refused', 'r.test'), ('unresolvable', '2001:db8::beef'), ('unresolvable', 'fe80::1'), ('unresolvable', '[2001:db8::7]:2222')):
    for threads in (1, 2):
        cases += 1
        hosts = ['ok1.test', line, 'ok2.test']
        path = targets_file(hosts)
        try:
            net = F.FakeNet({'ok1.test': mk('clean'), 'ok2.test': mk('cbc-etm'), 'r.test': mk('refused')})
            st, out = F.run_main(['-n', '--skip-rate-test', '-T', path, '--threads', str(threads)], net)
        finally:
            os.unlink(path)
        inp = {'targets': hosts, 'threads': threads}
        blocks = split_blocks(out)
        want = max([alone['clean'], alone['cbc-etm'], exitcodes.CONNECTION_ERROR], key=rank)
        if st != want:
            fail(inp, {'exit status': st, 'tail': out.strip().split('\n')[-1][:160]}, {'status': want}, 'bad-line-status')
        if len(blocks) != 3 or 'Traceback (most recent call last)' in out:
            fail(inp, {'result blocks': len(blocks), 'traceback': 'Traceback (most recent call last)' in out}, {'blocks': 3, 'traceback': False}, 'bad-line-blocks')
        for h in ('ok1.test', 'ok2.test'):
            if not any(('(gen) target: %%s' %% h) in b.split('\n') for b in blocks):
                fail(dict(inp, host=h), 'no report for the healthy target', 'one result block per target', 'bad-line-lost-report')
# with a raised minimum level every scanned target still yields one block that names it
for lvl in ('warn', 'fail'):
    cases += 1
    hosts = ['l1.test', 'l2.test', 'l3.test']
    path = targets_file(hosts)
    try:
        net = F.FakeNet({'l1.test': mk('clean'), 'l2.test': mk('cbc-etm'), 'l3.test': mk('legacy-unknown')})
        st, out = F.run_main(['-n', '--skip-rate-test', '-l', lvl, '-T', path, '--threads', '1'], net)
    finally:
        os.unlink(path)
    blocks = split_blocks(out)
    named = [h for h in hosts if any(('(gen) target: %%s' %% h) in b.split('\n') for b in blocks)]
    if len(blocks) != 3 or named != hosts:
        fail({'targets': hosts, 'level': lvl}, {'blocks': len(blocks), 'blocks naming their target': named}, {'blocks': 3, 'named': hosts}, 'level-hides-target')
# the run's status is the highest-ranked target status, whatever the order of the targets
mix = ['clean', 'cbc-etm', 'legacy-unknown', 'refused']
for r in (2, 3):
    for kinds in itertools.permutations(mix, r):
        cases += 1
        hosts = ['m%%d-%%s.test' %% (i, k) for i, k in enumerate(kinds)]
        path = targets_file(hosts)
        try:
            net = F.FakeNet({h: mk(k) for h, k in zip(hosts, kinds)})
            st, out = F.run_main(['-n', '--skip-rate-test', '-T', path, '--threads', '1'], net)
        finally:
            os.unlink(path)
        want = max((alone[k] for k in kinds), key=rank)
        if st != want:
            fail({'targets': list(kinds), 'threads': 1}, {'exit status': st}, {'highest-ranked status among the targets': want, 'alone': [alone[k] for k in kinds]}, 'status-fold')
# a target listed twice (same line twice; host and host:22) is scanned and reported once per line
for lines in (['d.test', 'd.test'], ['d.test', 'd.test:22'], ['d.test', 'e.test', 'd.test']):
    for js in (False, True):
        for threads in (1, 2):
            cases += 1
            path = targets_file(lines)
            try:
                # (a reactive server: every connection gets the full handshake, so a second scan of the same host is served like the first)
                def srv(name):
                    a_ = ARCH[name]
                    return F.Server(a_['kex'], a_['key'], a_['enc'], a_['mac'], hostkeys={'ssh-ed25519': F.ed25519_blob(), 'rsa-sha2-512': F.rsa_blob(3072)})
                net = F.FakeNet({'d.test': srv('clean'), 'e.test': srv('cbc-etm')})
                st, out = F.run_main(['-n', '--skip-rate-test', '-T', path, '--threads', str(threads)] + (['-j'] if js else []), net)
            finally:
                os.unlink(path)
            inp = {'targets': lines, 'threads': threads, 'json': js}
            if js:
                try:
                    arr = json.loads(out)
                    if not isinstance(arr, list) or len(arr) != len(lines):
                        fail(inp, {'elements': len(arr) if isinstance(arr, list) else None}, len(lines), 'duplicate-target-json')
                except Exception as e:
                    fail(inp, out[-120:], 'one JSON array with %%d elements' %% len(lines), 'duplicate-target-json')
            else:
                blocks = [b for b in split_blocks(out) if b.strip()]
                if len(blocks) != len(lines) or out.rstrip().endswith('-' * 80):
                    fail(inp, {'result blocks': len(blocks), 'tail': out[-100:]}, len(lines), 'duplicate-target-blocks')
print(json.dumps({'cases': cases, 'failures': failures}))
'''
