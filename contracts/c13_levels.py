"""Contracts for C13 (recommendations are consistent with the ratings shown): the severity level of a recommendation.

Algorithms.get_recommendations scores an advertised algorithm with  faults = 10 * (number of failure notes) + (number of warning notes)
(proved below for one arbitrary table entry); get_algorithm_recommendations maps the score to a level.  With fewer than ten warnings per entry
(ground formula G1 of C17) score >= 10 <=> the entry has a failure note, so 'critical' <=> rated [fail] and 'warning' <=> rated [warn] only."""
import z3
from pyvc.contracts import Contract
from pyvc.driver import Unit
from pyvc.values import fresh, Sym
from pyvc.state import mk


def rec_result(ip, st):
    return (st.frame['software'], st.ghost['alg_rec'])


def setup_levels(ip, st, fr, case):
    action, cat = case['$action'], case['$cat']
    pts = fresh('points', 'int')
    st.assume(pts.t >= 0)
    other = fresh('points2', 'int')
    st.assume(other.t >= 0)
    st.ghost['alg_rec'] = st.new_dict({2: st.new_dict({cat: st.new_dict({action: st.new_dict({'alg-one': pts, 'alg-two': other})})})})
    fr['algs'] = st.new_obj('<algs>', {})
    fr['software'] = st.new_obj('<software>', {})
    fr['algorithm_recommendation_suppress_list'] = st.new_list(['alg-suppressed'], 'str') if case.get('$suppress') else None
    fr['for_server'] = True
    fr['g_p'], fr['g_q'] = pts, other
    ip.method_models[('<algs>', 'get_recommendations')] = lambda ip_, st_, recv, args, kwargs: (args[0], st_.ghost['alg_rec'])
    return {}


def level_of(p):
    return "('critical' if %s >= 10 else ('warning' if %s >= 1 else 'informational'))" % (p, p)


def units():
    U = []
    for action in ('del', 'chg', 'add'):
        for cat in ('kex', 'mac'):
            notes = 'increase modulus size to 3072 bits or larger' if action == 'chg' else ''
            e1 = "{'name': 'alg-one', 'notes': %r}" % notes
            e2 = "{'name': 'alg-two', 'notes': %r}" % notes
            ens = []
            conds = {'critical': "%s >= 10", 'warning': "(%s >= 1 and %s < 10)", 'informational': "%s < 1"}
            for L, c in conds.items():
                names = "[e['name'] for e in result.get(%r, {}).get(%r, {}).get(%r, [])]" % (L, action, cat)
                for alg, p_ in (('alg-one', 'g_p'), ('alg-two', 'g_q')):
                    # the algorithm is listed under level L (once, under its own action and category) exactly when its score maps to L
                    ens.append("(%s.count(%r) == 1) == (%s)" % (names, alg, c.replace('%s', p_)))
                    ens.append("%s.count(%r) <= 1" % (names, alg))
                notes_ok = "all(e['notes'] == %r for e in result.get(%r, {}).get(%r, {}).get(%r, []))" % (notes, L, action, cat)
                ens.append(notes_ok)
                # nothing under another action or category
                ens.append("sorted(result.get(%r, {}).keys()) in ([], [%r])" % (L, action))
                ens.append("sorted(result.get(%r, {}).get(%r, {}).keys()) in ([], [%r])" % (L, action, cat))
            U.append(Unit(Contract('ssh_audit:get_algorithm_recommendations', setup=setup_levels, raises={}, merge=False,
                                   cases=[{'$action': action, '$cat': cat, '$suppress': cat == 'mac'}], ensures=ens), harness=None))
    return U


# ---------------------------------------------------------------------------------------------------- get_recommendations, per entry
# Algorithms.get_recommendations for a rating table with ONE arbitrary entry (name and version string concrete, failure and warning
# lists arbitrary): the loop body treats every entry independently (it writes rec[..][name] only), so this is the per-entry theorem.
CHG = ['diffie-hellman-group-exchange-sha256', 'rsa-sha2-256', 'rsa-sha2-512', 'rsa-sha2-256-cert-v01@openssh.com', 'rsa-sha2-512-cert-v01@openssh.com']


def m_compare_version(ip, st, recv, args, kwargs):
    st.ghost['compared'] = st.new_list(list(st.get(st.ghost['compared']).items) + [args[0]])
    return st.ghost['cmp']


def m_items(ip, st, recv, args, kwargs):
    return st.ghost['$items']


def setup_recs(ip, st, fr, case):
    cat, n, versions, adv, sw, nl = case['$cat'], case['$n'], case['$versions'], case['$adv'], case['$sw'], case['$len']
    inner = [st.new_list(list(versions))]
    F = st.new_symlist(fresh('fails', ('list', ('opt', 'str'))).t, ('opt', 'str'))
    W = st.new_symlist(fresh('warns', ('list', ('opt', 'str'))).t, ('opt', 'str'))
    if nl >= 2:
        inner.append(F)
    if nl >= 3:
        inner.append(W)
    entry = st.new_list(inner)
    db = st.new_dict({c: st.new_dict({n: entry} if c == cat else {}) for c in ('kex', 'key', 'enc', 'mac')})
    item = st.new_obj('<item>', {'sshv': 2, 'db': db})
    lists = {c: st.new_list(['other-alg'] + ([adv] if (adv and c == cat) else []), 'str') for c in ('kex', 'key', 'enc', 'mac')}
    st.ghost['$items'] = st.new_list([(c, lists[c]) for c in ('kex', 'key', 'enc', 'mac')] + [('aut', st.new_list(['password'], 'str'))])
    fr['self'] = st.new_obj('<algorithms>', {'values': st.new_list([item])})
    cmpv = fresh('cmp', 'int')
    st.ghost['cmp'] = cmpv
    st.ghost['compared'] = st.new_list([])
    if sw is None:
        fr['software'] = None
    else:
        fr['software'] = st.new_obj('<software>', {'product': sw})
    fr['for_server'] = True
    fr['g_cmp'] = cmpv
    fr['g_nf'] = mk(z3.Length(F.sym if hasattr(F, 'sym') else st.get(F).sym), 'int') if nl >= 2 else 0
    fr['g_nw'] = mk(z3.Length(st.get(W).sym), 'int') if nl >= 3 else 0
    if nl >= 2:
        fr['g_nf'] = mk(z3.Length(st.get(F).sym), 'int')
    ip.method_models[('<software>', 'compare_version')] = m_compare_version
    ip.method_models[('<item>', 'items')] = m_items
    return {}


def rec_units():
    U = []
    entries = [('kex', 'curve25519-sha256', ['7.4,d2018.76'], 'curve25519-sha256', '7.4'),
               ('key', 'rsa-sha2-512', ['7.2'], 'rsa-sha2-512', '7.2'),
               ('key', 'ssh-ed25519-cert-v01@openssh.com', ['6.5'], 'ssh-ed25519-cert-v01@openssh.com', '6.5'),
               ('kex', 'gss-group14-sha256-*', ['7.0'], 'gss-group14-sha256-toWM5Slw5Ew8Mqkay+al2g==', '7.0'),
               ('kex', 'kex-strict-s-v00@openssh.com', ['9.6'], 'kex-strict-s-v00@openssh.com', '9.6'),
               ('key', 'sk-ssh-ed25519@openssh.com', ['8.2'], 'sk-ssh-ed25519@openssh.com', '8.2'),
               ('kex', 'ext-info-s', ['9.6'], 'ext-info-s', '9.6'),

               ('enc', 'client-only-alg', ['7.4C,d2020.1'], 'client-only-alg', None),
               ('mac', 'no-version-alg', [], 'no-version-alg', None),
               ('mac', 'none-version-alg', [None], 'none-version-alg', None)]
    for cat, n, versions, advname, ov in entries:
        for adv in (advname, None):
            for sw in ('OpenSSH', 'FooSSH', None):
                for nl in (1, 2, 3):
                    if nl < 3 and (sw != 'OpenSSH' or cat not in ('kex', 'key')):
                        continue
                    faults = "(10 * g_nf + g_nw)"
                    unknown = sw != 'OpenSSH'
                    empty = (len(versions) == 0 or versions[0] is None)
                    if empty:
                        matched = "True"
                    elif unknown:
                        matched = "True"
                    elif ov is None:
                        matched = "False"           # only a client-side / other-product version is listed
                    else:
                        matched = "(g_cmp >= 0)"
                    D = "result[1].get(2, {}).get(%r, {})" % cat
                    is_chg = n in CHG
                    excluded = (cat == 'key' and ('-cert-' in n or n.startswith('sk-'))) or (cat == 'kex' and (n.startswith('ext-info-') or n.startswith('kex-strict-'))) or empty
                    ens = []
                    if adv:
                        act, other = ('chg', 'del') if is_chg else ('del', 'chg')
                        ens.append("(%r in %s.get(%r, {})) == (%s and %s > 0)" % (n, D, act, matched, faults))
                        ens.append("%s.get(%r, {}).get(%r, %s) == %s" % (D, act, n, faults, faults))
                        ens.append("%r not in %s.get(%r, {}) and %r not in %s.get('add', {})" % (n, D, other, n, D))
                    else:
                        add_ok = "False" if (excluded or unknown) else "(%s and %s == 0)" % (matched, faults)
                        ens.append("(%r in %s.get('add', {})) == %s" % (n, D, add_ok))
                        ens.append("%s.get('add', {}).get(%r, 0) == 0" % (D, n))
                        ens.append("%r not in %s.get('del', {}) and %r not in %s.get('chg', {})" % (n, D, n, D))
                    # nothing about names that are neither advertised nor in the table; empty levels are removed
                    ens.append("all(len(v) > 0 for v in %s.values()) and 'aut' not in result[1].get(2, {})" % D)
                    if not unknown and ov is not None and not empty:
                        ens.append("[x for x in ghost('compared')] in ([], [%r])" % ov)
                    U.append(Unit(Contract('Algorithms.get_recommendations', setup=setup_recs, raises={}, merge=False,
                                           cases=[{'$cat': cat, '$n': n, '$versions': versions, '$adv': adv, '$sw': sw, '$len': nl}], ensures=ens), harness=None))
    return U
