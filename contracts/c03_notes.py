"""Contracts for C03 (an algorithm's rating depends only on the algorithm, in every view): the JSON view's note extraction.

build_struct.fetch_notes against an arbitrary rating table (membership and entry unconstrained, 1..4 cells): the notes returned are
exactly the entry's failure / warning / info cells (plus the 'available since' text derived from the version cell), under the name the
text renderer also uses (gss-* wildcard), and the table is left unchanged."""
import z3
from pyvc.contracts import Contract
from pyvc.driver import Unit
from pyvc.values import fresh, Sym
from pyvc.state import mk
from contracts import c02_status as S2


def setup_fetch(ip, st, fr, case):
    cats = {c: st.new_obj('<symdb>', {'cat': c}) for c in ('kex', 'key', 'enc', 'mac')}
    st.ghost['db'] = st.new_dict(cats)
    fr['algorithm'] = fresh('algorithm', 'str')
    fr['alg_type'] = case['$cat']
    st.ghost['looked_known'] = False
    st.ghost['looked_desc'] = None
    st.ghost['looked_name'] = None
    st.ghost['looked_orig'] = None
    st.ghost['orig_name'] = None
    st.ghost['$ndesc'] = case['$n']
    since = fresh('since_text', ('opt', 'str'))
    st.ghost['since'] = since
    fr['g_since'] = since
    fr['g_alg'] = fr['algorithm']
    ip.method_models[('<symdb>', '__contains__')] = S2.m_db_contains
    ip.method_models[('<symdb>', '__getitem__')] = S2.m_db_getitem
    return {}


def stubs():
    return [Contract('SSH2_KexDB.get_db', mode='contract', result=lambda ip, st: st.ghost['db'], modifies=[], ensures=[],
                     note='the rating table: arbitrary membership and entry (1..4 cells of arbitrary notes)'),
            Contract('Algorithm.get_since_text', mode='contract', result=lambda ip, st: st.ghost['since'], modifies=[], ensures=[],
                     note='a function of the version cell only (its text is compared between views by the bounded part)')]


def units():
    U = []
    for cat in ('kex', 'enc'):
        for n in (1, 2, 3, 4):
            K = "ghost('looked_known')"
            O = "ghost('looked_orig')"
            since_ok = "(g_since is not None and len(g_since) > 0)"
            ens = [
                # the name looked up: the advertised name, gss-* key exchanges through their wildcard form (as the text renderer does)
                ("ghost('looked_name') == (g_alg[0:g_alg.rindex('-')] + '-*' if g_alg.startswith('gss-') else g_alg)" if cat == 'kex' else "ghost('looked_name') == g_alg"),
                # unknown names: exactly one failure note
                "implies(not %s, result == {'fail': ['using unknown algorithm']})" % K,
                # known names: each level present iff its cell exists and is non-empty, and then equal to the cell
                "implies(%s, ('fail' in result) == (%s))" % (K, "len(%s[1]) > 0" % O if n >= 2 else "False"),
                "implies(%s, ('warn' in result) == (%s))" % (K, "len(%s[2]) > 0" % O if n >= 3 else "False"),
                "implies(%s, ('info' in result) == ((%s) or %s))" % (K, "len(%s[3]) > 0" % O if n >= 4 else "False", since_ok),
                "implies(%s, (result['fail'] == %s[1]) if (%s and 'fail' in result) else True)" % (K, O, 'True' if n >= 2 else 'False'),
                "implies(%s, (result['warn'] == %s[2]) if (%s and 'warn' in result) else True)" % (K, O, 'True' if n >= 3 else 'False'),
                "implies(%s, ((result['info'] == %s + ([g_since] if %s else [])) if 'info' in result else True))" % (K, ("%s[3]" % O) if n >= 4 else "[]", since_ok),
                "implies(%s, sorted(result.keys()) == [k for k in ['fail', 'info', 'warn'] if k in result])" % K,
                # the table itself is not modified (the notes of one occurrence must not leak into the next)
                "implies(%s, all(ghost('looked_desc')[i] == %s[i] for i in range(%d)) and len(ghost('looked_desc')) == %d)" % (K, O, n, n),
            ]
            U.append(Unit(Contract('ssh_audit:build_struct.fetch_notes', setup=setup_fetch, raises={}, merge=False,
                                   cases=[{'$cat': cat, '$n': n}], ensures=ens), harness=None))
    return U
