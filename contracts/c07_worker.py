"""Contract for target_worker_thread (C07, C08): whatever audit() does -- returns any status, raises any Exception, calls
sys.exit() -- the worker returns exactly one (status, text) pair, lets nothing escape, scans a private copy of the
configuration, and discards the thread's rating tables on every exit."""
import z3
from pyvc.contracts import Contract
from pyvc.driver import Unit
from pyvc.values import fresh, Sym, Ref
from pyvc.state import mk

ACONF_FIELDS = {'host': '', 'port': 22, 'json': None, 'verbose': None}


def m_deepcopy(ip, st):
    src = st.frame['x'] if 'x' in st.frame else None
    p = st.get(src)
    f = dict(p.f)
    f['ip_version_preference'] = st.new_list(list(st.get(f['ip_version_preference']).items))
    new = st.new_obj(p.cls, f)
    st.ghost['copies'] = st.ghost['copies'] + 1
    st.ghost['copy'] = new
    return new


def m_audit(ip, st):
    fr = st.frame
    st.ghost['audits'] = st.ghost['audits'] + 1
    a = st.get(fr['aconf'])
    sh = st.get(st.ghost['shared'])
    # a private deep copy: a different object whose mutable field is a different object too
    st.ghost['audit_on_copy'] = st.ghost['audit_on_copy'] and isinstance(fr['aconf'], Ref) and (fr['aconf'].oid != st.ghost['shared'].oid) \
        and (a.f['ip_version_preference'].oid != sh.f['ip_version_preference'].oid)
    st.ghost['audit_host'], st.ghost['audit_port'] = a.f['host'], a.f['port']
    c = ip.choose(st, 4)
    from pyvc.interp import Raise
    from pyvc.values import ExcVal
    if c == 1:
        raise Raise(ExcVal('SystemExit', (fresh('exit_code', 'int'),)))
    if c == 2:
        raise Raise(ExcVal('SystemExit', ()))
    if c == 3:
        raise Raise(ExcVal('Exception', ()))
    return fresh('audit_status', 'int')


def setup_worker(ip, st, fr, case):
    from pyvc.values import ClassRef
    shared = st.new_obj('AuditConf', {'host': 'other.example', 'port': 22, 'json': fresh('json', 'bool'), 'verbose': fresh('verbose', 'bool'),
                                      'ip_version_preference': st.new_list([])})
    fr['shared_aconf'] = shared
    fr['host'] = fresh('host', 'str')
    fr['port'] = fresh('port', 'int')
    st.ghost.update({'copies': 0, 'copy': None, 'shared': shared, 'audits': 0, 'audit_on_copy': True, 'exit1': 0, 'exit2': 0,
                     'audit_host': None, 'audit_port': None})
    fr['g_host'], fr['g_port'] = fr['host'], fr['port']
    from contracts.c18_target import m_object_setattr
    ip.models['object.__setattr__'] = m_object_setattr
    return {}


def bump(key):
    def f(ip, st):
        st.ghost[key] = st.ghost[key] + 1
        return None
    return f


def stubs():
    from contracts.c02_status import out_stub
    S = [out_stub(n) for n in ('v', 'd', 'good', 'fail', 'warn', 'info', 'head', 'sep')]
    S += [Contract('ssh_audit:audit', mode='contract', result=m_audit, modifies=[], ensures=[],
                   note='one scan: returns any int, raises SystemExit (with an int code or none) or any Exception'),
          Contract('OutputBuffer.get_buffer', mode='contract', result='str', modifies=[], ensures=[]),
          Contract('traceback:format_exc', mode='contract', result='str', modifies=[], ensures=[]),
          Contract('SSH1_KexDB.thread_exit', mode='contract', result=bump('exit1'), modifies=[], ensures=[]),
          Contract('SSH2_KexDB.thread_exit', mode='contract', result=bump('exit2'), modifies=[], ensures=[])]
    return S


def units():
    return [Unit(Contract('ssh_audit:target_worker_thread', setup=setup_worker, raises={},
                          ensures=[
                              # exactly one result, nothing escapes (raises == {}), at most one scan, on a private copy carrying this target's host and port
                              "ghost('audits') <= 1 and ghost('audit_on_copy')",
                              "implies(ghost('audits') == 1, ghost('audit_host') == g_host and ghost('audit_port') == g_port and 1 <= g_port and g_port <= 65535)",
                              "implies(g_port < 1 or g_port > 65535, ghost('audits') == 0 and result[0] == -1)",
                              # the shared configuration is not written
                              "shared_aconf.host == 'other.example' and shared_aconf.port == 22",
                              # the thread's rating tables are discarded exactly once on every exit (C07: the next target on this worker starts fresh)
                              "ghost('exit1') == 1 and ghost('exit2') == 1",
                          ]), harness=None)]
