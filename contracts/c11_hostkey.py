"""Contracts for C11 (host-key sizes, CA details and fingerprints are measured and rated correctly)."""
import z3
from pyvc.contracts import Contract
from pyvc.driver import Unit
from pyvc.values import fresh, Sym
from pyvc.state import mk

IMPORTS = "from ssh_audit.kexdh import KexDH\n"


def setup_kexdh(ip, st, fr, case):
    t = case.get('$type')
    fr['self'] = st.new_obj('KexDH', {
        '_KexDH__hostkey_type': t if t is not None else fresh('hostkey_type', 'str'),
        '_KexDH__hostkey_n': fresh('hostkey_n', 'int'), '_KexDH__hostkey_n_len': fresh('hostkey_n_len', 'int'),
        '_KexDH__ca_key_type': case.get('$catype') if case.get('$catype') is not None else fresh('ca_key_type', 'str'),
        '_KexDH__ca_n': fresh('ca_n', 'int'), '_KexDH__ca_n_len': fresh('ca_n_len', 'int')})
    o = st.get(fr['self'])
    st.assume(o.f['_KexDH__hostkey_n'].t >= 0)
    st.assume(o.f['_KexDH__ca_n'].t >= 0)
    st.assume(o.f['_KexDH__hostkey_n_len'].t >= 0)
    st.assume(o.f['_KexDH__ca_n_len'].t >= 0)
    return {}


ADJ = "(8 * %s if %s %% 2 == 0 else 8 * %s - 8)"


def small_units():
    U = []
    U.append(Unit(Contract('KexDH.__adjust_key_size', params=dict(size='int'), requires=["size >= 0"], raises={},
                           ensures=["result == (8 * old.size if old.size % 2 == 0 else 8 * old.size - 8)",
                                    "result % 16 == 0", "result <= 8 * old.size and result >= 8 * old.size - 8"]),
                  harness=dict(imports=IMPORTS, call="KexDH._KexDH__adjust_key_size(size)")))
    U.append(Unit(Contract('KexDH.__get_bytes', params=dict(buf='bytes', ptr='int'), requires=["ptr >= 0"],
                           raises={'struct.error': "len(old.buf) < old.ptr + 4"},
                           ensures=["result[1] == val_be(old.buf[old.ptr:old.ptr + 4])",
                                    "result[0] == old.buf[old.ptr + 4:old.ptr + 4 + result[1]]",
                                    "result[2] == old.ptr + 4 + result[1]",
                                    "result[1] >= 0 and result[1] < 4294967296"],
                           use_entry=["val_be_word(buf[ptr:ptr + 4])"]),
                  harness=dict(imports=IMPORTS, call="KexDH._KexDH__get_bytes(buf, ptr)")))
    # RSA keys and RSA CAs: the exact bit length of the modulus; every other type: the adjusted byte length
    for t, rsa in (('ssh-rsa', True), ('ssh-rsa-cert-v01@openssh.com', True), ('ssh-ed25519', False), ('ssh-ed448', False),
                   ('ssh-ed25519-cert-v01@openssh.com', False), ('ecdsa-sha2-nistp256', False), ('', False)):
        ens = ["result == (bitlen(self._KexDH__hostkey_n) if self._KexDH__hostkey_n > 0 else %s)" % (ADJ % (('self._KexDH__hostkey_n_len',) * 3))] if rsa \
            else ["result == " + ADJ % (('self._KexDH__hostkey_n_len',) * 3)]
        U.append(Unit(Contract('KexDH.get_hostkey_size', setup=setup_kexdh, cases=[{'$type': t}], raises={}, ensures=ens), harness=None))
    for t, rsa in (('ssh-rsa', True), ('ssh-ed25519', False), ('ecdsa-sha2-nistp256', False), ('', False), ('rsa-sha2-512', False)):
        ens = ["result == (bitlen(self._KexDH__ca_n) if self._KexDH__ca_n > 0 else %s)" % (ADJ % (('self._KexDH__ca_n_len',) * 3))] if rsa \
            else ["result == " + ADJ % (('self._KexDH__ca_n_len',) * 3)]
        U.append(Unit(Contract('KexDH.get_ca_size', setup=setup_kexdh, cases=[{'$catype': t}], raises={}, ensures=ens), harness=None))
    return U
