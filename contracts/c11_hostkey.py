"""Contracts for C11 (host-key sizes, CA details and fingerprints are measured and rated correctly)."""
import z3
from pyvc.contracts import Contract
from pyvc.driver import Unit
from pyvc.values import fresh, Sym
from pyvc.state import mk

IMPORTS = "from ssh_audit.kexdh import KexDH\n"


def setup_kexdh(ip, st, fr, case):
    t = case.get('$type')
    fr['self'] = st.new_obj('KexDH', {
        '_KexDH__hostkey_type': t if t is not None else fresh('hostkey_type', 'str'),
        '_KexDH__hostkey_n': fresh('hostkey_n', 'int'), '_KexDH__hostkey_n_len': fresh('hostkey_n_len', 'int'),
        '_KexDH__ca_key_type': case.get('$catype') if case.get('$catype') is not None else fresh('ca_key_type', 'str'),
        '_KexDH__ca_n': fresh('ca_n', 'int'), '_KexDH__ca_n_len': fresh('ca_n_len', 'int')})
    o = st.get(fr['self'])
    st.assume(o.f['_KexDH__hostkey_n'].t >= 0)
    st.assume(o.f['_KexDH__ca_n'].t >= 0)
    st.assume(o.f['_KexDH__hostkey_n_len'].t >= 0)
    st.assume(o.f['_KexDH__ca_n_len'].t >= 0)
    return {}


ADJ = "(8 * %s if %s %% 2 == 0 else 8 * %s - 8)"


def small_units():
    U = []
    U.append(Unit(Contract('KexDH.__adjust_key_size', params=dict(size='int'), requires=["size >= 0"], raises={},
                           ensures=["result == (8 * old.size if old.size % 2 == 0 else 8 * old.size - 8)",
                                    "result % 16 == 0", "result <= 8 * old.size and result >= 8 * old.size - 8"]),
                  harness=dict(imports=IMPORTS, call="KexDH._KexDH__adjust_key_size(size)")))
    U.append(Unit(Contract('KexDH.__get_bytes', params=dict(buf='bytes', ptr='int'), requires=["ptr >= 0"],
                           raises={'struct.error': "len(old.buf) < old.ptr + 4"},
                           ensures=["result[1] == val_be(old.buf[old.ptr:old.ptr + 4])",
                                    "result[0] == old.buf[old.ptr + 4:old.ptr + 4 + result[1]]",
                                    "result[2] == old.ptr + 4 + result[1]",
                                    "result[1] >= 0 and result[1] < 4294967296"],
                           use_entry=["val_be_word(buf[ptr:ptr + 4])"]),
                  harness=dict(imports=IMPORTS, call="KexDH._KexDH__get_bytes(buf, ptr)")))
    # RSA keys and RSA CAs: the exact bit length of the modulus; every other type: the adjusted byte length
    for t, rsa in (('ssh-rsa', True), ('ssh-rsa-cert-v01@openssh.com', True), ('ssh-ed25519', False), ('ssh-ed448', False),
                   ('ssh-ed25519-cert-v01@openssh.com', False), ('ecdsa-sha2-nistp256', False), ('', False)):
        ens = ["result == (bitlen(self._KexDH__hostkey_n) if self._KexDH__hostkey_n > 0 else %s)" % (ADJ % (('self._KexDH__hostkey_n_len',) * 3))] if rsa \
            else ["result == " + ADJ % (('self._KexDH__hostkey_n_len',) * 3)]
        U.append(Unit(Contract('KexDH.get_hostkey_size', setup=setup_kexdh, cases=[{'$type': t}], raises={}, ensures=ens), harness=None))
    for t, rsa in (('ssh-rsa', True), ('ssh-ed25519', False), ('ecdsa-sha2-nistp256', False), ('', False), ('rsa-sha2-512', False)):
        ens = ["result == (bitlen(self._KexDH__ca_n) if self._KexDH__ca_n > 0 else %s)" % (ADJ % (('self._KexDH__ca_n_len',) * 3))] if rsa \
            else ["result == " + ADJ % (('self._KexDH__ca_n_len',) * 3)]
        U.append(Unit(Contract('KexDH.get_ca_size', setup=setup_kexdh, cases=[{'$catype': t}], raises={}, ensures=ens), harness=None))
    return U


# ---------------------------------------------------------------------------------------------------- perform_test
# HostKeyTest.perform_test for ONE probed host-key type (the probe table is a parameter), against an arbitrary
# server: the socket layer and the KexDH object are contracts returning unconstrained values; the measured sizes hs, cs
# are unconstrained non-negative integers.  Proved: the rating-table edits follow the bands of the statement for every
# size, at most one connection and one key-exchange request are made, and the socket is closed on every exit.
TWO2K = '2048-bit modulus only provides 112-bits of symmetric strength'
ECC = '224-bit ECC modulus only provides 112-bits of symmetric strength'
NIST = 'CA key uses elliptic curves that are suspected as being backdoored by the U.S. National Security Agency'
RSA_FAMILY = ['ssh-rsa', 'rsa-sha2-256', 'rsa-sha2-512']


def _noop(ip, st, recv, args, kwargs):
    return None


def _bump(st, key):
    st.ghost[key] = st.ghost[key] + 1


def m_is_connected(ip, st, recv, args, kwargs):
    return st.ghost['connected']


def m_close(ip, st, recv, args, kwargs):
    st.ghost['connected'] = False
    return None


def m_connect(ip, st, recv, args, kwargs):
    _bump(st, 'connects')
    if ip.choose(st, 2) == 1:
        st.ghost['connected'] = False
        return fresh('connect_err', 'str')
    st.ghost['connected'] = True
    return None


def m_get_banner(ip, st, recv, args, kwargs):
    return (None, None, fresh('banner_err', ('opt', 'str')))


def m_read_packet(ip, st, recv, args, kwargs):
    return (fresh('ptype', 'int'), fresh('payload', 'bytes'))


def m_send_init(ip, st, recv, args, kwargs):
    _bump(st, 'kexreq')
    st.ghost['kexreq_connected'] = st.ghost['kexreq_connected'] and (st.ghost['connected'] is True)
    c = ip.choose(st, 2)
    if c == 1:
        from pyvc.interp import Raise
        from pyvc.values import ExcVal
        raise Raise(ExcVal('KexDHException', ()))
    return None


def m_recv_reply(ip, st, recv, args, kwargs):
    c = ip.choose(st, 3)
    if c == 1:
        from pyvc.interp import Raise
        from pyvc.values import ExcVal
        raise Raise(ExcVal('KexDHException', ()))
    if c == 2:
        return None
    return fresh('hostkey_blob', 'bytes')


def m_hs(ip, st, recv, args, kwargs):
    return st.ghost['hs']


def m_cs(ip, st, recv, args, kwargs):
    return st.ghost['cs']


def m_catype(ip, st, recv, args, kwargs):
    return st.ghost['catype']


def m_set_host_key(ip, st, recv, args, kwargs):
    st.ghost['recorded'] = st.new_list(list(st.get(st.ghost['recorded']).items) + [(args[0], args[2], args[3], args[4])])
    return None


def setup_perform(ip, st, fr, case):
    t, cert, catype = case['$type'], case['$cert'], case['$catype']
    n = case.get('$n', 3)
    names = RSA_FAMILY if t in RSA_FAMILY else [t]
    keydb = {}
    for nm in names:
        inner = [st.new_symlist(fresh('e_%d' % i, ('list', ('opt', 'str'))).t, ('opt', 'str')) for i in range(n)]
        keydb[nm] = st.new_list(inner, ('list', ('opt', 'str')))
        for i in range(n):
            fr['g_o%d_%d' % (names.index(nm), i)] = Sym(st.get(inner[i]).sym, ('list', ('opt', 'str')))
        if nm == t:
            for i in range(n):
                fr['g_old%d' % i] = Sym(st.get(inner[i]).sym, ('list', ('opt', 'str')))
    st.ghost['db'] = st.new_dict({'key': st.new_dict(keydb)})
    st.ghost['entry'] = keydb[t]
    st.ghost['entries'] = st.new_list([keydb[nm] for nm in names])
    hs, cs = fresh('hs', 'int'), fresh('cs', 'int')
    st.assume(hs.t >= 0)
    st.assume(cs.t >= 0)
    if not cert:
        st.assume(cs.t == 0)
    st.ghost.update({'hs': hs, 'cs': cs, 'catype': catype, 'connected': fresh('connected0', 'bool'), 'connects': 0, 'kexreq': 0,
                     'kexreq_connected': True, 'recorded': st.new_list([])})
    fr['out'] = st.new_obj('<out>', {'debug': fresh('debug', 'bool')})
    fr['s'] = st.new_obj('<sock>', {})
    party = st.new_obj('<party>', {'encryption': None, 'mac': None, 'compression': None, 'languages': None})
    fr['server_kex'] = st.new_obj('<kex>', {'key_algorithms': st.new_list([t, 'ssh-unrelated'], 'str'), 'server': party})
    fr['kex_str'] = 'curve25519-sha256'
    fr['kex_group'] = st.new_obj('<kexgroup>', {})
    fr['host_key_types'] = st.new_dict({t: st.new_dict({'cert': cert, 'variable_key_len': True})})
    fr['g_hs'], fr['g_cs'], fr['g_n'] = hs, cs, n
    mm = ip.method_models
    for name in ('d', 'v', 'fail', 'warn', 'info'):
        mm[('<out>', name)] = _noop
    mm[('<sock>', 'is_connected')] = m_is_connected
    mm[('<sock>', 'close')] = m_close
    mm[('<sock>', 'connect')] = m_connect
    mm[('<sock>', 'get_banner')] = m_get_banner
    mm[('<sock>', 'send_kexinit')] = _noop
    mm[('<sock>', 'read_packet')] = m_read_packet
    mm[('<kexgroup>', 'send_init')] = m_send_init
    mm[('<kexgroup>', 'recv_reply')] = m_recv_reply
    mm[('<kexgroup>', 'get_hostkey_size')] = m_hs
    mm[('<kexgroup>', 'get_ca_size')] = m_cs
    mm[('<kexgroup>', 'get_ca_type')] = m_catype
    mm[('<kex>', 'set_host_key')] = m_set_host_key
    return {}


def perform_stubs():
    return [Contract('SSH2_KexDB.get_db', mode='contract', result=lambda ip, st: st.ghost['db'], modifies=[], ensures=[],
                     note='the per-thread rating table: arbitrary entries of the documented shape for the probed names'),
            Contract('SSH2_Kex.parse', mode='contract', result=lambda ip, st: None, modifies=[], ensures=[], may_raise={'Exception': 'True'},
                     note='the re-sent KEXINIT of the probe connection: returns or raises anything (the result is not used by perform_test)'),
            Contract('traceback:format_exc', mode='contract', result='str', modifies=[], ensures=[])]


def band_clauses(t, cert, catype, n):
    """expected edits of the entry's failure list E[1] and warning list E[2] as a function of the measured sizes"""
    ecc_host = t.startswith('ssh-ed25519') or t.startswith('ssh-ed448') or t.startswith('ecdsa-sha2-nistp')
    ecc_ca = catype.startswith('ssh-ed25519') or catype.startswith('ecdsa-sha2-nistp')
    hlo, hhi, hwarn = (224, 256, ECC) if ecc_host else (2048, 3072, TWO2K)
    clo, chi, cwarn = (224, 256, ECC) if ecc_ca else (2048, 3072, TWO2K)
    P = "ghost('probed')"
    old1, old2 = ('g_old1' if n > 1 else '[]'), ('g_old2' if n > 2 else '[]')
    E1, E2 = "ghost('entry')[1]", "ghost('entry')[2]"
    if not cert:
        if t == 'ssh-dss':
            fails = "[]"
            warns = "[]"
        else:
            fails = "(['using small %%d-bit modulus' %% g_hs] if (g_hs > 0 and g_hs < %d) else [])" % hlo
            warns = "([%r] if (g_hs >= %d and g_hs < %d) else [])" % (hwarn, hlo, hhi)
    else:
        # (a certificate is rated when either size was measured)
        m = "(g_hs > 0 or g_cs > 0)"
        f_h = "(['using small %%d-bit hostkey modulus' %% g_hs] if (%s and g_hs < %d) else [])" % (m, hlo)
        f_c = "(['using small %%d-bit CA key modulus' %% g_cs] if (g_cs > 0 and g_cs < %d) else [])" % clo
        f_n = "([%r] if %s else [])" % (NIST, m) if catype.startswith('ecdsa-sha2-nistp') else "[]"
        fails = "%s + %s + %s" % (f_h, f_c, f_n)
        w_h = "([%r] if (%s and g_hs >= %d and g_hs < %d) else [])" % (hwarn, m, hlo, hhi)
        w_c = "([%r] if (g_cs >= %d and g_cs < %d and not (%r == %r and g_hs >= %d and g_hs < %d)) else [])" % (cwarn, clo, chi, cwarn, hwarn, hlo, hhi)
        warns = "%s + %s" % (w_h, w_c)
    return fails, warns


def perform_units():
    U = []
    cases = [(t, False, '') for t in ('ssh-rsa', 'rsa-sha2-256', 'rsa-sha2-512', 'ssh-ed25519', 'ssh-ed448', 'ssh-dss')]
    for t in ('ssh-rsa-cert-v01@openssh.com', 'rsa-sha2-512-cert-v01@openssh.com', 'ssh-ed25519-cert-v01@openssh.com'):
        for ca in ('ssh-rsa', 'ssh-ed25519', 'ecdsa-sha2-nistp256', ''):
            cases.append((t, True, ca))
    for t, cert, ca in cases:
        for n in ((1, 3) if t == 'ssh-rsa' else (3,)):
            fails, warns = band_clauses(t, cert, ca, n)
            old1, old2 = ('g_old1' if n > 1 else '[]'), ('g_old2' if n > 2 else '[]')
            measured = "len(ghost('recorded')) > 0"
            ens = [
                # footprint (C19): at most one connection and one key-exchange request, sent on an open connection, which is closed afterwards on every path
                "ghost('connects') <= 1 and ghost('kexreq') <= 1 and ghost('kexreq_connected')",
                # (a connection on which the re-sent KEXINIT could not be parsed is left to the caller, which closes it; no request was sent on it)
                "implies(ghost('kexreq') >= 1, ghost('connected') == False)",
                # what is recorded (C11): the measured sizes, for the whole RSA family when a plain RSA key was probed
                "(ghost('recorded')[0] == (%r, g_hs, %r, g_cs)) if %s else True" % (t, ca, measured),
                "len(ghost('recorded')) == (0 if not %s else %d)" % (measured, 4 if (t in RSA_FAMILY and not cert) else 1),
                # rating-table edits: exactly the band notes, appended
                "(ghost('entry')[1] == %s + %s) if %s else True" % (old1, fails, measured),
                "(ghost('entry')[2] == %s + %s) if %s else True" % (old2, warns, measured),
                "True if %s else (len(ghost('entry')) == g_n or (ghost('entry')[1] == %s and ghost('entry')[2] == %s))" % (measured, old1, old2),
            ]
            if t in RSA_FAMILY:
                for j in range(3):
                    ens.append("(ghost('entries')[%d][1] == %s + %s and ghost('entries')[%d][2] == %s + %s) if %s else True"
                               % (j, 'g_o%d_1' % j if n > 1 else '[]', fails, j, 'g_o%d_2' % j if n > 2 else '[]', warns, measured))
            U.append(Unit(Contract('HostKeyTest.perform_test', setup=setup_perform, raises={},
                                   cases=[{'$type': t, '$cert': cert, '$catype': ca, '$n': n}], ensures=ens), harness=None))
    return U
