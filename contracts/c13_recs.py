"""C13 -- recommendations are consistent with the ratings shown (bounded run-time contract check; see checks/c13.py)."""

NATIVE = r'''
import json, sys, re
sys.path.insert(0, %(native)r)
import harness as H
from ssh_audit.ssh2_kexdb import SSH2_KexDB
DB = SSH2_KexDB.MASTER_DB
CHG = ['diffie-hellman-group-exchange-sha256', 'rsa-sha2-256', 'rsa-sha2-512', 'rsa-sha2-256-cert-v01@openssh.com', 'rsa-sha2-512-cert-v01@openssh.com']
PREFIX = {'OpenSSH': '', 'Dropbear SSH': 'd', 'libssh': 'l1'}
def vt(v):
    return tuple(int(x) for x in v.split('.'))
def items(entry):
    out = []
    vs = entry[0]
    if not vs or vs[0] is None:
        return None
    for it in vs[0].split(','):
        cli = it.endswith('C')
        if cli: it = it[:-1]
        if it.startswith('d'): prod, v = 'Dropbear SSH', it[1:]
        elif it.startswith('l1'): prod, v = 'libssh', it[2:]
        else: prod, v = 'OpenSSH', it
        if v: out.append((prod, v, cli))
    return out
def avail(entry, product, version):
    its = items(entry)
    if its is None:
        return None          # no version information
    for prod, v, cli in its:
        if prod == product and not cli and vt(version) >= vt(v):
            return True
    return False
def norm(cat, n):
    return n[:n.rindex('-')] + '-*' if cat == 'kex' and n.startswith('gss-') else n
def banner(product, version):
    return {'OpenSSH': 'SSH-2.0-OpenSSH_%%s', 'Dropbear SSH': 'SSH-2.0-dropbear_%%s', 'libssh': 'SSH-2.0-libssh-%%s', 'TinySSH': 'SSH-2.0-tinyssh_%%s', None: 'SSH-2.0-FooSSH_%%s'}[product] %% version
peers = [
 dict(kex=['curve25519-sha256', 'diffie-hellman-group-exchange-sha256', 'diffie-hellman-group14-sha1'], key=['ssh-ed25519', 'rsa-sha2-512', 'ssh-rsa'], enc=['aes128-ctr', 'aes256-gcm@openssh.com', '3des-cbc'], mac=['hmac-sha2-256-etm@openssh.com', 'hmac-sha1', 'umac-64@openssh.com']),
 dict(kex=['diffie-hellman-group1-sha1', 'gss-group1-sha1-toWM5Slw5Ew8Mqkay+al2g==', 'gss-curve25519-sha256-toWM5Slw5Ew8Mqkay+al2g==', 'sntrup761x25519-sha512@openssh.com'], key=['ssh-dss', 'ecdsa-sha2-nistp256'], enc=['arcfour', 'aes256-ctr'], mac=['hmac-md5', 'hmac-sha2-512']),
 dict(kex=['curve25519-sha256@libssh.org', 'kex-strict-s-v00@openssh.com', 'ext-info-s', 'foo-kex@example.com'], key=['ssh-ed25519', 'ssh-ed25519-cert-v01@openssh.com'], enc=['chacha20-poly1305@openssh.com', 'foo-cipher'], mac=['hmac-sha2-256', 'foo-mac']),
 # the two directions differ: CBC ciphers and an ETM MAC only in the server-to-client lists (the lists the report rates)
 dict(kex=['curve25519-sha256'], key=['ssh-ed25519'], enc=['aes128-ctr', 'aes128-cbc', '3des-cbc'], mac=['hmac-sha2-256-etm@openssh.com', 'hmac-sha1'], cli_enc=['aes128-ctr'], cli_mac=['hmac-sha2-256']),
 dict(kex=['curve25519-sha256'], key=['ssh-ed25519'], enc=['aes256-cbc', 'aes128-ctr'], mac=['hmac-sha2-256'], cli_enc=[''], cli_mac=['hmac-sha1-etm@openssh.com']),
]
versions = {}
for cat in DB:
    for n, e in DB[cat].items():
        for prod, v, cli in (items(e) or []):
            versions.setdefault(prod, set()).add(v)
def around(v):
    t = list(vt(v))
    out = {v}
    t2 = list(t); t2[-1] += 1; out.add('.'.join(map(str, t2)))
    if t[-1] > 0:
        t3 = list(t); t3[-1] -= 1; out.add('.'.join(map(str, t3)))
    return out
cases, failures = 0, []
per = {}
def fail(inp, got, want, cls):
    per[cls] = per.get(cls, 0) + 1
    if per[cls] <= 3:
        failures.append({'input': dict(inp, **{'class': cls}), 'got': got, 'want': want})
plan = []
for prod in ('OpenSSH', 'Dropbear SSH', 'libssh'):
    vs = set()
    for v in versions.get(prod, ()):
        vs |= around(v)
    vs |= {'10.0', '9.9', '0.10.6', '0.7.0', '2022.83', '0.53'} if prod != 'x' else set()
    for v in sorted(vs, key=vt):
        plan.append((prod, v))
plan += [('TinySSH', '20240101'), (None, '1.0')]
for pi, peer in enumerate(peers):
    for prod, ver in plan:
        if pi > 0 and prod in PREFIX and ver not in ('10.0', '9.9', '7.4', '6.5', '0.10.6', '0.7.0', '2022.83', '2020.79', '0.53'):
            continue      # the full version sweep is done for the first peer
        cases += 1
        inp = {'peer': pi, 'product': prod, 'version': ver}
        kex = H.make_kex(peer['kex'], peer['key'], peer['enc'], peer['mac'], cli_enc=peer.get('cli_enc'), cli_mac=peer.get('cli_mac'))
        status, text = H.run_output(kex=kex, banner=banner(prod, ver))
        recs = H.rec_lines(text)
        finds = H.text_findings(text)
        shown = {}
        for c, n, lvl, note in finds:
            shown.setdefault((c, n), set()).add(lvl)
        got_del = sorted((c, n) for sg, n, c in recs if sg in '-!')
        got_add = sorted((c, n) for sg, n, c in recs if sg == '+')
        crit = {}
        for raw in text.split('\n'):
            m = re.search(r'\x1b\[0;(\d+)m\(rec\) ([-+!])(\S+)', raw)
        # removal / change: advertised, known to the database in this version, rated fail or warn in this very report
        want_del = []
        for cat in ('kex', 'key', 'enc', 'mac'):
            for n in peer[cat]:
                e = DB[cat].get(norm(cat, n))
                if e is None:
                    continue
                lv = shown.get((cat, n), set())
                rated = ('fail' in lv) or ('warn' in lv)
                a = avail(e, prod, ver) if prod in PREFIX else True
                if prod == 'TinySSH' or prod is None:
                    a = True if prod is None else (avail(e, prod, ver) is None)
                if rated and (a is True or a is None) and n != 'diffie-hellman-group-exchange-sha256-suppressed':
                    want_del.append((cat, norm(cat, n)))
        got_del_norm = sorted(set((c, norm(c, n)) for c, n in got_del))
        extra = [x for x in got_del_norm if x not in want_del]
        missing = [x for x in want_del if x not in got_del_norm]
        if extra:
            fail(inp, {'removal/change recommended': extra}, 'only advertised algorithms rated fail/warn', 'del-extra')
        if missing and prod in PREFIX:
            cls = 'del-missing-gss' if all(n.startswith('gss-') for c, n in missing) else 'del-missing'
            fail(inp, {'not recommended for removal': missing}, 'every advertised algorithm rated fail/warn that the version knows', cls)
        for cat, n in got_add:
            e = DB[cat].get(n)
            bad = None
            if e is None: bad = 'not a database name'
            elif n in peer[cat]: bad = 'already advertised'
            elif (len(e) > 1 and e[1]) or (len(e) > 2 and e[2]): bad = 'carries a failure or warning'
            elif cat == 'key' and ('-cert-' in n or n.startswith('sk-') or '-sk-' in n): bad = 'certificate / security-key algorithm'
            elif cat == 'kex' and (n.startswith('ext-info-') or n.startswith('kex-strict-')): bad = 'pseudo algorithm'
            elif prod not in ('OpenSSH', 'Dropbear SSH', 'libssh', 'TinySSH'): bad = 'software not recognised'
            elif prod in PREFIX and avail(e, prod, ver) is not True: bad = 'not available in %%s %%s' %% (prod, ver)
            if bad:
                fail(inp, {'recommended for addition': [cat, n]}, bad, 'add-bad')
        if prod in PREFIX:
            for cat in ('kex', 'key', 'enc', 'mac'):
                for n, e in DB[cat].items():
                    if n in peer[cat] or (len(e) > 1 and e[1]) or (len(e) > 2 and e[2]):
                        continue
                    if cat == 'key' and ('-cert-' in n or n.startswith('sk-')): continue
                    if cat == 'kex' and (n.startswith('ext-info-') or n.startswith('kex-strict-')): continue
                    if avail(e, prod, ver) is True and (cat, n) not in got_add:
                        # the tool suppresses additions the operator disabled for Terrapin reasons
                        if (cat == 'enc' and (n.startswith('chacha20-poly1305') or '-cbc' in n)) or (cat == 'mac' and n.endswith('-etm@openssh.com')):
                            continue
                        fail(inp, {'not recommended for addition': [cat, n]}, 'clean algorithm available since a version <= %%s' %% ver, 'add-missing')
        both = [x for x in got_add if x in got_del]
        if both:
            fail(inp, {'recommended both ways': both}, 'nothing', 'both')
        # severity of each removal/change recommendation == worst rating the same report shows for that algorithm (JSON view carries the level)
        if ver in ('10.0', '9.9', '7.4', '0.10.6', '2022.83', '20240101', '1.0') or pi == 0 and cases %% 7 == 0:
            kex = H.make_kex(peer['kex'], peer['key'], peer['enc'], peer['mac'], cli_enc=peer.get('cli_enc'), cli_mac=peer.get('cli_mac'))
            st2, js = H.run_output(kex=kex, banner=banner(prod, ver), json_out=True)
            doc = json.loads(js)
            rated = {}
            for cat in ('kex', 'key', 'enc', 'mac'):
                for e in doc[cat]:
                    rated[(cat, e['algorithm'])] = e['notes']
            for level, acts in doc.get('recommendations', {}).items():
                for act, cats in acts.items():
                    for cat, ents in cats.items():
                        for ent in ents:
                            n = ent['name']
                            if act in ('del', 'chg'):
                                notes = rated.get((cat, n))
                                if notes is None:
                                    notes = [v for (c2, n2), v in rated.items() if c2 == cat and norm(cat, n2) == n]
                                    notes = notes[0] if notes else None
                                if notes is None:
                                    fail(inp, {'recommended': [level, act, cat, n]}, 'an advertised algorithm', 'level-unknown-alg'); continue
                                want_level = 'critical' if notes.get('fail') else 'warning'
                                if level != want_level:
                                    fail(inp, {'recommendation': [level, act, cat, n], 'rated': sorted(notes)}, want_level, 'level')
                            elif act == 'add' and level != 'informational':
                                fail(inp, {'recommendation': [level, act, cat, n]}, 'informational', 'level-add')
print(json.dumps({'cases': cases, 'failures': failures}))
'''
