"""Bounded run-time contract checks of the rendering pipeline (C01, C03, C15) on the REAL output()/build_struct code."""

COMMON = r'''
import json, sys, itertools, random
sys.path.insert(0, %(native)r)
import harness as H
from ssh_audit.ssh2_kexdb import SSH2_KexDB
DB = SSH2_KexDB.MASTER_DB
GSS = 'toWM5Slw5Ew8Mqkay+al2g=='
def inst(cat, n):
    return n[:-1] + GSS if cat == 'kex' and n.startswith('gss-') and n.endswith('-*') else n
def chunks(l, k):
    return [l[i:i + k] for i in range(0, len(l), k)]
rnd = random.Random(2024)
ALL = {c: [inst(c, n) for n in DB[c]] for c in ('kex', 'key', 'enc', 'mac')}
def peers():
    """every database name appears in some peer; plus unknown names, duplicates, blank and very long names, single/empty lists"""
    out = []
    k = 12
    n = max(len(chunks(ALL[c], k)) for c in ALL)
    for i in range(n):
        p = {}
        for c in ALL:
            ch = chunks(ALL[c], k)
            p[c] = list(ch[i %% len(ch)])
        out.append(p)
    out.append(dict(kex=['curve25519-sha256', 'foo-kex@example.com', 'curve25519-sha256', ''], key=['ssh-ed25519', 'x' * 300], enc=['aes128-ctr', ' ', 'aes128-ctr', 'bar-cipher'], mac=['hmac-sha2-256']))
    out.append(dict(kex=['diffie-hellman-group1-sha1'], key=['ssh-rsa'], enc=[''], mac=['hmac-md5', 'hmac-sha2-512', 'hmac-md5']))
    out.append(dict(kex=['gss-gex-sha1-' + GSS, 'gss-group14-sha256-a+b/c=='], key=['ssh-dss'], enc=['none'], mac=['none']))
    # repeated unknown names (within a list, across categories, gss names that normalise to the same wildcard)
    out.append(dict(kex=['foo-kex@example.com', 'foo-kex@example.com', 'gss-foo-sha1-AAAA==', 'gss-foo-sha1-BBBB==', 'gss-foo-sha1-AAAA=='], key=['zz-alg', 'ssh-ed25519', 'zz-alg'],
                    enc=['zz-alg', 'aes128-ctr', 'zz-alg'], mac=['zz-alg', 'hmac-sha2-256']))
    # the two directions of a KEXINIT differ: the report shows the server-to-client lists (what output()/build_struct read), in text and JSON alike
    out.append(dict(kex=['curve25519-sha256'], key=['ssh-ed25519'], enc=['aes128-ctr', 'aes256-ctr'], mac=['hmac-sha2-256', 'hmac-sha2-512'],
                    cli_enc=['aes256-ctr', '3des-cbc'], cli_mac=['hmac-sha1']))
    out.append(dict(kex=['curve25519-sha256'], key=['ssh-ed25519'], enc=['aes128-ctr'], mac=['hmac-sha2-256'], cli_enc=[''], cli_mac=['hmac-md5', 'hmac-sha2-256']))
    return out
import os
TIER = os.environ.get('VERIF_TIER', 'quick')
def random_peers(db_only=False, count=None):
    """seeded random peers: 1..6 names per category drawn from the database (10%%: an unknown name; 10%%: a repeated name), any order"""
    r = random.Random(777)
    out = []
    for i in range(count if count is not None else (12 if TIER == 'quick' else 120)):
        p = {}
        for c in ALL:
            k = r.randrange(1, 7)
            l = [r.choice(ALL[c]) for _ in range(k)]
            if not db_only:
                if r.random() < 0.1:
                    l.insert(r.randrange(len(l) + 1), 'unknown-%%s-%%d@example.com' %% (c, i))
                if r.random() < 0.1:
                    l.append(l[0])
            else:
                l = list(dict.fromkeys(l))
            p[c] = l
        out.append(p)
    return out
cases, failures = 0, []
per = {}
def fail(inp, got, want, cls='x'):
    per[cls] = per.get(cls, 0) + 1
    if per[cls] <= 3:
        failures.append({'input': dict(inp, **{'class': cls}), 'got': got, 'want': want})
def notes_of(finds, cat, name):
    d = {}
    for c, n, lvl, note in finds:
        if c == cat and n == name and lvl is not None:
            d.setdefault(lvl, []).append(note)
    return d
'''

C01 = COMMON + r'''
def nonblank(l):
    return [x for x in l if x.strip() != '']
def wire_kex(p, comp):
    from ssh_audit.ssh2_kex import SSH2_Kex
    from ssh_audit.ssh2_kexparty import SSH2_KexParty
    from ssh_audit.outputbuffer import OutputBuffer
    from ssh_audit.writebuf import WriteBuf
    cli = SSH2_KexParty(list(p.get('cli_enc') if p.get('cli_enc') is not None else p['enc']), list(p.get('cli_mac') if p.get('cli_mac') is not None else p['mac']), list(comp), [''])
    srv = SSH2_KexParty(list(p['enc']), list(p['mac']), list(comp), [''])
    k = SSH2_Kex(OutputBuffer(), b'\x11' * 16, list(p['kex']), list(p['key']), cli, srv, False, 0)
    w = WriteBuf(); k.write(w)
    return SSH2_Kex.parse(OutputBuffer(), w.write_flush())
for pi, p in enumerate(peers() + random_peers()):
    for role in ('server', 'client'):
        for mode in ('plain', 'batch', 'verbose', 'json'):
            cases += 1
            inp = {'peer': pi, 'role': role, 'mode': mode}
            if pi %% 2 == 0:
                # the peer as parsed from the wire: a KEXINIT payload through SSH2_Kex.parse (name-list decoding included)
                kex = wire_kex(p, ['none', 'zlib@openssh.com', 'zlib'])
            else:
                kex = H.make_kex(p['kex'], p['key'], p['enc'], p['mac'], cli_enc=p.get('cli_enc'), cli_mac=p.get('cli_mac'), comp=['none', 'zlib@openssh.com', 'zlib'])
            status, text = H.run_output(kex=kex, client_host=('10.1.2.3' if role == 'client' else None), json_out=(mode == 'json'), batch=(mode == 'batch'), verbose=(mode == 'verbose'))
            if mode == 'json':
                try:
                    doc = json.loads(text)
                except Exception as e:
                    fail(inp, 'not JSON: %%r' %% (e,), 'one JSON document', 'json'); continue
                for c in ('kex', 'key', 'enc', 'mac'):
                    got = [e['algorithm'] for e in doc[c]]
                    if got != nonblank(p[c]):
                        fail(dict(inp, category=c), got[:8], nonblank(p[c])[:8], 'json-names-blank' if [g for g in got if g.strip() != ''] == nonblank(p[c]) else 'json-names')
                if doc.get('compression') != ['none', 'zlib@openssh.com', 'zlib']:
                    fail(inp, doc.get('compression'), ['none', 'zlib@openssh.com', 'zlib'], 'json-compression')
                if doc['banner']['raw'] != 'SSH-2.0-OpenSSH_8.9':
                    fail(inp, doc['banner']['raw'], 'SSH-2.0-OpenSSH_8.9', 'json-banner')
            else:
                for c in ('kex', 'key', 'enc', 'mac'):
                    got = H.text_names(text, c)
                    if mode == 'verbose':
                        # verbose mode repeats the name on every note line: collapse consecutive repeats that come from one algorithm
                        pass
                    want = nonblank(p[c])
                    if mode != 'verbose' and got != want:
                        fail(dict(inp, category=c), got[:8], want[:8], 'text-names')
                    if mode == 'verbose' and [g for i, g in enumerate(got) if i == 0 or g != got[i - 1]] != [w for i, w in enumerate(want) if i == 0 or w != want[i - 1]]:
                        fail(dict(inp, category=c), got[:8], want[:8], 'text-names-verbose')
                if '(gen) compression: enabled (zlib@openssh.com, zlib)' not in text:
                    fail(inp, [l for l in text.split('\n') if 'compression' in l], 'enabled (zlib@openssh.com, zlib)', 'text-compression')
                if '(gen) banner: SSH-2.0-OpenSSH_8.9' not in text:
                    fail(inp, [l for l in text.split('\n') if 'banner' in l][:2], 'the banner as sent', 'text-banner')
# SSH-1: all cipher / authentication masks
from ssh_audit.ssh1 import SSH1
for cm, am in [(0, 0), (0x7f, 0x7f), (0x48, 0x2c), (1, 1), (0x40, 0x40), (0xffffffff, 0xffffffff)] + [(1 << i, 1 << i) for i in range(8)]:
    for mode in ('plain', 'json'):
        cases += 1
        inp = {'ssh1 cipher mask': cm, 'auth mask': am, 'mode': mode}
        want_enc = [SSH1.CIPHERS[i] for i in range(7) if cm & (1 << i)]
        want_aut = [SSH1.AUTHS[i] for i in range(1, 7) if am & (1 << i)]
        try:
            status, text = H.run_output(pkm=H.make_pkm(cm, am), banner='SSH-1.5-OpenSSH_3.0', json_out=(mode == 'json'))
        except Exception as e:
            fail(inp, 'exception %%r' %% (e,), 'a report', 'ssh1-crash'); continue
        if mode == 'json':
            doc = json.loads(text)
            if doc.get('enc') != want_enc or doc.get('aut') != want_aut:
                fail(inp, {'enc': doc.get('enc'), 'aut': doc.get('aut')}, {'enc': want_enc, 'aut': want_aut}, 'ssh1-json')
        else:
            if H.text_names(text, 'enc') != want_enc or H.text_names(text, 'aut') != want_aut:
                fail(inp, {'enc': H.text_names(text, 'enc'), 'aut': H.text_names(text, 'aut')}, {'enc': want_enc, 'aut': want_aut}, 'ssh1-text')
print(json.dumps({'cases': cases, 'failures': failures}))
'''

C03 = COMMON + r'''
import io, contextlib
import ssh_audit.ssh_audit as sa
from ssh_audit.outputbuffer import OutputBuffer
TERRAPIN = 'vulnerable to the Terrapin attack'
def clean(d):
    out = {}
    for lvl, notes in d.items():
        ns = sorted(n for n in notes if TERRAPIN not in n)
        if ns:
            out[lvl] = ns
    return out
def render(p, role='server'):
    kex = H.make_kex(p['kex'], p['key'], p['enc'], p['mac'])
    s1, text = H.run_output(kex=kex, client_host=('10.1.2.3' if role == 'client' else None))
    kex = H.make_kex(p['kex'], p['key'], p['enc'], p['mac'])
    s2, js = H.run_output(kex=kex, client_host=('10.1.2.3' if role == 'client' else None), json_out=True)
    return H.text_findings(text), json.loads(js)
def json_notes(doc, cat, name):
    for e in doc[cat]:
        if e['algorithm'] == name:
            return {k: list(v) for k, v in e['notes'].items()}
    return None
def lookup(name):
    H.fresh_tables()
    out = OutputBuffer(); out.use_colors = False
    with contextlib.redirect_stdout(io.StringIO()):
        sa.algorithm_lookup(out, name)
    return H.text_findings(out.get_buffer())
base = dict(kex=['curve25519-sha256'], key=['ssh-ed25519'], enc=['aes128-ctr'], mac=['hmac-sha2-256'])
alone = {}
for c in ('kex', 'key', 'enc', 'mac'):
    for n in ALL[c]:
        cases += 1
        p = dict(base); p[c] = [n]
        tf, doc = render(p)
        t = clean(notes_of(tf, c, n)); j = clean(json_notes(doc, c, n) or {})
        alone[(c, n)] = t
        inp = {'category': c, 'name': n}
        if t != j:
            fail(inp, {'json': j}, {'text': t}, 'text-vs-json-gss' if n.startswith('gss-') else 'text-vs-json')
        if not n.startswith('gss-'):
            lf = [x for x in lookup(n) if x[0] == c]
            l = clean(notes_of(lf, c, n))
            if l != t:
                fail(inp, {'lookup': l}, {'text': t}, 'lookup')
# --lookup of a name the database does not know: listed as unknown, never passed over in silence, and the lookup does not end with status 0
for names in (['no-such-alg@example.com'], ['curve25519-sha256', 'no-such-alg@example.com'], ['no-such-alg@example.com', 'aes128-ctr', 'another-unknown'], ['AES128-CTR-X']):
    cases += 1
    H.fresh_tables()
    out_ = OutputBuffer(); out_.use_colors = False
    with contextlib.redirect_stdout(io.StringIO()):
        rv = sa.algorithm_lookup(out_, ','.join(names))
    txt = out_.get_buffer()
    unk = [n for n in names if not any(n in DB[c] for c in DB)]
    sect = txt.split('# unknown algorithms')[1].split('#')[0] if '# unknown algorithms' in txt else ''
    if rv == 0 or any(n not in sect.split() for n in unk):
        fail({'lookup': names}, {'status': rv, 'listed as unknown': [n for n in unk if n in sect.split()]}, {'status': 'not 0', 'listed as unknown': unk}, 'lookup-unknown')
# the same names among neighbours, in other positions, audited as a client
for pi, p in enumerate(peers()[:-6] + random_peers(db_only=True)):
    for role in ('server', 'client'):
        q = {c: list(reversed(p[c])) if role == 'client' else list(p[c]) for c in p}
        cases += 1
        tf, doc = render(q, role)
        for c in ('kex', 'key', 'enc', 'mac'):
            for n in q[c]:
                t = clean(notes_of(tf, c, n)); j = clean(json_notes(doc, c, n) or {})
                if t != alone[(c, n)]:
                    fail({'peer': pi, 'role': role, 'category': c, 'name': n}, {'among neighbours': t}, {'alone': alone[(c, n)]}, 'neighbours')
                if j != t:
                    fail({'peer': pi, 'role': role, 'category': c, 'name': n}, {'json': j}, {'text': t}, 'text-vs-json-gss' if n.startswith('gss-') else 'text-vs-json')
# the position of a name in its list never matters, context-dependent notes (Terrapin) included: same peer, lists reversed / rotated
def full(d):
    return {lvl: sorted(v) for lvl, v in d.items() if v}
ctx = [dict(kex=['curve25519-sha256'], key=['ssh-ed25519'], enc=['aes128-ctr', 'chacha20-poly1305@openssh.com', 'aes256-cbc', 'aes256-gcm@openssh.com'], mac=['hmac-sha2-256', 'hmac-sha2-256-etm@openssh.com', 'umac-128-etm@openssh.com']),
       dict(kex=['curve25519-sha256', 'kex-strict-s-v00@openssh.com'], key=['ssh-ed25519'], enc=['aes128-ctr', 'chacha20-poly1305@openssh.com', '3des-cbc'], mac=['hmac-sha2-512-etm@openssh.com', 'hmac-sha1']),
       dict(kex=['diffie-hellman-group14-sha256', 'curve25519-sha256'], key=['rsa-sha2-512', 'ssh-ed25519'], enc=['aes256-ctr', 'aes128-ctr', 'chacha20-poly1305@openssh.com'], mac=['hmac-sha2-256'])]
for pi, p in enumerate(ctx + peers()[:4] + random_peers(db_only=True, count=(6 if TIER == 'quick' else 60))):
    ref_t, ref_j = render(p)
    for how in ('reversed', 'rotated'):
        cases += 1
        q = {c: (list(reversed(p[c])) if how == 'reversed' else p[c][1:] + p[c][:1]) for c in p}
        tf, doc = render(q)
        for c in ('kex', 'key', 'enc', 'mac'):
            for n in p[c]:
                a, b = full(notes_of(ref_t, c, n)), full(notes_of(tf, c, n))
                if a != b:
                    fail({'order-peer': pi, 'how': how, 'category': c, 'name': n}, {how: b}, {'original order': a}, 'position-text')
                a, b = full(json_notes(ref_j, c, n) or {}), full(json_notes(doc, c, n) or {})
                if a != b:
                    fail({'order-peer': pi, 'how': how, 'category': c, 'name': n}, {how: b}, {'original order': a}, 'position-json')
# a name advertised more than once: every occurrence carries the notes of a single occurrence (JSON entries are per occurrence)
for c, n in (('key', 'ssh-rsa'), ('key', 'ssh-dss'), ('kex', 'diffie-hellman-group14-sha1'), ('enc', '3des-cbc'), ('mac', 'hmac-sha1'), ('kex', 'curve25519-sha256')) + tuple(
        (c2, n2) for c2 in ('kex', 'key', 'enc', 'mac') for n2, e2 in DB[c2].items() if len(e2) >= 4 and not n2.endswith('-*'))[:12]:
    cases += 1
    p = dict(base); p[c] = [n, base[c][0], n] if n != base[c][0] else [n, n]
    tf, doc = render(p)
    ents = [e for e in doc[c] if e['algorithm'] == n]
    p1 = dict(base); p1[c] = [n]
    tf1, doc1 = render(p1)
    one = [e for e in doc1[c] if e['algorithm'] == n][0]['notes']
    for i, e in enumerate(ents):
        if e['notes'] != one:
            fail({'category': c, 'name': n, 'occurrence': i}, {'notes': e['notes']}, {'notes of a single occurrence': one}, 'duplicate-json')
# unknown names occurring more than once (in one list, in two categories, gss names sharing a wildcard): every occurrence is flagged, in text and JSON
for p_, occ in ((dict(base, enc=['zz-alg', 'aes128-ctr', 'zz-alg']), [('enc', 'zz-alg', 2)]),
                (dict(base, enc=['aes128-ctr', 'zz-aead'], mac=['zz-aead']), [('enc', 'zz-aead', 1), ('mac', 'zz-aead', 1)]),
                (dict(base, kex=['gss-foo-sha1-AAAA==', 'curve25519-sha256', 'gss-foo-sha1-BBBB==']), [('kex', 'gss-foo-sha1-AAAA==', 1), ('kex', 'gss-foo-sha1-BBBB==', 1)])):
    for role in ('server', 'client'):
        cases += 1
        tf, doc = render(p_, role)
        for c, n, k in occ:
            tn = len([1 for c2, n2, lvl, note in tf if c2 == c and n2 == n and note and 'unknown algorithm' in note])
            jn = len([1 for e in doc[c] if e['algorithm'] == n and any('unknown algorithm' in x for v in e['notes'].values() for x in v)])
            if tn != k or jn != k:
                fail({'peer': {x: p_[x] for x in ('kex', 'enc', 'mac')}, 'role': role, 'category': c, 'name': n}, {'flagged in text': tn, 'flagged in JSON': jn}, {'occurrences': k}, 'unknown-repeated')
# a name advertised in two categories is rated per category in every view (a cipher name in the MAC list is an unknown MAC)
for enc, mac in ((['chacha20-poly1305@openssh.com', 'aes128-ctr'], ['chacha20-poly1305@openssh.com', 'hmac-sha2-256']), (['aes128-ctr'], ['aes128-ctr']),
                 (['hmac-sha2-256', 'aes256-ctr'], ['hmac-sha2-256']), (['zz-both'], ['zz-both', 'hmac-sha2-512'])):
    cases += 1
    p_ = dict(base, enc=enc, mac=mac)
    tf, doc = render(p_)
    for c in ('enc', 'mac'):
        for n in p_[c]:
            t = clean(notes_of(tf, c, n)); j = clean(json_notes(doc, c, n) or {})
            known = n in DB[c]
            tu = any('unknown algorithm' in x for v in t.values() for x in v); ju = any('unknown algorithm' in x for v in j.values() for x in v)
            if tu == known or ju == known or (known and t != j):
                fail({'enc': enc, 'mac': mac, 'category': c, 'name': n}, {'text': t, 'json': j}, 'rated by (category, name): ' + ('the database entry' if known else 'unknown algorithm'), 'cross-category-name')
# ratings that come from probing (host-key size): the same for a name whether it is advertised alone or next to its RSA siblings
sys.path.insert(0, %(native)r)
import fakenet as F
def probe_notes(keys, bits):
    srv = F.Server(['curve25519-sha256'], list(keys), ['aes128-ctr'], ['hmac-sha2-256'], hostkeys={k: F.rsa_blob(bits) for k in keys})
    st, out = F.run_main(['-n', '--skip-rate-test', 's.test'], F.FakeNet({'s.test': srv}))
    return H.text_findings(out)
def probe_json(keys, bits):
    srv = F.Server(['curve25519-sha256'], list(keys), ['aes128-ctr'], ['hmac-sha2-256'], hostkeys={k: F.rsa_blob(bits) for k in keys})
    st, out = F.run_main(['-n', '-j', '--skip-rate-test', 's.test'], F.FakeNet({'s.test': srv}))
    return json.loads(out)
for bits in (1024, 2048, 4096):
    for n in ('rsa-sha2-512', 'rsa-sha2-256', 'ssh-rsa'):
        cases += 1
        a = full(notes_of(probe_notes([n], bits), 'key', n))
        # ... and the same in the JSON view of the same (probed) server, and never "unknown" for a database name
        jn = full(clean(json_notes(probe_json([n], bits), 'key', n) or {}))
        if full(clean(a)) != jn or any('unknown algorithm' in x for v in a.values() for x in v):
            fail({'host key': n, 'bits': bits, 'view': 'text vs JSON after probing'}, {'text': a, 'json': jn}, 'the same notes in both views', 'probe-rating-text-vs-json')
        for keys in (['rsa-sha2-256', 'rsa-sha2-512', 'ssh-rsa'], ['ssh-rsa', 'rsa-sha2-512', 'rsa-sha2-256']):
            b = full(notes_of(probe_notes(keys, bits), 'key', n))
            if a != b:
                fail({'host key': n, 'bits': bits, 'advertised with': keys}, {'notes': b}, {'notes when advertised alone': a}, 'probe-rating-depends-on-neighbours')
# unknown names: flagged as unknown in every view, never presented as good
for c, n in (('kex', 'foo-kex@example.com'), ('key', 'ssh-foo'), ('enc', 'bar-cipher'), ('mac', 'hmac-foo'), ('kex', 'gss-foo-' + GSS)):
    cases += 1
    p = dict(base); p[c] = [base[c][0], n]
    tf, doc = render(p)
    t = notes_of(tf, c, n); j = json_notes(doc, c, n) or {}
    if not any('unknown algorithm' in x for v in t.values() for x in v) or 'info' in t and not ('warn' in t or 'fail' in t):
        fail({'category': c, 'name': n}, {'text': t}, 'flagged as unknown', 'unknown-text')
    if not any('unknown algorithm' in x for v in j.values() for x in v):
        fail({'category': c, 'name': n}, {'json': j}, 'flagged as unknown', 'unknown-json')
print(json.dumps({'cases': cases, 'failures': failures}))
'''

C15 = COMMON + r'''
import hashlib, subprocess, os
RANK = {'info': 0, 'warn': 1, 'fail': 2}
def findings_set(text):
    return sorted(set((c, n, lvl, note) for c, n, lvl, note in H.text_findings(text) if lvl is not None))
def json_findings(doc):
    out = []
    for c in ('kex', 'key', 'enc', 'mac'):
        for e in doc[c]:
            for lvl, notes in e['notes'].items():
                for note in notes:
                    out.append((c, e['algorithm'], lvl, note))
    return sorted(set(out))
digest = hashlib.sha256()
sel = peers()
sel = sel[:4] + sel[-3:] + random_peers(count=(3 if TIER == 'quick' else 30))
sel2 = [(pi, p, role) for pi, p in enumerate(sel) for role in (('server', 'client') if ('cli_enc' in p or pi %% 3 == 0) else ('server',))]
for pi, p, role in sel2:
    def run(**kw):
        kex = H.make_kex(p['kex'], p['key'], p['enc'], p['mac'], cli_enc=p.get('cli_enc'), cli_mac=p.get('cli_mac'))
        return H.run_output(kex=kex, client_host=('10.1.2.3' if role == 'client' else None), **kw)
    cases += 1
    base_status, base_text = run()
    base = findings_set(base_text)
    digest.update(base_text.encode())
    inp = {'peer': pi, 'role': role}
    for name, kw in (('batch', dict(batch=True)), ('verbose', dict(verbose=True)), ('colors', dict(colors=True)), ('batch+verbose', dict(batch=True, verbose=True))):
        cases += 1
        st_, tx = run(**kw)
        digest.update(tx.encode())
        if st_ != base_status:
            fail(dict(inp, options=name), st_, base_status, 'status')
        if findings_set(tx) != base:
            a, b = findings_set(tx), base
            fail(dict(inp, options=name), [x for x in a if x not in b][:3] + [x for x in b if x not in a][:3], 'the same findings as the plain report', 'findings')
    # JSON: same status; same findings for names the database knows; compact == indented; well-formed
    cases += 1
    sj, js = run(json_out=True)
    sj2, js2 = run(json_out=True, json_indent=True)
    digest.update(js.encode())
    try:
        d1, d2 = json.loads(js), json.loads(js2)
    except Exception as e:
        fail(inp, 'not JSON %%r' %% (e,), 'well-formed JSON', 'json'); continue
    if d1 != d2:
        fail(inp, 'compact and indented forms differ', 'equal values', 'json-indent')
    if sj != base_status or sj2 != base_status:
        fail(inp, [sj, sj2], base_status, 'status-json')
    known = lambda c, n: (n[:n.rindex('-')] + '-*' if c == 'kex' and n.startswith('gss-') else n) in DB[c]
    jf = [x for x in json_findings(d1) if known(x[0], x[1]) and not x[3].startswith('available since')]
    tf = [x for x in base if known(x[0], x[1]) and not x[3].startswith('available since')]
    if jf != tf:
        fail(inp, [x for x in jf if x not in tf][:3] + [x for x in tf if x not in jf][:3], 'JSON findings == text findings for known names', 'findings-json')
    # minimum level: only removes lines, never adds or alters; the status does not change
    lines0 = [H.ANSI.sub('', l) for l in base_text.split('\n')]
    for lvl in ('warn', 'fail'):
        for extra in (dict(), dict(batch=True), dict(verbose=True)):
            cases += 1
            s0, t0 = run(**extra)
            sl, tl = run(level=lvl, **extra)
            if sl != base_status:
                fail(dict(inp, level=lvl, options=extra), sl, base_status, 'status-level')
            l0 = [H.ANSI.sub('', l) for l in t0.split('\n')]
            ll = [H.ANSI.sub('', l) for l in tl.split('\n')] if tl else []      # (no output at all is zero lines, not one empty line)
            it = iter(l0)
            if not all(any(x == y for y in it) for x in ll):
                fail(dict(inp, level=lvl, options=extra), [x for x in ll if x not in l0][:3], 'a subsequence of the lines at level info', 'level-adds')
            f0 = [x for x in findings_set(t0) if RANK[x[2]] >= RANK[lvl]]
            fl = findings_set(tl)
            # first-line logic: a hidden first line moves the name to the next shown line; compare (cat, name, level, note) sets
            if [x for x in fl if x not in findings_set(t0)]:
                fail(dict(inp, level=lvl, options=extra), [x for x in fl if x not in findings_set(t0)][:3], 'no new findings', 'level-alters')
            # ... and every finding at or above the minimum level is still shown (only lines below the level are removed)
            lost = [x for x in f0 if (x[0], x[1], x[2], x[3]) not in [(y[0], y[1], y[2], y[3]) for y in fl]]
            if lost:
                fail(dict(inp, level=lvl, options=extra), lost[:3], 'findings at or above the minimum level are kept', 'level-drops-finding')
# the additional notes ((nfo) lines) of the text report are the additional_notes of the JSON report, also for a peer without any finding
CLEANSTRICT = dict(kex=['sntrup761x25519-sha512@openssh.com', 'kex-strict-s-v00@openssh.com'], key=['ssh-ed25519'], enc=['chacha20-poly1305@openssh.com', 'aes256-gcm@openssh.com'], mac=['hmac-sha2-512-etm@openssh.com'])
for p_ in (CLEANSTRICT, dict(CLEANSTRICT, enc=['chacha20-poly1305@openssh.com', 'aes256-cbc'])):
    for kw in ({}, dict(batch=True), dict(verbose=True)):
        cases += 1
        k_ = H.make_kex(p_['kex'], p_['key'], p_['enc'], p_['mac'])
        st_t, tx = H.run_output(kex=k_, banner='SSH-2.0-OpenSSH_9.9', **kw)
        k_ = H.make_kex(p_['kex'], p_['key'], p_['enc'], p_['mac'])
        st_j, js_ = H.run_output(kex=k_, banner='SSH-2.0-OpenSSH_9.9', json_out=True)
        notes_j = [n for n in json.loads(js_).get('additional_notes', []) if n]
        notes_t = [H.ANSI.sub('', l)[6:] for l in tx.split('\n') if H.ANSI.sub('', l).startswith('(nfo) ') and 'hardening guides' not in l]
        if st_t != st_j or any(n not in notes_t for n in notes_j):
            fail({'peer': 'strict-kex, otherwise clean', 'options': kw}, {'text notes': [n[:60] for n in notes_t], 'status': [st_t, st_j]}, {'json notes': [n[:60] for n in notes_j]}, 'additional-notes')
# SSH-1 peers: the status is the same in every rendering (text modes and JSON)
for cm, am in ((0x48, 0x24), (0, 0), (0x7f, 0x7f), (0x08, 0x04), (0x04, 0x08)):
    cases += 1
    sts = {}
    for name, kw in (('plain', {}), ('batch', dict(batch=True)), ('verbose', dict(verbose=True)), ('json', dict(json_out=True)), ('json-indent', dict(json_out=True, json_indent=True))):
        try:
            sts[name] = H.run_output(pkm=H.make_pkm(cm, am), banner='SSH-1.5-OpenSSH_1.2.3', **kw)[0]
        except Exception as e:
            sts[name] = 'exception %%r' %% (e,)
    if len(set(map(str, sts.values()))) != 1:
        fail({'ssh1 cipher mask': cm, 'auth mask': am}, sts, 'one status in every rendering', 'ssh1-status')
# multi-target JSON is one well-formed document whatever the completion order and even when a target is listed twice
sys.path.insert(0, %(native)r)
import fakenet as F, tempfile
def msrv(delay=None):
    sv = F.Server(['curve25519-sha256'], ['ssh-ed25519'], ['aes128-ctr'], ['hmac-sha2-256'], hostkeys={'ssh-ed25519': F.ed25519_blob()})
    if delay:
        sv.delays = {0: delay}
    return sv
for lines, slow, threads in ((['a.test', 'b.test'], 'a.test', 2), (['a.test', 'b.test', 'c.test'], 'c.test', 3), (['a.test', 'b.test', 'a.test'], None, 1), (['a.test', 'b.test', 'a.test'], 'b.test', 2),
                             (['a.test', 'b.test', 'c.test'], 'a.test', 2)):
    for flag in ('-j', '-jj'):
        cases += 1
        f = tempfile.NamedTemporaryFile('w', suffix='.txt', delete=False); f.write(''.join(h + '\n' for h in lines)); f.close()
        try:
            net = F.FakeNet({h: msrv(0.4 if h == slow else None) for h in set(lines)})
            st, out = F.run_main(['-n', flag, '--skip-rate-test', '-T', f.name, '--threads', str(threads)], net)
        finally:
            os.unlink(f.name)
        try:
            arr = json.loads(out)
            if not isinstance(arr, list) or len(arr) != len(lines):
                fail({'targets': lines, 'slow': slow, 'threads': threads, 'flag': flag}, {'elements': len(arr) if isinstance(arr, list) else None}, len(lines), 'multi-target-json-elements')
        except Exception as e:
            fail({'targets': lines, 'slow': slow, 'threads': threads, 'flag': flag}, out[-80:], 'one well-formed JSON array', 'multi-target-json')
# a policy audit with -j / -jj prints one JSON document even when the policy file uses deprecated directives (their warning must not go to stdout)
polfile = tempfile.NamedTemporaryFile('w', suffix='.txt', delete=False)
polfile.write('name = "Old style"\nversion = 1\nhostkey_size_ssh-ed25519 = 256\ndh_modulus_size_diffie-hellman-group-exchange-sha256 = 3072\nhost keys = ssh-ed25519\nkey exchanges = curve25519-sha256\nciphers = aes128-ctr\nmacs = hmac-sha2-256\n')
polfile.close()
try:
    for flag in ('-j', '-jj'):
        cases += 1
        st, out = F.run_main(['-n', flag, '--skip-rate-test', '-P', polfile.name, 'p.test'], F.FakeNet({'p.test': msrv()}))
        try:
            doc = json.loads(out)
            if not isinstance(doc, dict) or 'passed' not in doc:
                fail({'policy file': 'deprecated directives', 'flag': flag}, out[:120], 'one JSON verdict document', 'policy-json')
        except Exception as e:
            fail({'policy file': 'deprecated directives', 'flag': flag}, out[:160], 'stdout is one well-formed JSON document', 'policy-json')
finally:
    os.unlink(polfile.name)
# the options as spelled on the command line (through process_commandline and main(), against a scripted server): status and findings are the
# same under every spelling; JSON is one document under every minimum level.  (Which rendering a spelling selects is not part of the property:
# '-nb' leaves the colours on because the colour switch looks for a literal '-n' argument, and the (rec) lines are sorted with their colour
# codes, so coloured and plain reports order them differently -- observations, not violations.)
def osrv():
    return F.Server(['diffie-hellman-group14-sha1', 'curve25519-sha256'], ['ssh-rsa', 'ssh-ed25519'], ['aes128-cbc', 'aes128-ctr'], ['hmac-sha1', 'hmac-sha2-256-etm@openssh.com'],
                    hostkeys={'ssh-rsa': F.rsa_blob(2048), 'ssh-ed25519': F.ed25519_blob()})
def cli(args):
    return F.run_main(args + ['--skip-rate-test', 'o.test'], F.FakeNet({'o.test': osrv()}))
cases += 1
o_st, o_out = cli(['-n'])
o_find = findings_set(o_out)
if not o_find or '\x1b[' in o_out:
    fail({'argv': ['-n']}, {'findings': len(o_find), 'escape sequences': '\x1b[' in o_out}, 'a plain report without colour codes', 'cli-nocolor')
for args in (['-n', '-b'], ['-n', '--batch'], ['-n', '-v'], ['-n', '--verbose'], ['-nb'], ['-nv'], ['-n', '-b', '-v'], [], ['--no-colors']):
    cases += 1
    st_, tx = cli(args)
    if st_ != o_st or findings_set(tx) != o_find:
        fail({'argv': args}, {'status': st_, 'differing findings': [x for x in findings_set(tx) if x not in o_find][:3] + [x for x in o_find if x not in findings_set(tx)][:3]}, {'status': o_st, 'findings': 'as with -n'}, 'cli-findings')
for args, lvl in ((['-n', '-l', 'warn'], 'warn'), (['-n', '--level=warn'], 'warn'), (['-n', '-l', 'fail'], 'fail'), (['-n', '--level', 'fail'], 'fail'), (['-n', '-l', 'info'], 'info'), (['-n', '-b', '-l', 'warn'], 'warn')):
    cases += 1
    st_, tx = cli(args)
    want = [x for x in o_find if RANK[x[2]] >= RANK[lvl]]
    got = findings_set(tx)
    if st_ != o_st or [x for x in got if x not in o_find] or [x for x in want if x not in got] or [x for x in got if RANK[x[2]] < RANK[lvl]]:
        fail({'argv': args}, {'status': st_, 'findings below the level': [x for x in got if RANK[x[2]] < RANK[lvl]][:3], 'lost': [x for x in want if x not in got][:3]}, {'status': o_st, 'findings': 'exactly those at or above ' + lvl}, 'cli-level')
docs = {}
for args in (['-j'], ['-jj'], ['--json'], ['-n', '-j'], ['-j', '-b'], ['-j', '-l', 'warn'], ['-j', '-l', 'fail'], ['-jj', '--level=fail']):
    cases += 1
    st_, tx = cli(args)
    try:
        docs[tuple(args)] = json.loads(tx)
    except Exception as e:
        fail({'argv': args}, tx[:120], 'one well-formed JSON document', 'cli-json'); continue
    d_ = docs[tuple(args)]
    known = lambda c, n: n in DB[c]
    jf = [x for x in json_findings(d_) if known(x[0], x[1]) and not x[3].startswith('available since')]
    tf = [x for x in o_find if known(x[0], x[1]) and not x[3].startswith('available since')]
    if st_ != o_st or jf != tf:
        fail({'argv': args}, {'status': st_, 'differing findings': [x for x in jf if x not in tf][:3] + [x for x in tf if x not in jf][:3]}, {'status': o_st, 'findings': 'as in the text report'}, 'cli-json-findings')
    if ('-jj' in args) != ('\n' in tx.strip()):
        fail({'argv': args}, {'indented': '\n' in tx.strip()}, {'indented': '-jj' in args}, 'cli-json-indent')
if len(set(json.dumps(d_, sort_keys=True) for d_ in docs.values())) > 1:
    fail({'argv': [list(k) for k in docs]}, 'the JSON documents differ', 'one value whatever the other output options', 'cli-json-same')
# byte-identical repeated audits, including under different hash seeds (a peer whose report carries a note listing several algorithms included)
cases += 1
STRICT = dict(kex=['curve25519-sha256', 'kex-strict-s-v00@openssh.com'], key=['ssh-ed25519'], enc=['chacha20-poly1305@openssh.com', 'aes256-cbc', 'aes128-cbc', '3des-cbc', 'aes128-ctr'],
              mac=['hmac-sha2-256-etm@openssh.com', 'hmac-sha2-512-etm@openssh.com', 'umac-128-etm@openssh.com', 'hmac-sha1-etm@openssh.com'])
code = "import sys; sys.path.insert(0, %%r); import harness as H, hashlib; h = hashlib.sha256();\nfor p in %%r:\n    k = H.make_kex(p['kex'], p['key'], p['enc'], p['mac']); h.update(H.run_output(kex=k)[1].encode()); k = H.make_kex(p['kex'], p['key'], p['enc'], p['mac']); h.update(H.run_output(kex=k, json_out=True)[1].encode())\nprint(h.hexdigest())" %% (%(native)r, sel[:3] + [STRICT])
outs = set()
for seed in ('0', '1', '2', '3', '12345', '99', 'random'):
    env = dict(os.environ, PYTHONHASHSEED=seed)
    outs.add(subprocess.run([sys.executable, '-c', code], capture_output=True, text=True, env=env).stdout.strip())
if len(outs) != 1 or '' in outs:
    fail({'hash seeds': ['0', '1', '12345', 'random']}, sorted(outs), 'one digest', 'hashseed')
print(json.dumps({'cases': cases, 'failures': failures}))
'''
