"""C05, the evaluation half of the round trip, for every peer: a policy whose attributes equal the peer's passes on that peer with no
error recorded, and a policy that differs from the peer in any one attribute fails with an error naming that attribute.

Proved on the real Policy.evaluate with the same abstract peer and policy as C06 (unbounded symbolic name lists, unconstrained sizes);
what Policy.create writes and Policy.__init__ reads back (the text half of the round trip) is the bounded stand-in's part."""
from pyvc.contracts import Contract
from pyvc.driver import Unit
from . import c06_policy as P

T, G, N = P.T, P.G, P.N

LISTS = [('Compression', 'kex.server.compression', 'self._compressions'), ('Host keys', 'kex.key_algorithms', 'self._host_keys'),
         ('Key exchanges', 'kex.kex_algorithms', 'self._kex'), ('Ciphers', 'kex.server.encryption', 'self._ciphers'), ('MACs', 'kex.server.mac', 'self._macs')]
SIZES = [('Host key (%s) sizes' % T, 'g_a_hs', 'g_e_hs'), ('Group exchange (%s) modulus sizes' % G, 'g_a_dh', 'g_e_dh')]


def units():
    U = []
    for sizes in (False, True):
        case = {'$present': True, '$subset': False, '$sizes': sizes}
        # (a) same attributes: passes, nothing recorded  (create() writes no banner requirement: 'None' or absent)
        req = ["self._banner is None or self._banner == 'None'"] + ["%s == %s" % (a, e) for _, a, e in LISTS]
        if sizes:
            req += ["%s == %s" % (a, e) for _, a, e in SIZES] + ["g_a_cat == g_e_cat", "g_a_cs == g_e_cs"]
        ens = ["result[0] == True"] + ["%s == 0" % N(k) for k in P.FIELDS]
        U.append(Unit(Contract('Policy.evaluate', setup=P.setup_evaluate, raises={}, cases=[case], requires=req, ensures=ens,
                               note='same attributes -> passes'), harness=None))
        # (b) one attribute differs: fails, the attribute's error is recorded (exact matching, sizes exact unless larger keys are allowed)
        ens = []
        for k, a, e in LISTS:
            ens.append("(%s == %s) or (result[0] == False and %s == 1)" % (a, e, N(k)))
        if sizes:
            for k, a, e in SIZES:
                ens.append("(%s == %s) or self._allow_larger_keys or (result[0] == False and %s == 1)" % (a, e, N(k)))
                ens.append("(%s >= %s) or (result[0] == False and %s == 1)" % (a, e, N(k)))
            ca_on = "(len(g_e_cat) > 0 and g_e_cs > 0)"
            ens.append("(not %s) or (g_a_cat == g_e_cat) or (result[0] == False and %s == 1)" % (ca_on, N('CA signature type')))
            ens.append("(not %s) or (g_a_cat != g_e_cat) or (g_a_cs >= g_e_cs) or (result[0] == False and %s == 1)" % (ca_on, N('CA signature size')))
            ens.append("(not %s) or (g_a_cat != g_e_cat) or (g_a_cs == g_e_cs) or self._allow_larger_keys or (result[0] == False and %s == 1)" % (ca_on, N('CA signature size')))
        U.append(Unit(Contract('Policy.evaluate', setup=P.setup_evaluate, raises={}, cases=[case], ensures=ens,
                               note='one attribute differs -> fails naming it'), harness=None))
    return U
