"""Contracts for C18 (the tool connects to, and reports on, exactly the target that was named)."""
import z3
from pyvc.contracts import Contract
from pyvc.driver import Unit
from pyvc.values import fresh, Sym
from pyvc.state import mk

IMPORTS = "from ssh_audit.utils import Utils\nfrom ssh_audit.auditconf import AuditConf\n"
RX_BRACKET = r'^\[([^\]]+)\](?::(\d+))?$'
WHY_RX = ("re.match(r'^\\[([^\\]]+)\\](?::(\\d+))?$', s): matches '[h]' and '[h]:p' (h non-empty without ']', p digits) capturing (h, None) / "
          "(h, p); does not match strings that do not start with '[' or lack the closing form (cross-checked against CPython each run)")
DIG = z3.Range(z3.StringVal('0'), z3.StringVal('9'))
ANYC = z3.AllChar(z3.ReSort(z3.StringSort()))


class _No:
    """`string does not contain ch` (as a Contains atom: far easier for the string solvers than a complemented regex)"""

    def __init__(self, ch):
        self.ch = ch


def no(ch):
    return _No(ch)


_InRe = z3.InRe


def InRe(t, r):
    if isinstance(r, _No):
        return z3.Not(z3.Contains(t, z3.StringVal(r.ch)))
    return _InRe(t, r)


def setup_php(ip, st, fr, case):
    """the documented spellings, as structured symbolic strings (h, p ghost parts)"""
    shape = case['$shape']
    h, p = fresh('h', 'str'), fresh('p', 'str')
    st.assume(InRe(h.t, no('\n')))
    st.assume(InRe(p.t, z3.Plus(DIG)))
    st.assume(z3.Length(p.t) <= 6)
    fr['default_port'] = fresh('default_port', 'int')
    if shape == 'bracket-port':          # [h]:p     (h non-empty, without ']')
        st.assume(z3.Length(h.t) >= 1)
        st.assume(InRe(h.t, no(']')))
        s = z3.Concat(z3.StringVal('['), h.t, z3.StringVal(']:'), p.t)
    elif shape == 'bracket':             # [h]
        st.assume(z3.Length(h.t) >= 1)
        st.assume(InRe(h.t, no(']')))
        s = z3.Concat(z3.StringVal('['), h.t, z3.StringVal(']'))
    elif shape == 'host-port':           # h:p       (h without ':' and not starting a bracket form)
        st.assume(InRe(h.t, no(':')))
        st.assume(z3.Not(z3.PrefixOf(z3.StringVal('['), h.t)))
        s = z3.Concat(h.t, z3.StringVal(':'), p.t)
    elif shape == 'host-colon':          # h:        (port left to the default)
        st.assume(InRe(h.t, no(':')))
        st.assume(z3.Not(z3.PrefixOf(z3.StringVal('['), h.t)))
        s = z3.Concat(h.t, z3.StringVal(':'))
    elif shape == 'plain':               # hostname / IPv4: no colon, not a bracket form
        st.assume(InRe(h.t, no(':')))
        st.assume(z3.Not(z3.And(z3.PrefixOf(z3.StringVal('['), h.t), z3.SuffixOf(z3.StringVal(']'), h.t))))
        s = h.t
    elif shape.startswith('bare-ipv6-'):  # k >= 2 colons between colon-free groups (possibly empty, as in ::1); not a bracket form
        k = int(shape.split('-')[-1])
        groups = [fresh('g%d' % i, 'str') for i in range(k + 1)]
        for x in groups:
            st.assume(InRe(x.t, no('\n')))
            st.assume(InRe(x.t, no(':')))
        st.assume(z3.Not(z3.PrefixOf(z3.StringVal('['), groups[0].t)))
        parts = []
        for i, x in enumerate(groups):
            if i:
                parts.append(z3.StringVal(':'))
            parts.append(x.t)
        s = z3.Concat(*parts)
        st.assume(h.t == s)
    fr['host_and_port'] = mk(s, 'str')
    fr['g_h'], fr['g_p'] = h, p
    # assumed outcome of the bracket regular expression on these structured inputs (cross-checked against CPython each run)
    from pyvc.values import opt_some, opt_none
    if shape == 'bracket-port':
        hint = (True, (h, Sym(opt_some(('opt', 'str'), p.t), ('opt', 'str'))))
    elif shape == 'bracket':
        hint = (True, (h, Sym(opt_none(('opt', 'str')), ('opt', 'str'))))
    else:
        hint = (False, ())
    st.ghost['$rx_hints'] = ((RX_BRACKET, s, hint[0], hint[1], WHY_RX),)
    return {'g_h': h, 'g_p': p, 'default_port': fr['default_port']}


SPELL = {'bracket-port': "'[' + g_h + ']:' + g_p", 'bracket': "'[' + g_h + ']'", 'host-port': "g_h + ':' + g_p",
         'host-colon': "g_h + ':'", 'plain': 'g_h'}
for _k in range(2, 8):
    SPELL['bare-ipv6-%d' % _k] = 'g_h'
WANT = {'bracket-port': "result == (g_h, int(g_p))", 'bracket': "result == (g_h, default_port)",
        'host-port': "result == (g_h, int(g_p))", 'host-colon': "result == (g_h, default_port)",
        'plain': "result == (g_h, default_port)"}
for _k in range(2, 8):
    WANT['bare-ipv6-%d' % _k] = "result == (g_h, default_port)"


def setup_setport(ip, st, fr, case):
    lst = st.new_list([])
    fr['self'] = st.new_obj('AuditConf', {'ip_version_preference': lst, 'port': 22, 'host': ''})
    fr['name'] = 'port'
    fr['value'] = fresh('value', 'int')
    return {'value': fr['value']}


def m_object_setattr(ip, st, args, kwargs):
    obj, name, value = args
    st.mut(obj).f[name] = value
    return None


def setup_sockinit(ip, st, fr, case):
    fr['self'] = st.new_obj('SSH_Socket', {})
    fr['outputbuffer'] = None
    fr['host'] = fresh('host', 'str')
    fr['port'] = fresh('port', 'int')
    return {'host': fr['host'], 'port': fr['port']}


def units():
    U = []
    for shape in SPELL:
        U.append(Unit(Contract('Utils.parse_host_and_port', setup=setup_php, cases=[{'$shape': shape}], raises={},
                               ensures=[WANT[shape]]),
                      harness=dict(imports=IMPORTS, call="Utils.parse_host_and_port(%s, default_port)" % SPELL[shape])))
    U.append(Unit(Contract('AuditConf.__setattr__', setup=setup_setport,
                           raises={'ValueError': "value < 1 or value > 65535"},
                           ensures=["self.port == value"]),
                  harness=None))
    U.append(Unit(Contract('SSH_Socket.__init__', setup=setup_sockinit, raises={'ValueError': "port < 1 or port > 65535"},
                           ensures=["self._SSH_Socket__port == port and self._SSH_Socket__host == host", "self._SSH_Socket__sock is None"]),
                  harness=None))
    return U


def crosscheck_regex():
    import itertools
    import re
    n = 0
    hs = ['a', '::1', 'x.y', '1', 'a b', '[', 'a:b']
    ps = ['1', '22', '65535', '007']
    for h in hs:
        for p in ps:
            for s, want in (('[%s]:%s' % (h, p), (h, p)), ('[%s]' % h, (h, None)), ('%s:%s' % (h, p), None), (h + ':', None), (h, None if True else 0)):
                m = re.match(RX_BRACKET, s)
                n += 1
                starts = s.startswith('[')
                if want is not None and not isinstance(want, tuple):
                    continue
                if isinstance(want, tuple) and ']' not in h:
                    if m is None or m.groups() != want:
                        return n, 'model says %r for %r, CPython says %r' % (want, s, m.groups() if m else None)
                if want is None and not starts:
                    if m is not None:
                        return n, 'model says no match for %r, CPython matches' % s
    return n, None


NATIVE = r'''
import io, json, os, sys, tempfile, contextlib
from ssh_audit.ssh_audit import process_commandline
from ssh_audit.outputbuffer import OutputBuffer
from ssh_audit.utils import Utils
cases, failures = 0, []

def run(args):
    out = OutputBuffer()
    buf = io.StringIO()
    try:
        with contextlib.redirect_stdout(buf), contextlib.redirect_stderr(buf):
            ac = process_commandline(out, args)
        return ('ok', ac)
    except SystemExit as e:
        return ('exit', e.code)
    except Exception as e:
        return ('exc', repr(e))

def expect(name, args, want):
    global cases
    cases += 1
    kind, ac = run(args)
    got = (ac.host, ac.port) if kind == 'ok' else (kind, ac)
    if got != want and len(failures) < 8:
        failures.append({'input': {'argv': args, 'case': name}, 'got': repr(got), 'want': repr(want)})

hosts = ['example.com', 'a', '192.0.2.1', 'host-1.example.org']
v6 = ['::1', '2001:db8::1', 'fe80::1:2:3:4', '2001:0db8:0000:0000:0000:ff00:0042:8329']
ports = [1, 22, 2222, 65535]
for h in hosts:
    expect('plain', [h], (h, 22))
    for p in ports:
        expect('host:port', ['%s:%d' % (h, p)], (h, p))
        expect('-p', ['-p', str(p), h], (h, p))
for h in v6:
    expect('bare-ipv6', [h], (h, 22))
    expect('bracket', ['[%s]' % h], (h, 22))
    for p in ports:
        expect('[v6]:port', ['[%s]:%d' % (h, p)], (h, p))
        expect('-p bare v6', ['-p', str(p), h], (h, p))
# -p together with a port / bracket in the spelling: the spelled port wins, -p is the default (property statement)
expect('-p with host:port', ['-p', '2222', 'example.com:22'], ('example.com', 22))
expect('-p with [v6]', ['-p', '2222', '[::1]'], ('::1', 2222))
expect('-p with [v6]:port', ['-p', '2222', '[::1]:22'], ('::1', 22))
# ports outside 1..65535 are rejected before any connection is made (process exits / raises before returning a target)
for bad in ['0', '65536', '70000', '-1']:
    for args in (['-p', bad, 'example.com'], ['example.com:' + bad] if not bad.startswith('-') else ['-p', bad, 'a']):
        cases += 1
        kind, ac = run(args)
        if kind == 'ok' and len(failures) < 8:
            failures.append({'input': {'argv': args, 'case': 'bad port'}, 'got': repr((ac.host, ac.port)), 'want': 'rejection'})
# IP-version options: the families requested, in the order requested (-4, -6, -46, -64, and the separate spellings), reach the configuration
for args, want_pref in ((['-4'], [4]), (['-6'], [6]), (['-46'], [4, 6]), (['-64'], [6, 4]), (['-4', '-6'], [4, 6]), (['-6', '-4'], [6, 4]), (['--ipv4'], [4]), (['--ipv6'], [6]),
                        (['--ipv6', '--ipv4'], [6, 4]), ([], [])):
    cases += 1
    kind, ac = run(args + ['example.com'])
    got = list(ac.ip_version_preference) if kind == 'ok' else (kind, ac)
    if got != want_pref and len(failures) < 8:
        failures.append({'input': {'argv': args + ['example.com'], 'case': 'ip-version option'}, 'got': repr(got), 'want': repr(want_pref)})
    if kind == 'ok' and (ac.ipv4, ac.ipv6) != (4 in want_pref, 6 in want_pref) and len(failures) < 8:
        failures.append({'input': {'argv': args + ['example.com'], 'case': 'ip-version flags'}, 'got': repr((ac.ipv4, ac.ipv6)), 'want': repr((4 in want_pref, 6 in want_pref))})
# targets files: one target per line, blank / whitespace-only lines skipped, -p as default port
def targets(lines, extra, want):
    global cases
    cases += 1
    with tempfile.NamedTemporaryFile('w', suffix='.txt', delete=False) as f:
        f.write(''.join(lines))
        path = f.name
    try:
        kind, ac = run(['-T', path] + extra)
    finally:
        os.unlink(path)
    if kind != 'ok':
        got = (kind, ac)
    else:
        got = [Utils.parse_host_and_port(t, default_port=ac.port) for t in ac.target_list]
    if got != want and len(failures) < 8:
        failures.append({'input': {'targets_file_lines': lines, 'argv_extra': extra}, 'got': repr(got), 'want': repr(want)})

for nl in ('\n', '\r\n'):
    targets(['a' + nl, 'b:2222' + nl, '[::1]:2022' + nl, '::1' + nl], [], [('a', 22), ('b', 2222), ('::1', 2022), ('::1', 22)])
    targets(['a' + nl, nl, 'b' + nl], [], [('a', 22), ('b', 22)])
    targets(['a' + nl, '   ' + nl, '\t' + nl, 'b' + nl], [], [('a', 22), ('b', 22)])
    targets(['  a  ' + nl, 'b:2222  ' + nl], ['-p', '2200'], [('a', 2200), ('b', 2222)])
    targets(['a' + nl, 'b'], ['-p', '2200'], [('a', 2200), ('b', 2200)])
print(json.dumps({'cases': cases, 'failures': failures}))
'''


NATIVE_RESOLVE = r'''
import json, socket, itertools
from ssh_audit.auditconf import AuditConf
from ssh_audit.outputbuffer import OutputBuffer
from ssh_audit.ssh_socket import SSH_Socket
cases, failures = 0, []
V4 = [(socket.AF_INET, socket.SOCK_STREAM, 6, '', ('192.0.2.%d' % i, 22)) for i in (1, 2)]
V6 = [(socket.AF_INET6, socket.SOCK_STREAM, 6, '', ('2001:db8::%d' % i, 22, 0, 0)) for i in (1, 2)]
DGRAM = [(socket.AF_INET, socket.SOCK_DGRAM, 17, '', ('192.0.2.9', 22))]
answers = [V4 + V6, V6 + V4, [V6[0], V4[0], V6[1], V4[1]], [V4[0], V6[0], DGRAM[0], V4[1], V6[1]], V4, V6, []]
real = socket.getaddrinfo
seen = {}
def fake(host, port, family=0, type=0, proto=0, flags=0):
    seen['family'] = family
    return [a for a in seen['answer'] if family in (0, a[0])]
socket.getaddrinfo = fake
try:
    for pref in ([], [4], [6], [4, 6], [6, 4]):
        for ans in answers:
            cases += 1
            seen['answer'] = ans
            s = SSH_Socket(OutputBuffer(), 'host.example', 22, pref)
            got = list(s._resolve())
            want_family = socket.AF_INET if pref == [4] else socket.AF_INET6 if pref == [6] else socket.AF_UNSPEC
            stream = [a for a in ans if a[1] == socket.SOCK_STREAM and want_family in (0, a[0])]
            if len(pref) == 2:
                first = socket.AF_INET if pref[0] == 4 else socket.AF_INET6
                stream = [a for a in stream if a[0] == first] + [a for a in stream if a[0] != first]   # stable by family
            want = [(a[0], a[4]) for a in stream]
            if (seen.get('family') != want_family or got != want) and len(failures) < 8:
                failures.append({'input': {'ip_version_preference': pref, 'resolver_answer': [(a[0].name, a[4][0]) for a in ans]}, 'got': repr([(f.name, a[0]) for f, a in got]), 'want': repr([(f.name, a[0]) for f, a in want])})
    # IP-address literals go through the resolver too, so that -4 / -6 is honoured for them (the resolver rejects a literal of the other family)
    def fake_lit(host, port, family=0, type=0, proto=0, flags=0):
        seen['family'] = family
        seen['calls'] = seen.get('calls', 0) + 1
        fam = socket.AF_INET6 if ':' in host else socket.AF_INET
        if family not in (0, fam):
            raise socket.gaierror(-9, 'Address family for hostname not supported')
        return [(fam, socket.SOCK_STREAM, 6, '', (host, port) if fam == socket.AF_INET else (host, port, 0, 0))]
    socket.getaddrinfo = fake_lit
    for lit in ('192.0.2.7', '2001:db8::1'):
        for pref in ([], [4], [6], [4, 6], [6, 4]):
            cases += 1
            seen['calls'] = 0
            s = SSH_Socket(OutputBuffer(), lit, 2222, pref)
            fam = socket.AF_INET6 if ':' in lit else socket.AF_INET
            allowed = not ((pref == [4] and fam == socket.AF_INET6) or (pref == [6] and fam == socket.AF_INET))
            try:
                got = list(s._resolve())
                err = None
            except socket.gaierror as e:
                got, err = None, e
            if allowed:
                ok = got is not None and [(f, a[0], a[1]) for f, a in got] == [(fam, lit, 2222)]
            else:
                ok = got is None or got == []
            if (not ok or seen['calls'] != 1) and len(failures) < 8:
                failures.append({'input': {'class': 'literal', 'host': lit, 'ip_version_preference': pref}, 'got': {'addresses': repr(got), 'resolver calls': seen['calls']},
                                 'want': 'the literal itself via the resolver' if allowed else 'no address (the family that was asked for does not match the literal)'})
finally:
    socket.getaddrinfo = real
print(json.dumps({'cases': cases, 'failures': failures}))
'''

NATIVE_MAIN = r'''
import json, sys, os, tempfile
sys.path.insert(0, %(native)r)
import fakenet as F
cases, failures = 0, []
per = {}
def fail(inp, got, want, cls):
    per[cls] = per.get(cls, 0) + 1
    if per[cls] <= 3:
        failures.append({'input': dict(inp, **{'class': cls}), 'got': got, 'want': want})
def srv():
    return F.Server(['curve25519-sha256'], ['ssh-ed25519'], ['aes128-ctr'], ['hmac-sha2-256'], hostkeys={'ssh-ed25519': F.ed25519_blob()})
# a targets file with a default port given by -p: every line is contacted, and labelled, on its own port or the default
lines = [('a.test', 'a.test', None), ('b.test:2200', 'b.test', 2200), ('192.0.2.5', '192.0.2.5', None), ('2001:db8::1', '2001:db8::1', None), ('[2001:db8::2]:2201', '2001:db8::2', 2201), ('c.test', 'c.test', None)]
for dflt in (None, 2222):
    for threads in (1, 3):
        cases += 1
        f = tempfile.NamedTemporaryFile('w', suffix='.txt', delete=False); f.write(''.join(l[0] + '\n' for l in lines)); f.close()
        try:
            net = F.FakeNet({h: srv() for _, h, _ in lines})
            st, out = F.run_main(['-n', '--skip-rate-test', '-T', f.name, '--threads', str(threads)] + (['-p', str(dflt)] if dflt else []), net)
        finally:
            os.unlink(f.name)
        inp = {'default port': dflt, 'threads': threads}
        resolved = [(e[1], e[2]) for e in net.events if e[0] == 'resolve']
        connects = {}
        for e in net.events:
            if e[0] == 'connect':
                host = [h for h, ip in net.ip_of.items() if ip == e[1][0]][0]
                connects.setdefault(host, set()).add(e[1][1])
        for text, host, port in lines:
            want_port = port or dflt or 22
            if connects.get(host) != {want_port}:
                fail(dict(inp, line=text), {'connected to ports': sorted(connects.get(host, []))}, {'port': want_port}, 'target-port')
            label = ('[%%s]:%%d' %% (host, want_port) if ':' in host else '%%s:%%d' %% (host, want_port)) if want_port != 22 else host
            if ('(gen) target: ' + label) not in out.split('\n'):
                got = [l for l in out.split('\n') if l.startswith('(gen) target:') and host in l]
                fail(dict(inp, line=text), got, '(gen) target: ' + label, 'target-label')
print(json.dumps({'cases': cases, 'failures': failures}))
'''
